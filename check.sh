#!/bin/bash
# usage: check.sh <property-id> [quick|thorough]
# Static check of one property against /repo's current working tree.
# exit 0: held on everything analysed (KNOWN-FINDING lines possible)
# exit 1: "VIOLATION property=<id> replay=<path>" printed
# exit 2: infrastructure error (tree does not type-check, checker missing)
set -u
cd /verif
. /verif/env.sh
PROP=${1:?property id}
TIER=${2:-${VERIF_TIER:-quick}}
if [ ! -x /verif/bin/gscheck ] || [ -n "$(find /verif/gscheck -name '*.go' -newer /verif/bin/gscheck 2>/dev/null | head -1)" ]; then
  (cd /verif/gscheck && go build -o /verif/bin/gscheck ./cmd/gscheck) || { echo "check.sh: cannot build gscheck" >&2; exit 2; }
fi
exec /verif/bin/gscheck check -prop "$PROP" -tier "$TIER" -repo "${GS_REPO:-/repo}" -verif /verif
