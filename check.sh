#!/bin/bash
# usage: check.sh <property-id> [quick|thorough]
# Static check of one property against /repo's current working tree.
# exit 0: held on everything analysed (KNOWN-FINDING lines possible)
# exit 1: "VIOLATION property=<id> replay=<path>" printed
# exit 2: infrastructure error (tree does not type-check, checker missing)
# thorough = whole-program load (all dependencies from source) + VTA call graph,
#            then the checker's own self-test for this property: every seeded
#            source variant under /verif/mutants is applied to a scratch copy
#            (outside /repo and /verif), which must still compile, and the quick
#            check must report the expected rule (benign variants: stay silent).
#            The self-test result is reported and recorded in the evidence; it
#            does not change the exit code (a missed variant is a weakness of the
#            checker, not a violation in /repo).
set -u
cd /verif
. /verif/env.sh
PROP=${1:?property id}
TIER=${2:-${VERIF_TIER:-quick}}
if [ ! -x /verif/bin/gscheck ] || [ -n "$(find /verif/gscheck -name '*.go' -newer /verif/bin/gscheck 2>/dev/null | head -1)" ]; then
  (cd /verif/gscheck && go build -o /verif/bin/gscheck ./cmd/gscheck) || { echo "check.sh: cannot build gscheck" >&2; exit 2; }
fi
/verif/bin/gscheck check -prop "$PROP" -tier "$TIER" -repo "${GS_REPO:-/repo}" -verif /verif
rc=$?
if [ "$TIER" = thorough ] && [ $rc -ne 2 ] && [ -z "${GS_NO_SELFTEST:-}" ]; then
  python3 /verif/scripts/run_mutants.py --prop "$PROP" --repo "${GS_REPO:-/repo}" || true
  python3 - "$PROP" <<'PY' || true
import json,sys,os
p=sys.argv[1]
ev='/verif/evidence/%s.json'%p
st='/verif/evidence/selftest.%s.json'%p
if os.path.exists(ev) and os.path.exists(st):
    e=json.load(open(ev)); s=json.load(open(st))
    e['coverage']['selftest']={'variants':len(s),'as_expected':sum(1 for x in s if x['status'] in ('detected','detected-other','silent')),
                               'missed_or_false_alarm':[x for x in s if x['status'] in ('MISSED','FALSE-ALARM')],
                               'skipped':[x['id'] for x in s if x['status']=='skipped'],'results':s}
    json.dump(e,open(ev,'w'),indent=1)
PY
fi
exit $rc
