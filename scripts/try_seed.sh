#!/bin/bash
# usage: try_seed.sh <patch.diff> [props]
# Applies a seeded change to /repo, runs the quick checks (all properties by default),
# prints which rules fire, and restores /repo.  /repo must be clean.
set -u
PATCH=$(readlink -f "$1"); PROPS=${2:-all}
cd /repo || exit 2
if [ -n "$(git status --porcelain --untracked-files=no)" ]; then echo "try_seed: /repo not clean" >&2; exit 2; fi
git apply "$PATCH" || { echo "try_seed: patch does not apply"; exit 2; }
trap 'git -C /repo apply -R "$PATCH" 2>/dev/null || git -C /repo checkout -- . ' EXIT
. /verif/env.sh
EV=$(mktemp -d /tmp/gs-seed-ev.XXXXXX)
(cd /repo && go build ./... ) || { echo "try_seed: does not compile"; rm -rf $EV; exit 2; }
/verif/bin/gscheck check -prop "$PROPS" -tier quick -repo /repo -verif /verif -evidence $EV 2>&1 | grep -E "^  (VIOLATES|UNDECIDED)|^== C[0-9]+: [0-9]+ unlisted" | cut -c1-400
rm -rf $EV
