#!/usr/bin/env python3
"""keep_seed.py <id> <prop> <seed-out-dir> <detected_by json-list> <needs text>
Stores a confirmed sub-agent change as /verif/seeded/<id>/{patch.diff, demo (zz_seed_test.go), meta.json, agent_notes.txt}."""
import sys, os, json, shutil, subprocess
sid, prop, src, det, needs = sys.argv[1:6]
dst = '/verif/seeded/' + sid
os.makedirs(dst, exist_ok=True)
shutil.copy(os.path.join(src, 'patch.diff'), dst)
shutil.copy(os.path.join(src, 'zz_seed_test.go'), dst)
if os.path.exists(os.path.join(src, 'meta.txt')):
    shutil.copy(os.path.join(src, 'meta.txt'), os.path.join(dst, 'agent_notes.txt'))
head = subprocess.check_output(['git', '-C', '/repo', 'log', '-1', '--format=%h']).decode().strip()
pkgdir = open(os.path.join(src, 'zz_seed_test.go')).readline().replace('// package dir:', '').strip()
meta = {
    'id': sid, 'breaks_property': prop, 'needs_to_manifest': needs,
    'written_by': 'sub-agent given only the property text and a scratch worktree',
    'demo': {'file': 'zz_seed_test.go', 'package_dir': pkgdir},
    'confirmed_by_me': 'scripts/confirm_seed.sh in a scratch worktree: demo passes on the unchanged tree, patch applies and compiles, demo fails with the patch, existing tests of the touched packages and ./impl pass with the patch',
    'checks_run': 'scripts/try_seed.sh patch.diff (git apply to /repo, all quick checks, git checkout -- .)',
    'detected_by': json.loads(det),
    'repo_head_when_kept': head,
}
json.dump(meta, open(os.path.join(dst, 'meta.json'), 'w'), indent=1)
print('kept', dst)
