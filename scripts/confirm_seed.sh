#!/bin/bash
# usage: confirm_seed.sh <seed-dir containing patch.diff and zz_seed_test.go>
# Confirms in a scratch worktree (removed afterwards): demo passes on the unchanged tree, patch applies and
# compiles, demo fails with the patch, existing tests of the touched packages and ./impl pass with the patch.
set -u
D=$(readlink -f "$1")
. /verif/env.sh
WT=$(mktemp -d /tmp/gs-confirm.XXXXXX); rmdir $WT
git -C /repo worktree add -q --detach $WT HEAD || exit 2
cleanup() { git -C /repo worktree remove --force $WT >/dev/null 2>&1; rm -rf $WT; }
trap cleanup EXIT
PKGDIR=$(head -1 $D/zz_seed_test.go | sed -n 's#^// package dir: *##p' | tr -d ' \r')
[ -z "$PKGDIR" ] && { echo "confirm: no '// package dir:' line"; exit 2; }
cp $D/zz_seed_test.go $WT/$PKGDIR/zz_seed_test.go
TEST=$(grep -o 'func Test[A-Za-z0-9_]*' $D/zz_seed_test.go | sed 's/func //' | paste -sd'|')
cd $WT
echo "== demo on unchanged tree (expect PASS)"
go test -mod=mod -vet=off -count=1 -run "^($TEST)\$" ./$PKGDIR/ 2>&1 | tail -3
r0=${PIPESTATUS[0]}
git apply $D/patch.diff || { echo "confirm: patch does not apply"; exit 2; }
go build ./... || { echo "confirm: does not compile"; exit 2; }
echo "== demo with the change (expect FAIL)"
go test -mod=mod -vet=off -count=1 -run "^($TEST)\$" ./$PKGDIR/ 2>&1 | grep -E "^(---|FAIL|ok|panic:)" | head -5
r1=${PIPESTATUS[0]}
TOUCHED=$(grep '^+++ b/' $D/patch.diff | sed 's#+++ b/##' | xargs -n1 dirname | sort -u | sed 's#^#./#' | paste -sd' ')
echo "== existing tests with the change: $TOUCHED ./impl (expect PASS)"
go test -mod=mod -vet=off -count=1 -skip "^($TEST)\$" $TOUCHED ./impl 2>&1 | grep -E "^(---|FAIL|ok)" | head -12
r2=${PIPESTATUS[0]}
echo "RESULT demo_unchanged_rc=$r0 demo_changed_rc=$r1 suite_changed_rc=$r2"
