#!/usr/bin/env python3
"""Checker self-test: apply each seeded source mutant to a scratch copy of /repo
(outside /repo and /verif), make sure it still compiles, run the property's
static check against the copy and require that it reports the expected rule.

usage: run_mutants.py [--prop CNN[,CNN]] [--id ID] [--keep] [--benign]
Mutants live in /verif/mutants/*.json:
  {"id","prop","file","old","new","expect": "C13.R1" | "" (benign: must stay silent), "note"}
Exit 0 always unless --strict (then 1 if any mutant is missed / benign variant alarms).
"""
import json, os, sys, glob, shutil, subprocess, tempfile, argparse, time

ap = argparse.ArgumentParser()
ap.add_argument('--prop', default='')
ap.add_argument('--id', default='')
ap.add_argument('--strict', action='store_true')
ap.add_argument('--repo', default='/repo')
ap.add_argument('-v', action='store_true')
args = ap.parse_args()

env = dict(os.environ)
tc = '/root/go/pkg/mod/golang.org/toolchain@v0.0.1-go1.25.7.linux-amd64/bin'
if os.path.isdir(tc):
    env['PATH'] = tc + ':' + env['PATH']
env.update(GOTOOLCHAIN='local', GOFLAGS='-mod=mod', GOPROXY='off', CGO_ENABLED='0')
env.pop('GOWORK', None)

muts = []
for f in sorted(glob.glob('/verif/mutants/*.json')):
    muts += json.load(open(f))
# patch variants: behaviour-preserving refactorings written by sub-agents (must stay silent on every property they
# were written around) and the sub-agents' seeded changes (must be reported by the rules recorded in their meta.json)
import re
for d in sorted(glob.glob('/verif/benign/C*/')):
    p = os.path.basename(d.rstrip('/'))
    for f in sorted(glob.glob(d + '*.diff')):
        muts.append({'id': 'benign-%s-%s' % (p, os.path.basename(f)[:-5]), 'prop': p, 'patch': f, 'expect': '',
                     'note': 'behaviour-preserving refactoring (sub-agent)'})
for d in sorted(glob.glob('/verif/seeded/*/')):
    try:
        meta = json.load(open(d + 'meta.json'))
    except Exception:
        continue
    rules = sorted(set(re.match(r'(C\d+\.R\w+)', k).group(1) for k in meta.get('detected_by', []) if re.match(r'(C\d+\.R\w+)', k)))
    for r in rules:
        muts.append({'id': 'seeded-%s-%s' % (meta['id'], r), 'prop': r.split('.')[0], 'patch': d + 'patch.diff', 'expect': r,
                     'note': 'sub-agent change breaking ' + meta.get('breaks_property', '?')})
props = [p for p in args.prop.split(',') if p]
if props:
    muts = [m for m in muts if m['prop'] in props]
if args.id:
    muts = [m for m in muts if m['id'] == args.id]
if not muts:
    print('SELFTEST: no mutants selected'); sys.exit(0)

tmp = tempfile.mkdtemp(prefix='gsmut-', dir=os.environ.get('TMPDIR', '/tmp'))
copy = os.path.join(tmp, 'repo')
ev = os.path.join(tmp, 'evidence')
try:
    subprocess.check_call(['rsync', '-a', '--exclude', '.git', '--exclude', 'testplans', args.repo + '/', copy + '/'])
    results = []
    for m in muts:
        if 'patch' in m:
            a = subprocess.run(['patch', '-p1', '-s', '--no-backup-if-mismatch', '-i', m['patch']], cwd=copy, capture_output=True, text=True)
            if a.returncode != 0:
                subprocess.run(['patch', '-R', '-p1', '-s', '-f', '--no-backup-if-mismatch', '-i', m['patch']], cwd=copy, capture_output=True)
                subprocess.check_call(['rsync', '-a', '--delete', '--exclude', '.git', '--exclude', 'testplans', args.repo + '/', copy + '/'])
                results.append((m, 'skipped', 'patch does not apply to the current tree'))
                continue
            path, orig = None, None
        else:
            path = os.path.join(copy, m['file'])
            orig = open(os.path.join(args.repo, m['file'])).read()
            if orig.count(m['old']) != 1:
                results.append((m, 'skipped', 'patch does not apply to the current tree (%d matches)' % orig.count(m['old'])))
                continue
            open(path, 'w').write(orig.replace(m['old'], m['new']))
        try:
            b = subprocess.run(['go', 'build', './...'], cwd=copy, env=env, capture_output=True, text=True)
            if b.returncode != 0:
                results.append((m, 'skipped', 'mutant does not compile: ' + b.stderr.strip().splitlines()[-1][:160]))
                continue
            t0 = time.time()
            r = subprocess.run(['/verif/bin/gscheck', 'check', '-prop', m['prop'], '-tier', 'quick', '-repo', copy, '-verif', '/verif', '-evidence', ev],
                               env=env, capture_output=True, text=True)
            out = r.stdout
            hits = [l.strip() for l in out.splitlines() if l.strip().startswith(('VIOLATES', 'UNDECIDED'))]
            if m.get('expect'):
                good = [h for h in hits if (' ' + m['expect'] + '|') in h or (' ' + m['expect'] + '.') in h]
                if good and r.returncode == 1:
                    results.append((m, 'detected', good[0][:220]))
                elif hits:
                    results.append((m, 'detected-other', hits[0][:220]))
                else:
                    results.append((m, 'MISSED', 'check exit %d, no violation reported' % r.returncode))
            else:
                if hits or r.returncode != 0:
                    results.append((m, 'FALSE-ALARM', (hits or [r.stderr.strip()[-200:]])[0][:220]))
                else:
                    results.append((m, 'silent', 'benign variant: no alarm'))
        finally:
            if path is None:
                subprocess.run(['patch', '-R', '-p1', '-s', '-f', '--no-backup-if-mismatch', '-i', m['patch']], cwd=copy, capture_output=True)
            else:
                open(path, 'w').write(orig)
    n_det = sum(1 for _, s, _ in results if s in ('detected', 'detected-other', 'silent'))
    n_bad = sum(1 for _, s, _ in results if s in ('MISSED', 'FALSE-ALARM'))
    for m, s, why in results:
        if args.v or s not in ('detected', 'silent'):
            print('  %-14s %-28s %s expect=%s :: %s' % (s, m['id'], m['prop'], m.get('expect') or '-', why))
    print('SELFTEST: %d/%d seeded variants handled as expected (%d missed/false-alarm, %d skipped)' % (
        n_det, len(results), n_bad, sum(1 for _, s, _ in results if s == 'skipped')))
    json.dump([{'id': m['id'], 'prop': m['prop'], 'expect': m.get('expect'), 'status': s, 'detail': why} for m, s, why in results],
              open('/verif/evidence/selftest.%s.json' % (args.prop.replace(',', '_') or 'all'), 'w'), indent=1)
    sys.exit(1 if (args.strict and n_bad) else 0)
finally:
    shutil.rmtree(tmp, ignore_errors=True)
