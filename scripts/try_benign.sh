#!/bin/bash
# usage: try_benign.sh <dir-with-k.diff>...   Applies each behaviour-preserving patch to /repo, runs every
# quick check, prints any report (a report here is a false alarm), restores /repo.
for d in "$@"; do
  for f in "$d"/*.diff; do
    out=$(/verif/scripts/try_seed.sh "$f" 2>&1)
    if [ -n "$out" ]; then echo "### $f"; echo "$out"; else echo "ok  $f"; fi
  done
done
