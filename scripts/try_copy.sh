#!/bin/bash
# usage: try_copy.sh <patch.diff> [props]   Like try_seed.sh but on a scratch rsync copy of /repo (removed afterwards),
# so it can run while /repo itself is in use.
set -u
PATCH=$(readlink -f "$1"); PROPS=${2:-all}
. /verif/env.sh
WT=$(mktemp -d /tmp/gs-copy.XXXXXX)
trap 'rm -rf $WT' EXIT
git -C /repo archive HEAD | tar -x -C $WT
(cd $WT && patch -p1 -s < "$PATCH") || { echo "try_copy: patch does not apply"; exit 2; }
(cd $WT && go build ./... ) || { echo "try_copy: does not compile"; exit 2; }
EV=$(mktemp -d /tmp/gs-seed-ev.XXXXXX)
/verif/bin/gscheck check -prop "$PROPS" -tier quick -repo $WT -verif /verif -evidence $EV 2>&1 | grep -E "^  (VIOLATES|UNDECIDED)|^== C[0-9]+: [0-9]+ unlisted|normalised" | cut -c1-400
rm -rf $EV
