#!/bin/bash
# usage: regress.sh [jobs]   Development regression: every behaviour-preserving patch under /verif/benign must leave
# all checks silent; every seeded change under /verif/seeded must be reported.  Each patch is applied to its own
# scratch copy of /repo's HEAD (removed afterwards), so /repo is not touched and runs go in parallel.
J=${1:-6}
cd /verif
one_benign() { out=$(/verif/scripts/try_copy.sh "$1" 2>&1 | grep -v "normalised"); if [ -n "$out" ]; then echo "FALSE-ALARM $1"; echo "$out" | cut -c1-260; else echo "silent $1"; fi; }
one_seed() { out=$(/verif/scripts/try_copy.sh "$1/patch.diff" 2>&1 | grep -cE "VIOLATES|UNDECIDED"); if [ "$out" = 0 ]; then echo "MISSED $1"; else echo "detected $1 ($out)"; fi; }
export -f one_benign one_seed
ls benign/*/*.diff | xargs -P $J -I{} bash -c 'one_benign {}'
ls -d seeded/*/ | xargs -P $J -I{} bash -c 'one_seed {}'
