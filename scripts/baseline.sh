#!/bin/bash
# Runs the repository's pinned baseline test suite (guard off; there are no hooks)
# and compares with /root/.vp/BASELINE.json's stable_pass list.
# usage: baseline.sh [repo-dir] [pkg-pattern...]
. /verif/env.sh
REPO=${1:-/repo}; shift
PKGS=${@:-./...}
OUT=$(mktemp /tmp/gs-baseline.XXXXXX.json)
rc=0
for m in . ./testplans/graphsync; do
  [ "$PKGS" != "./..." ] && [ "$m" != "." ] && continue
  (cd $REPO/$m && go test -mod=mod -json -vet=off -count=1 -timeout 25m $PKGS) >> $OUT 2>/dev/null || rc=$?
done
python3 - "$OUT" "$PKGS" <<'PY'
import json,sys
res={}
for l in open(sys.argv[1]):
    try: e=json.loads(l)
    except: continue
    if e.get('Test') and e.get('Action') in ('pass','fail','skip'):
        res[e['Package']+'::'+e['Test']]=e['Action']
base=json.load(open('/root/.vp/BASELINE.json'))['stable_pass']
full = sys.argv[2]=='./...'
missing=[t for t in base if res.get(t)!='pass' and (full or t in res)]
failed=[t for t,a in res.items() if a=='fail']
print(f"tests run: {len(res)}  passed: {sum(1 for a in res.values() if a=='pass')}  failed: {len(failed)}  baseline-not-passing: {len(missing)}")
for t in failed: print("  FAIL", t)
for t in missing:
    if t not in failed: print("  NOT-PASS", t, res.get(t))
sys.exit(1 if (failed or missing) else 0)
PY
r=$?
rm -f $OUT
exit $r
