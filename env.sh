# sourced by every script: offline Go environment able to type-check /repo (go 1.25.7)
TC=/root/go/pkg/mod/golang.org/toolchain@v0.0.1-go1.25.7.linux-amd64/bin
if [ -x "$TC/go" ]; then
  export PATH="$TC:$PATH"
elif [ -x /opt/veriftools/go1.26.8/bin/go ]; then
  export PATH="/opt/veriftools/go1.26.8/bin:$PATH"
fi
export GOTOOLCHAIN=local GOFLAGS=-mod=mod GOPROXY=off CGO_ENABLED=0
unset GOWORK GOSUMDB
