// Package engine holds the shared analysis services used by the per-property
// rule tables: loading /repo's working tree as a type-checked program, SSA
// construction, call-graph services, dominance/guard queries, value
// provenance, lock sets, and the reporting/evidence protocol.
package engine

import (
	"fmt"
	"go/ast"
	"go/token"
	"go/types"
	"os"
	"path/filepath"
	"sort"
	"strings"
	"time"

	"golang.org/x/tools/go/callgraph"
	"golang.org/x/tools/go/callgraph/cha"
	"golang.org/x/tools/go/callgraph/vta"
	"golang.org/x/tools/go/packages"
	"golang.org/x/tools/go/ssa"
	"golang.org/x/tools/go/ssa/ssautil"
)

// Module is the import path of the analysed module.
const Module = "github.com/ipfs/go-graphsync"

// DepSyntax lists dependency packages whose *source* some rules read (their
// syntax and SSA bodies are loaded in both tiers).
var DepSyntax = []string{
	"github.com/ipld/go-ipld-prime/traversal",
	"github.com/ipld/go-ipld-prime/traversal/selector",
	"github.com/ipld/go-ipld-prime/traversal/selector/builder",
	"github.com/ipfs/go-cid", // C11.R3: is cid.Undef the zero value?
}

// Program is the loaded, type-checked, SSA-built program.
type Program struct {
	Dir      string
	Fset     *token.FileSet
	Pkgs     []*packages.Package          // packages with syntax, sorted by path
	ByPath   map[string]*packages.Package // every package reachable (syntax only for some)
	Prog     *ssa.Program
	Whole    bool // whole-program load (thorough tier)
	LoadSecs float64

	cg      *callgraph.Graph
	cgAlgo  string
	allFns  map[*ssa.Function]bool
	srcFns  []*ssa.Function // all functions (incl. anonymous) with bodies in module packages
	srcOnce bool
}

// Load loads dir's ./... (non-test files) plus the DepSyntax packages.
// whole=true loads syntax for every transitive dependency as well.
func Load(dir string, whole bool) (*Program, error) {
	t0 := time.Now()
	// Without NeedDeps, dependencies are type-checked from export data and only
	// the matched packages carry syntax; with it, every dependency does.
	mode := packages.NeedName | packages.NeedFiles | packages.NeedCompiledGoFiles |
		packages.NeedImports | packages.NeedTypes |
		packages.NeedSyntax | packages.NeedTypesInfo | packages.NeedTypesSizes | packages.NeedModule
	if whole {
		mode |= packages.NeedDeps
	}
	cfg := &packages.Config{
		Mode:  mode,
		Dir:   dir,
		Tests: false,
		Env:   append(os.Environ(), "GOWORK=off"),
	}
	patterns := append([]string{"./..."}, DepSyntax...)
	initial, err := packages.Load(cfg, patterns...)
	if err != nil {
		return nil, fmt.Errorf("load: %w", err)
	}
	if len(initial) == 0 {
		return nil, fmt.Errorf("load: zero packages matched in %s", dir)
	}
	p := &Program{Dir: dir, ByPath: map[string]*packages.Package{}, Whole: whole}
	var errs []string
	nmod := 0
	packages.Visit(initial, nil, func(pk *packages.Package) {
		p.ByPath[pk.PkgPath] = pk
		inMod := pk.PkgPath == Module || strings.HasPrefix(pk.PkgPath, Module+"/")
		if inMod {
			nmod++
		}
		// type errors anywhere we need syntax are infrastructure errors
		if inMod || whole {
			for _, e := range pk.Errors {
				errs = append(errs, fmt.Sprintf("%s: %s", pk.PkgPath, e.Error()))
			}
		}
	})
	if len(errs) > 0 {
		sort.Strings(errs)
		if len(errs) > 12 {
			errs = append(errs[:12], fmt.Sprintf("... and %d more", len(errs)-12))
		}
		return nil, fmt.Errorf("tree does not type-check:\n  %s", strings.Join(errs, "\n  "))
	}
	if nmod < 20 {
		return nil, fmt.Errorf("load: only %d module packages found (expected >= 20)", nmod)
	}
	p.Fset = initial[0].Fset

	var prog *ssa.Program
	bmode := ssa.InstantiateGenerics
	if whole {
		prog, _ = ssautil.AllPackages(initial, bmode)
	} else {
		prog, _ = ssautil.Packages(initial, bmode)
	}
	prog.Build()
	p.Prog = prog

	for _, pk := range initial {
		if pk.Syntax != nil {
			p.Pkgs = append(p.Pkgs, pk)
		}
	}
	sort.Slice(p.Pkgs, func(i, j int) bool { return p.Pkgs[i].PkgPath < p.Pkgs[j].PkgPath })
	p.LoadSecs = time.Since(t0).Seconds()
	return p, nil
}

// InModule reports whether the package path belongs to the analysed module.
func InModule(path string) bool {
	return path == Module || strings.HasPrefix(path, Module+"/")
}

// IsShipped reports whether a module package is part of shipped behaviour
// (excludes test helpers, benchmarks and test plans).
func IsShipped(path string) bool {
	if !InModule(path) {
		return false
	}
	rel := strings.TrimPrefix(strings.TrimPrefix(path, Module), "/")
	for _, ex := range []string{"testutil", "benchmarks", "testplans", "tools", "message/bench", "scripts"} {
		if rel == ex || strings.HasPrefix(rel, ex+"/") {
			return false
		}
	}
	return true
}

// ModulePackages returns the loaded shipped module packages.
func (p *Program) ModulePackages() []*packages.Package {
	var out []*packages.Package
	for _, pk := range p.Pkgs {
		if IsShipped(pk.PkgPath) {
			out = append(out, pk)
		}
	}
	return out
}

// Pkg returns the SSA package for a module-relative path ("" = root) or a full path.
func (p *Program) Pkg(rel string) *ssa.Package {
	path := rel
	if !strings.Contains(rel, ".") {
		path = Module
		if rel != "" {
			path += "/" + rel
		}
	}
	pk := p.ByPath[path]
	if pk == nil || pk.Types == nil {
		return nil
	}
	return p.Prog.Package(pk.Types)
}

// TypesPkg returns the types.Package for a module-relative or full path.
func (p *Program) TypesPkg(rel string) *types.Package {
	sp := p.Pkg(rel)
	if sp == nil {
		return nil
	}
	return sp.Pkg
}

// Func finds a package-level function or method: Func("requestmanager", "RequestManager", "terminateRequest")
// (recv "" for plain functions).  Pointer/value receiver is resolved automatically.
func (p *Program) Func(rel, recv, name string) *ssa.Function {
	if f := p.funcExact(rel, recv, name); f != nil {
		return f
	}
	// renamed? the unique function of the same package/receiver that the baseline does not know and
	// that has exactly the old one's signature
	if !TheBaseline.loaded || strings.Contains(rel, ".") {
		return nil
	}
	want, ok := TheBaseline.funcs[rel+"|"+recv+"|"+name]
	if !ok {
		return nil
	}
	var cands []*ssa.Function
	for _, f := range p.SrcFuncs() {
		if f.Parent() != nil || f.Synthetic != "" || relOf(FuncPkgPath(f)) != rel {
			continue
		}
		r := ""
		if rv := f.Signature.Recv(); rv != nil {
			t := rv.Type()
			if pt, ok := t.(*types.Pointer); ok {
				t = pt.Elem()
			}
			if n, ok := t.(*types.Named); ok {
				r = n.Obj().Name()
			}
		}
		if r != recv {
			continue
		}
		if _, known := TheBaseline.funcs[rel+"|"+recv+"|"+f.Name()]; known {
			continue
		}
		if types.TypeString(f.Signature, qual) == want {
			cands = append(cands, f)
		}
	}
	if len(cands) == 1 {
		noteRename(fmt.Sprintf("function %s %s.%s is taken to be the renamed %s (same receiver, same signature, unknown to the baseline)", rel, recv, cands[0].Name(), name))
		return cands[0]
	}
	return nil
}

func (p *Program) funcExact(rel, recv, name string) *ssa.Function {
	sp := p.Pkg(rel)
	if sp == nil {
		return nil
	}
	if recv == "" {
		return sp.Func(name)
	}
	tn, _ := sp.Pkg.Scope().Lookup(recv).(*types.TypeName)
	if tn == nil {
		return nil
	}
	for _, t := range []types.Type{tn.Type(), types.NewPointer(tn.Type())} {
		ms := p.Prog.MethodSets.MethodSet(t)
		for i := 0; i < ms.Len(); i++ {
			sel := ms.At(i)
			if sel.Obj().Name() == name && sel.Obj().Pkg() == sp.Pkg {
				if f := p.Prog.MethodValue(sel); f != nil {
					// skip promoted wrappers: want the declared method
					if f.Synthetic == "" {
						return f
					}
				}
			}
		}
	}
	return nil
}

// NamedType looks up a named type in a package.
func (p *Program) NamedType(rel, name string) *types.Named {
	tp := p.TypesPkg(rel)
	if tp == nil {
		return nil
	}
	tn, _ := tp.Scope().Lookup(name).(*types.TypeName)
	if tn == nil {
		return nil
	}
	n, _ := tn.Type().(*types.Named)
	return n
}

// Field looks up a struct field object.
func (p *Program) Field(rel, typ, field string) *types.Var {
	n := p.NamedType(rel, typ)
	if n == nil {
		return nil
	}
	st, _ := n.Underlying().(*types.Struct)
	if st == nil {
		return nil
	}
	for i := 0; i < st.NumFields(); i++ {
		if st.Field(i).Name() == field {
			return st.Field(i)
		}
	}
	return p.renamedField(rel, typ, field, st)
}

// SrcFuncs returns every function with a body (including anonymous functions)
// declared in shipped module packages, in deterministic order.
func (p *Program) SrcFuncs() []*ssa.Function {
	if p.srcOnce {
		return p.srcFns
	}
	p.srcOnce = true
	seen := map[*ssa.Function]bool{}
	var add func(f *ssa.Function)
	add = func(f *ssa.Function) {
		if f == nil || seen[f] || f.Blocks == nil {
			return
		}
		seen[f] = true
		p.srcFns = append(p.srcFns, f)
		for _, a := range f.AnonFuncs {
			add(a)
		}
	}
	for _, pk := range p.ModulePackages() {
		sp := p.Prog.Package(pk.Types)
		if sp == nil {
			continue
		}
		var names []string
		for n := range sp.Members {
			names = append(names, n)
		}
		sort.Strings(names)
		for _, n := range names {
			switch m := sp.Members[n].(type) {
			case *ssa.Function:
				add(m)
			case *ssa.Type:
				for _, t := range []types.Type{m.Type(), types.NewPointer(m.Type())} {
					ms := p.Prog.MethodSets.MethodSet(t)
					for i := 0; i < ms.Len(); i++ {
						f := p.Prog.MethodValue(ms.At(i))
						if f != nil && f.Synthetic == "" && f.Pkg == sp {
							add(f)
						}
					}
				}
			}
		}
	}
	return p.srcFns
}

// FuncsIn returns SrcFuncs restricted to packages with the given module-relative prefix.
func (p *Program) FuncsIn(relPrefixes ...string) []*ssa.Function {
	var out []*ssa.Function
	for _, f := range p.SrcFuncs() {
		pk := FuncPkgPath(f)
		rel := strings.TrimPrefix(strings.TrimPrefix(pk, Module), "/")
		for _, pre := range relPrefixes {
			if rel == pre || strings.HasPrefix(rel, pre+"/") {
				out = append(out, f)
				break
			}
		}
	}
	return out
}

// FuncPkgPath returns the package path owning f (following anonymous-function parents).
func FuncPkgPath(f *ssa.Function) string {
	for f != nil {
		if f.Pkg != nil {
			return f.Pkg.Pkg.Path()
		}
		if f.Parent() == nil {
			if o := f.Object(); o != nil && o.Pkg() != nil {
				return o.Pkg().Path()
			}
			return ""
		}
		f = f.Parent()
	}
	return ""
}

// FuncName gives a short stable name: pkgrel.(*T).m, pkgrel.f, with $n for closures.
func FuncName(f *ssa.Function) string {
	if f == nil {
		return "<nil>"
	}
	s := f.String()
	s = strings.ReplaceAll(s, Module+"/", "")
	s = strings.ReplaceAll(s, Module+".", "graphsync.")
	return s
}

// Pos renders a position relative to the analysed directory.
func (p *Program) Pos(pos token.Pos) string {
	if !pos.IsValid() {
		return "-"
	}
	ps := p.Fset.Position(pos)
	fn := ps.Filename
	if r, err := filepath.Rel(p.Dir, fn); err == nil && !strings.HasPrefix(r, "..") {
		fn = r
	} else if i := strings.Index(fn, "/pkg/mod/"); i >= 0 {
		fn = fn[i+len("/pkg/mod/"):]
	}
	return fmt.Sprintf("%s:%d", fn, ps.Line)
}

// CallGraph builds (once) the most precise call graph available: VTA over CHA
// for whole-program loads, CHA otherwise.
func (p *Program) CallGraph() (*callgraph.Graph, string) {
	if p.cg != nil {
		return p.cg, p.cgAlgo
	}
	chaG := cha.CallGraph(p.Prog)
	if p.Whole {
		p.allFns = ssautil.AllFunctions(p.Prog)
		p.cg = vta.CallGraph(p.allFns, chaG)
		p.cgAlgo = "vta(cha)"
	} else {
		p.cg = chaG
		p.cgAlgo = "cha(module+deps-by-export-data)"
	}
	return p.cg, p.cgAlgo
}

// FileOf returns the *ast.File containing pos among syntax-loaded packages.
func (p *Program) FileOf(pos token.Pos) (*packages.Package, *ast.File) {
	for _, pk := range p.Pkgs {
		for _, f := range pk.Syntax {
			if f.FileStart <= pos && pos <= f.FileEnd {
				return pk, f
			}
		}
	}
	return nil, nil
}
