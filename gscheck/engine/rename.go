package engine

import (
	"bufio"
	"fmt"
	"go/types"
	"os"
	"sort"
	"strings"
)

// Renamed anchors.
//
// The rule tables name the functions, methods and struct fields they are
// anchored on.  /verif/baseline/anchors.txt lists those of the pinned tree
// with their types.  When a named anchor is not found, and the baseline says
// it used to exist, the lookup accepts the *unique* member of the same
// package / receiver / struct that (a) the baseline does not know and (b) has
// exactly the type the old one had: a rename.  Anything else stays
// "anchor missing".

type Baseline struct {
	funcs  map[string]string // rel|recv|name -> signature
	fields map[string]string // rel|type|field -> type
	loaded bool
}

var TheBaseline Baseline
var RenameNotes []string

func qual(p *types.Package) string { return p.Path() }

// LoadBaseline reads anchors.txt ("F|rel|recv|name|sig" and "V|rel|type|field|fieldtype" lines).
func LoadBaseline(file string) error {
	f, err := os.Open(file)
	if err != nil {
		return err
	}
	defer f.Close()
	b := Baseline{funcs: map[string]string{}, fields: map[string]string{}, loaded: true}
	sc := bufio.NewScanner(f)
	sc.Buffer(make([]byte, 1<<20), 1<<20)
	for sc.Scan() {
		parts := strings.SplitN(sc.Text(), "|", 5)
		if len(parts) != 5 {
			continue
		}
		switch parts[0] {
		case "F":
			b.funcs[parts[1]+"|"+parts[2]+"|"+parts[3]] = parts[4]
		case "V":
			b.fields[parts[1]+"|"+parts[2]+"|"+parts[3]] = parts[4]
		}
	}
	TheBaseline = b
	return sc.Err()
}

func relOf(path string) string {
	return strings.TrimPrefix(strings.TrimPrefix(path, Module), "/")
}

// AnchorLines renders the baseline of the loaded program.
func (p *Program) AnchorLines() []string {
	var out []string
	for _, f := range p.SrcFuncs() {
		if f.Parent() != nil || f.Synthetic != "" {
			continue
		}
		recv := ""
		if r := f.Signature.Recv(); r != nil {
			t := r.Type()
			if pt, ok := t.(*types.Pointer); ok {
				t = pt.Elem()
			}
			if n, ok := t.(*types.Named); ok {
				recv = n.Obj().Name()
			}
		}
		out = append(out, fmt.Sprintf("F|%s|%s|%s|%s", relOf(FuncPkgPath(f)), recv, f.Name(), types.TypeString(f.Signature, qual)))
	}
	for _, pk := range p.ModulePackages() {
		sc := pk.Types.Scope()
		for _, n := range sc.Names() {
			tn, ok := sc.Lookup(n).(*types.TypeName)
			if !ok {
				continue
			}
			st, ok := tn.Type().Underlying().(*types.Struct)
			if !ok {
				continue
			}
			for i := 0; i < st.NumFields(); i++ {
				out = append(out, fmt.Sprintf("V|%s|%s|%s|%s", relOf(pk.PkgPath), n, st.Field(i).Name(), types.TypeString(st.Field(i).Type(), qual)))
			}
		}
	}
	sort.Strings(out)
	return out
}

func noteRename(s string) {
	for _, x := range RenameNotes {
		if x == s {
			return
		}
	}
	RenameNotes = append(RenameNotes, s)
}

// renamedField: field `field` of rel.typ is gone; find its unique renamed successor.
func (p *Program) renamedField(rel, typ, field string, st *types.Struct) *types.Var {
	if !TheBaseline.loaded {
		return nil
	}
	want, ok := TheBaseline.fields[rel+"|"+typ+"|"+field]
	if !ok {
		return nil
	}
	var cands []*types.Var
	for i := 0; i < st.NumFields(); i++ {
		f := st.Field(i)
		if _, known := TheBaseline.fields[rel+"|"+typ+"|"+f.Name()]; known {
			continue
		}
		if types.TypeString(f.Type(), qual) == want {
			cands = append(cands, f)
		}
	}
	if len(cands) == 1 {
		noteRename(fmt.Sprintf("field %s.%s.%s is taken to be the renamed %s (same struct, same type, unknown to the baseline)", rel, typ, cands[0].Name(), field))
		return cands[0]
	}
	if len(cands) > 1 {
		// several fields of that type were renamed at once: pair old and new names by edit distance and accept
		// the pairing only when it is mutual and unambiguous
		have := map[string]bool{}
		for i := 0; i < st.NumFields(); i++ {
			have[st.Field(i).Name()] = true
		}
		var missing []string
		pre := rel + "|" + typ + "|"
		for k, t := range TheBaseline.fields {
			if strings.HasPrefix(k, pre) && t == want && !have[strings.TrimPrefix(k, pre)] {
				missing = append(missing, strings.TrimPrefix(k, pre))
			}
		}
		if len(missing) != len(cands) {
			return nil
		}
		best := func(from string, to []string) (string, bool) {
			bi, bd, tie := -1, 1<<30, false
			for i, t := range to {
				d := editDistance(from, t)
				if d < bd {
					bi, bd, tie = i, d, false
				} else if d == bd {
					tie = true
				}
			}
			if bi < 0 || tie {
				return "", false
			}
			return to[bi], true
		}
		var cn []string
		for _, cd := range cands {
			cn = append(cn, cd.Name())
		}
		to, ok := best(field, cn)
		if !ok {
			return nil
		}
		back, ok := best(to, missing)
		if !ok || back != field {
			return nil
		}
		for _, cd := range cands {
			if cd.Name() == to {
				noteRename(fmt.Sprintf("field %s.%s.%s is taken to be the renamed %s (same struct, same type, closest of %d renamed names, mutually)", rel, typ, to, field, len(cands)))
				return cd
			}
		}
	}
	return nil
}

func editDistance(a, b string) int {
	prev := make([]int, len(b)+1)
	for j := range prev {
		prev[j] = j
	}
	for i := 1; i <= len(a); i++ {
		cur := make([]int, len(b)+1)
		cur[0] = i
		for j := 1; j <= len(b); j++ {
			c := 1
			if a[i-1] == b[j-1] {
				c = 0
			}
			cur[j] = min(prev[j]+1, cur[j-1]+1, prev[j-1]+c)
		}
		prev = cur
	}
	return prev[len(b)]
}
