package engine

import (
	"go/constant"
	"go/token"
	"go/types"
	"strings"

	"golang.org/x/tools/go/ssa"
)

// ---------------------------------------------------------------------------
// instruction iteration

// Instrs calls fn for every instruction of f (not descending into closures).
func Instrs(f *ssa.Function, fn func(ssa.Instruction)) {
	for _, b := range f.Blocks {
		for _, in := range b.Instrs {
			fn(in)
		}
	}
}

// WithClosures returns f and every function literal nested in it.
func WithClosures(f *ssa.Function) []*ssa.Function {
	out := []*ssa.Function{f}
	for _, a := range f.AnonFuncs {
		out = append(out, WithClosures(a)...)
	}
	return out
}

// CallInfo is a resolved description of a call's callee.
type CallInfo struct {
	Instr  ssa.CallInstruction
	Common *ssa.CallCommon
	Static *ssa.Function // non-nil for static calls (incl. closures bound at the site)
	Method *types.Func   // non-nil for interface invokes
}

// Name returns "pkgpath.Recv.Name" / "pkgpath.Name" for static and interface callees.
func (ci CallInfo) Name() string {
	if ci.Static != nil {
		if o := ci.Static.Object(); o != nil {
			return ObjName(o)
		}
		return FuncName(ci.Static)
	}
	if ci.Method != nil {
		return ObjName(ci.Method)
	}
	return ""
}

// ObjName renders a function/method object as pkgpath.Recv.Name.
func ObjName(o types.Object) string {
	fn, ok := o.(*types.Func)
	if !ok {
		if o.Pkg() != nil {
			return o.Pkg().Path() + "." + o.Name()
		}
		return o.Name()
	}
	pkg := ""
	if fn.Pkg() != nil {
		pkg = fn.Pkg().Path()
	}
	sig := fn.Type().(*types.Signature)
	if r := sig.Recv(); r != nil {
		t := r.Type()
		if p, ok := t.(*types.Pointer); ok {
			t = p.Elem()
		}
		if n, ok := t.(*types.Named); ok {
			return pkg + "." + n.Obj().Name() + "." + fn.Name()
		}
		// interface method declared on an unnamed interface
		return pkg + ".?." + fn.Name()
	}
	return pkg + "." + fn.Name()
}

// Calls lists every call/go/defer instruction of f with its resolved callee.
func Calls(f *ssa.Function) []CallInfo {
	var out []CallInfo
	Instrs(f, func(in ssa.Instruction) {
		ci, ok := in.(ssa.CallInstruction)
		if !ok {
			return
		}
		out = append(out, Resolve(ci))
	})
	return out
}

// Resolve resolves a call instruction's callee.
func Resolve(ci ssa.CallInstruction) CallInfo {
	c := ci.Common()
	info := CallInfo{Instr: ci, Common: c}
	if c.IsInvoke() {
		info.Method = c.Method
		return info
	}
	if sc := c.StaticCallee(); sc != nil {
		info.Static = sc
		// bound-method closures / generic instances: report origin
		if sc.Origin() != nil {
			info.Static = sc.Origin()
		}
		return info
	}
	return info
}

// IsCallTo reports whether ci calls the function/method with the given full
// name "pkgpath.Recv.Name" or "pkgpath.Name" (pkgpath may be module-relative
// when prefixed with "~/" ).
func (ci CallInfo) Is(names ...string) bool {
	n := ci.Name()
	if n == "" {
		return false
	}
	for _, want := range names {
		if Full(want) == n {
			return true
		}
	}
	return false
}

// Full expands a "~/rel.Name" shorthand to the module path.
func Full(name string) string {
	if strings.HasPrefix(name, "~/") {
		return Module + "/" + name[2:]
	}
	if strings.HasPrefix(name, "~.") {
		return Module + name[1:]
	}
	return name
}

// CallsTo returns the calls in f (optionally including closures) whose callee matches one of names.
func CallsTo(f *ssa.Function, closures bool, names ...string) []CallInfo {
	var out []CallInfo
	fs := []*ssa.Function{f}
	if closures {
		fs = WithClosures(f)
	}
	for _, g := range fs {
		for _, ci := range Calls(g) {
			if ci.Is(names...) {
				out = append(out, ci)
			}
		}
	}
	return out
}

// Arg returns the i-th *declared* argument of a call (receiver excluded), or nil.
func (ci CallInfo) Arg(i int) ssa.Value {
	args := ci.Common.Args
	if !ci.Common.IsInvoke() && ci.Static != nil && ci.Static.Signature.Recv() != nil {
		if len(args) == 0 {
			return nil
		}
		args = args[1:]
	}
	if i < 0 || i >= len(args) {
		return nil
	}
	return args[i]
}

// Recv returns the receiver value of a method call (static or invoke), or nil.
func (ci CallInfo) Recv() ssa.Value {
	if ci.Common.IsInvoke() {
		return ci.Common.Value
	}
	if ci.Static != nil && ci.Static.Signature.Recv() != nil && len(ci.Common.Args) > 0 {
		return ci.Common.Args[0]
	}
	return nil
}

// Value returns the call's result value (nil for go/defer).
func (ci CallInfo) Value() *ssa.Call {
	c, _ := ci.Instr.(*ssa.Call)
	return c
}

// ---------------------------------------------------------------------------
// value helpers

// Strip removes representation-only wrappers.
func Strip(v ssa.Value) ssa.Value {
	for {
		switch x := v.(type) {
		case *ssa.ChangeType:
			v = x.X
		case *ssa.Convert:
			// only identity-ish conversions between named/unnamed of same underlying
			if types.Identical(x.X.Type().Underlying(), x.Type().Underlying()) {
				v = x.X
			} else {
				return v
			}
		case *ssa.MakeInterface:
			v = x.X
		case *ssa.ChangeInterface:
			v = x.X
		default:
			return v
		}
	}
}

// IsNilConst reports whether v is the nil constant.
func IsNilConst(v ssa.Value) bool {
	c, ok := v.(*ssa.Const)
	if !ok || c.Value != nil {
		return false
	}
	switch t := c.Type().Underlying().(type) {
	case *types.Pointer, *types.Interface, *types.Map, *types.Slice, *types.Chan, *types.Signature:
		return true
	case *types.Basic:
		return !isBasicNonNil(t)
	}
	return false // zero value of a struct/array is not nil
}

func isBasicNonNil(t types.Type) bool {
	b, ok := t.Underlying().(*types.Basic)
	if !ok {
		return false
	}
	return b.Kind() != types.UntypedNil && b.Kind() != types.UnsafePointer
}

// ConstInt returns the integer value of a constant.
func ConstInt(v ssa.Value) (int64, bool) {
	c, ok := Strip(v).(*ssa.Const)
	if !ok || c.Value == nil {
		if cv, ok2 := v.(*ssa.Convert); ok2 {
			return ConstInt(cv.X)
		}
		return 0, false
	}
	if c.Value.Kind() != constant.Int {
		return 0, false
	}
	n, exact := constant.Int64Val(c.Value)
	return n, exact
}

// ConstString returns the string value of a constant.
func ConstString(v ssa.Value) (string, bool) {
	c, ok := Strip(v).(*ssa.Const)
	if !ok || c.Value == nil || c.Value.Kind() != constant.String {
		if cv, ok2 := v.(*ssa.Convert); ok2 {
			return ConstString(cv.X)
		}
		return "", false
	}
	return constant.StringVal(c.Value), true
}

// ConstBool returns the bool value of a constant.
func ConstBool(v ssa.Value) (bool, bool) {
	c, ok := Strip(v).(*ssa.Const)
	if !ok || c.Value == nil || c.Value.Kind() != constant.Bool {
		return false, false
	}
	return constant.BoolVal(c.Value), true
}

// FieldOf returns the struct field object addressed by a FieldAddr/Field instruction.
func FieldOf(v ssa.Value) *types.Var {
	switch x := v.(type) {
	case *ssa.FieldAddr:
		t := x.X.Type().Underlying()
		if p, ok := t.(*types.Pointer); ok {
			t = p.Elem().Underlying()
		}
		if st, ok := t.(*types.Struct); ok {
			return st.Field(x.Field)
		}
	case *ssa.Field:
		if st, ok := x.X.Type().Underlying().(*types.Struct); ok {
			return st.Field(x.Field)
		}
	}
	return nil
}

// LoadedField: if v is a load (*addr) of a field address, or a Field extraction,
// returns the field and the base struct value.
func LoadedField(v ssa.Value) (*types.Var, ssa.Value) {
	v = Strip(v)
	switch x := v.(type) {
	case *ssa.UnOp:
		if x.Op == token.MUL {
			if fa, ok := x.X.(*ssa.FieldAddr); ok {
				return FieldOf(fa), fa.X
			}
		}
	case *ssa.Field:
		return FieldOf(x), x.X
	}
	return nil, nil
}

// Path renders an access path for a value, for "same place" comparison:
// parameters and free variables by name, loads/field/index by structure.
// Values it cannot describe structurally are rendered by SSA name (unique per function).
func Path(v ssa.Value) string {
	v = Strip(v)
	switch x := v.(type) {
	case *ssa.Parameter:
		return "param:" + x.Name()
	case *ssa.FreeVar:
		return "free:" + x.Name()
	case *ssa.Global:
		return "global:" + x.Name()
	case *ssa.Const:
		if x.Value == nil {
			return "nil"
		}
		return "const:" + x.Value.ExactString()
	case *ssa.UnOp:
		if x.Op == token.MUL {
			return "*(" + Path(x.X) + ")"
		}
	case *ssa.FieldAddr:
		if f := FieldOf(x); f != nil {
			return Path(x.X) + ".&" + f.Name()
		}
	case *ssa.Field:
		if f := FieldOf(x); f != nil {
			return Path(x.X) + "." + f.Name()
		}
	case *ssa.IndexAddr:
		return Path(x.X) + "[&" + Path(x.Index) + "]"
	case *ssa.Index:
		return Path(x.X) + "[" + Path(x.Index) + "]"
	case *ssa.Lookup:
		return Path(x.X) + "[" + Path(x.Index) + "]"
	case *ssa.Extract:
		return Path(x.Tuple) + "#" + string(rune('0'+x.Index))
	case *ssa.TypeAssert:
		return Path(x.X)
	case *ssa.Alloc:
		// a local variable spilled to memory: name it by its source comment when unique
		return "alloc:" + x.Name()
	}
	return v.Name()
}

// SameValue reports whether a and b denote the same run-time value by
// construction: the same SSA value, or loads through the same access path.
// (Loads are compared structurally; callers use this only where no store to
// the path can intervene — range elements, parameters' fields in straight-line code.)
func SameValue(a, b ssa.Value) bool {
	a, b = Strip(a), Strip(b)
	if a == b {
		return true
	}
	pa, pb := Path(a), Path(b)
	if pa == pb && !strings.HasPrefix(pa, "t") {
		return true
	}
	return pa == pb && isPureLoadPath(a) && isPureLoadPath(b)
}

func isPureLoadPath(v ssa.Value) bool {
	switch x := Strip(v).(type) {
	case *ssa.Parameter, *ssa.FreeVar, *ssa.Global, *ssa.Const:
		return true
	case *ssa.UnOp:
		return x.Op == token.MUL && isPureLoadPath(x.X)
	case *ssa.FieldAddr:
		return isPureLoadPath(x.X)
	case *ssa.Field:
		return isPureLoadPath(x.X)
	case *ssa.IndexAddr:
		return isPureLoadPath(x.X) && isPureLoadPath(x.Index)
	case *ssa.Alloc:
		return true
	}
	return false
}

// LocalValue: if v is a load of a local Alloc that has exactly one Store in the
// function, returns the stored value (reading through spilled locals);
// otherwise returns v.
func LocalValue(v ssa.Value) ssa.Value {
	for i := 0; i < 8; i++ {
		s := Strip(v)
		u, ok := s.(*ssa.UnOp)
		if !ok || u.Op != token.MUL {
			return s
		}
		al, ok := u.X.(*ssa.Alloc)
		if !ok {
			return s
		}
		var stores []*ssa.Store
		for _, r := range *al.Referrers() {
			if st, ok := r.(*ssa.Store); ok && st.Addr == al {
				stores = append(stores, st)
			}
		}
		if len(stores) != 1 {
			return s
		}
		v = stores[0].Val
	}
	return Strip(v)
}

// StoresTo returns every Store in fs whose address is a FieldAddr of the given field.
func StoresTo(fs []*ssa.Function, field *types.Var) []*ssa.Store {
	var out []*ssa.Store
	for _, f := range fs {
		Instrs(f, func(in ssa.Instruction) {
			if st, ok := in.(*ssa.Store); ok {
				if fa, ok := st.Addr.(*ssa.FieldAddr); ok && FieldOf(fa) == field {
					out = append(out, st)
				}
			}
		})
	}
	return out
}

// CompositeFieldInit: struct literals are lowered to Alloc + FieldAddr stores,
// so StoresTo already covers them.

// MapUpdates returns MapUpdate instructions in fs whose map operand is a load of the given field.
func MapUpdatesOfField(fs []*ssa.Function, field *types.Var) []*ssa.MapUpdate {
	var out []*ssa.MapUpdate
	for _, f := range fs {
		Instrs(f, func(in ssa.Instruction) {
			if mu, ok := in.(*ssa.MapUpdate); ok {
				if fl, _ := LoadedField(mu.Map); fl == field {
					out = append(out, mu)
				}
			}
		})
	}
	return out
}

// MapDeletesOfField returns calls of builtin delete whose map operand is a load of the field.
func MapDeletesOfField(fs []*ssa.Function, field *types.Var) []*ssa.Call {
	var out []*ssa.Call
	for _, f := range fs {
		Instrs(f, func(in ssa.Instruction) {
			c, ok := in.(*ssa.Call)
			if !ok {
				return
			}
			if b, ok := c.Call.Value.(*ssa.Builtin); ok && b.Name() == "delete" && len(c.Call.Args) == 2 {
				if fl, _ := LoadedField(c.Call.Args[0]); fl == field {
					out = append(out, c)
				}
			}
		})
	}
	return out
}

// BuiltinCalls returns calls of the named builtin in f.
func BuiltinCalls(f *ssa.Function, name string) []*ssa.Call {
	var out []*ssa.Call
	Instrs(f, func(in ssa.Instruction) {
		if c, ok := in.(*ssa.Call); ok {
			if b, ok := c.Call.Value.(*ssa.Builtin); ok && b.Name() == name {
				out = append(out, c)
			}
		}
	})
	return out
}

// EnclosingFunc name helper for keys.
func InstrFunc(in ssa.Instruction) *ssa.Function { return in.Parent() }

// TypeName renders a type compactly relative to the module.
func TypeName(t types.Type) string {
	s := types.TypeString(t, func(p *types.Package) string { return p.Path() })
	return strings.ReplaceAll(s, Module+"/", "")
}

// IsNamed reports whether t (or *t) is the named type pkgpath.name.
func IsNamed(t types.Type, pkgpath, name string) bool {
	if p, ok := t.(*types.Pointer); ok {
		t = p.Elem()
	}
	n, ok := t.(*types.Named)
	if !ok {
		// alias
		if a, ok2 := t.(*types.Alias); ok2 {
			return IsNamed(types.Unalias(a), pkgpath, name)
		}
		return false
	}
	o := n.Obj()
	return o.Name() == name && o.Pkg() != nil && o.Pkg().Path() == Full(pkgpath)
}

// CanonPath is Path with whole-value copies of locals looked through: a local that is assigned exactly once, from
// another local (or a value) read in one piece, names the same value as its source.  For read-only comparisons
// ("is this the item whose link was compared?"), not for places that are written.
func CanonPath(v ssa.Value) string {
	v = Strip(v)
	switch x := v.(type) {
	case *ssa.Alloc:
		cur := x
		for i := 0; i < 6; i++ {
			var stores []*ssa.Store
			for _, r := range *cur.Referrers() {
				if st, ok := r.(*ssa.Store); ok && st.Addr == ssa.Value(cur) {
					stores = append(stores, st)
				}
			}
			if len(stores) != 1 {
				break
			}
			src := Strip(stores[0].Val)
			if u, ok := src.(*ssa.UnOp); ok && u.Op == token.MUL {
				if al, ok := u.X.(*ssa.Alloc); ok {
					cur = al
					continue
				}
				return "*(" + CanonPath(u.X) + ")"
			}
			return CanonPath(src)
		}
		return "alloc:" + cur.Name()
	case *ssa.UnOp:
		if x.Op == token.MUL {
			if al, ok := x.X.(*ssa.Alloc); ok {
				// load of a (possibly copied) local
				p := CanonPath(al)
				if strings.HasPrefix(p, "alloc:") {
					return "*(" + p + ")"
				}
				return p
			}
			return "*(" + CanonPath(x.X) + ")"
		}
	case *ssa.FieldAddr:
		if f := FieldOf(x); f != nil {
			return CanonPath(x.X) + ".&" + f.Name()
		}
	case *ssa.Field:
		if f := FieldOf(x); f != nil {
			return CanonPath(x.X) + "." + f.Name()
		}
	}
	return Path(v)
}
