package engine

import (
	"go/types"
	"sort"
	"strings"

	"golang.org/x/tools/go/ssa"
)

// Lock sets (engine E4): intraprocedural must-analysis of which mutex fields are
// held at each instruction.  Locks are identified by the mutex *field*
// (types.Var) they live in; Lock/RLock add, Unlock/RUnlock remove, deferred
// unlocks are ignored (held until return).

type LockSets struct {
	in map[*ssa.BasicBlock]map[*types.Var]bool
	fn *ssa.Function
}

func lockOp(ci ssa.CallInstruction) (field *types.Var, acquire bool, ok bool) {
	c := ci.Common()
	if c.IsInvoke() {
		// sync.Locker interface (e.g. sync.Cond.L): identify by receiver path
		name := c.Method.Name()
		if name != "Lock" && name != "Unlock" {
			return nil, false, false
		}
		if f, _ := LoadedField(c.Value); f != nil {
			return f, name == "Lock", true
		}
		return nil, false, false
	}
	sc := c.StaticCallee()
	if sc == nil || sc.Pkg == nil || sc.Pkg.Pkg.Path() != "sync" || len(c.Args) == 0 {
		return nil, false, false
	}
	switch sc.Name() {
	case "Lock", "RLock":
		acquire = true
	case "Unlock", "RUnlock":
		acquire = false
	default:
		return nil, false, false
	}
	if fa, isFA := c.Args[0].(*ssa.FieldAddr); isFA {
		return FieldOf(fa), acquire, true
	}
	return nil, false, false
}

// ComputeLockSets runs the analysis for f.
func ComputeLockSets(f *ssa.Function) *LockSets {
	ls := &LockSets{in: map[*ssa.BasicBlock]map[*types.Var]bool{}, fn: f}
	if len(f.Blocks) == 0 {
		return ls
	}
	// universe
	uni := map[*types.Var]bool{}
	for _, b := range f.Blocks {
		for _, in := range b.Instrs {
			if ci, ok := in.(ssa.CallInstruction); ok {
				if _, isDefer := in.(*ssa.Defer); isDefer {
					continue
				}
				if fld, _, ok := lockOp(ci); ok {
					uni[fld] = true
				}
			}
		}
	}
	for i, b := range f.Blocks {
		m := map[*types.Var]bool{}
		if i != 0 {
			for k := range uni {
				m[k] = true
			}
		}
		ls.in[b] = m
	}
	for iter := 0; iter < 100; iter++ {
		changed := false
		for i, b := range f.Blocks {
			if i == 0 {
				continue
			}
			var acc map[*types.Var]bool
			for _, p := range b.Preds {
				out := ls.outOf(p)
				if acc == nil {
					acc = out
				} else {
					for k := range acc {
						if !out[k] {
							delete(acc, k)
						}
					}
				}
			}
			if acc == nil {
				acc = map[*types.Var]bool{}
			}
			if len(acc) != len(ls.in[b]) {
				ls.in[b] = acc
				changed = true
			}
		}
		if !changed {
			break
		}
	}
	return ls
}

func (ls *LockSets) outOf(b *ssa.BasicBlock) map[*types.Var]bool {
	cur := map[*types.Var]bool{}
	for k := range ls.in[b] {
		cur[k] = true
	}
	for _, in := range b.Instrs {
		applyLockOp(cur, in)
	}
	return cur
}

func applyLockOp(cur map[*types.Var]bool, in ssa.Instruction) {
	ci, ok := in.(ssa.CallInstruction)
	if !ok {
		return
	}
	if _, isDefer := in.(*ssa.Defer); isDefer {
		return
	}
	if fld, acq, ok := lockOp(ci); ok {
		if acq {
			cur[fld] = true
		} else {
			delete(cur, fld)
		}
	}
}

// HeldAt returns the set of mutex fields held just before instruction at.
func (ls *LockSets) HeldAt(at ssa.Instruction) map[*types.Var]bool {
	b := at.Block()
	cur := map[*types.Var]bool{}
	for k := range ls.in[b] {
		cur[k] = true
	}
	for _, in := range b.Instrs {
		if in == at {
			break
		}
		applyLockOp(cur, in)
	}
	return cur
}

// LockChecker checks "field F is only accessed with lock L held", with
// requires-lock summaries for helpers all of whose in-module callers hold L.
type LockChecker struct {
	P     *Program
	sets  map[*ssa.Function]*LockSets
	calls map[*ssa.Function][]ssa.CallInstruction // static in-module call sites per callee
}

func NewLockChecker(p *Program) *LockChecker {
	lc := &LockChecker{P: p, sets: map[*ssa.Function]*LockSets{}, calls: map[*ssa.Function][]ssa.CallInstruction{}}
	for _, f := range p.SrcFuncs() {
		Instrs(f, func(in ssa.Instruction) {
			if ci, ok := in.(ssa.CallInstruction); ok {
				if sc := ci.Common().StaticCallee(); sc != nil && sc.Blocks != nil {
					lc.calls[sc] = append(lc.calls[sc], ci)
				}
			}
		})
	}
	return lc
}

func (lc *LockChecker) Sets(f *ssa.Function) *LockSets {
	if s, ok := lc.sets[f]; ok {
		return s
	}
	s := ComputeLockSets(f)
	lc.sets[f] = s
	return s
}

// HeldAtOrByCallers reports whether lock is held at instruction `at`, either
// locally or because every in-module static call site of the enclosing function
// (recursively, bounded) holds it.  A function literal inherits the lock set
// of the point where it is created only if it is invoked synchronously — not
// assumed here: closures must lock themselves.
func (lc *LockChecker) HeldAtOrByCallers(at ssa.Instruction, lock *types.Var, depth int) (bool, string) {
	f := at.Parent()
	if lc.Sets(f).HeldAt(at)[lock] {
		return true, "held locally"
	}
	if depth <= 0 {
		return false, "not held in " + FuncName(f)
	}
	sites := lc.calls[f]
	if len(sites) == 0 {
		return false, "not held in " + FuncName(f) + " (no in-module static callers to inherit it from)"
	}
	var callers []string
	for _, s := range sites {
		ok, why := lc.HeldAtOrByCallers(s, lock, depth-1)
		if !ok {
			return false, "not held in " + FuncName(f) + "; caller " + FuncName(s.Parent()) + ": " + why
		}
		callers = append(callers, FuncName(s.Parent()))
	}
	sort.Strings(callers)
	return true, "held by every caller (" + strings.Join(dedupe(callers), ", ") + ")"
}

func dedupe(in []string) []string {
	var out []string
	for i, s := range in {
		if i == 0 || s != in[i-1] {
			out = append(out, s)
		}
	}
	return out
}

// FieldAccesses lists the FieldAddr instructions addressing field in fs, skipping
// accesses whose base object is allocated in the same function (constructors).
func FieldAccesses(fs []*ssa.Function, field *types.Var) []*ssa.FieldAddr {
	var out []*ssa.FieldAddr
	for _, f := range fs {
		Instrs(f, func(in ssa.Instruction) {
			fa, ok := in.(*ssa.FieldAddr)
			if !ok || FieldOf(fa) != field {
				return
			}
			if _, isAlloc := fa.X.(*ssa.Alloc); isAlloc {
				return
			}
			out = append(out, fa)
		})
	}
	return out
}
