package engine

import (
	"go/constant"
	"go/token"
	"go/types"

	"golang.org/x/tools/go/ssa"
)

// Finite-domain evaluation of comparison/arithmetics-only code (engine E7b).
//
// The evaluator walks a function's CFG with an environment mapping SSA values
// to small abstract values.  Designated *inputs* (e.g. loads of two budget
// fields) are given concrete representatives by the caller — one run per
// representative of each weak ordering of the inputs — everything the
// evaluator cannot compute is Unknown, and a branch on Unknown forks.  It
// never calls anything: calls yield Unknown.  This is an abstract
// interpretation over a finite domain, not an execution of the program.

type EKind int

const (
	EUnknown EKind = iota
	EInt
	EBool
	ENil
	EPtr // some non-nil pointer; Tok identifies the allocation
	EAgg // a struct value whose fields are tracked
)

type EVal struct {
	K   EKind
	I   int64
	B   bool
	Tok ssa.Value
	Agg *map[int]EVal // EAgg: field index -> value (struct values built and taken apart locally)
}

type Evaluator struct {
	// Input gives a value for designated inputs (checked before anything else).
	Input func(v ssa.Value) (EVal, bool)
	// Observe is called for every instruction executed on a path with the current environment lookup.
	Observe func(in ssa.Instruction, get func(ssa.Value) EVal)
	// Call evaluates a call instruction (nil: calls yield Unknown).
	Call func(call *ssa.Call, get func(ssa.Value) EVal) (EVal, bool)
	// MaxPaths bounds the exploration.
	MaxPaths int
	// MaxVisits bounds how often one path may re-enter a block (loop unrolling); default 2.
	MaxVisits int
	// Path counting (optional): every path carries an event counter (0, 1, 2 = two or more).
	// CountEvent gives the events contributed by executing an instruction; CallOutcomes may give a call several
	// alternative results, each with its own event count (the path forks); StopAt ends a path early; AtEnd is
	// called with the counter at every Return and StopAt instruction.
	CountEvent   func(in ssa.Instruction) int
	CallOutcomes func(call *ssa.Call, get func(ssa.Value) EVal) []CallOutcome
	StopAt       func(in ssa.Instruction) bool
	AtEnd        func(at ssa.Instruction, count int, get func(ssa.Value) EVal)
	paths     int
	Aborted  bool
}

// CallOutcome is one alternative result of a call for the counting evaluator.
type CallOutcome struct {
	Val   EVal
	Count int
}

type evalEnv struct {
	count  int
	vals   map[ssa.Value]EVal
	mem    map[ssa.Value]EVal // local allocs
	fmem   map[fieldKey]EVal  // fields of local struct allocs
	visits map[*ssa.BasicBlock]int
}

type fieldKey struct {
	al ssa.Value
	i  int
}

func (e *evalEnv) clone() *evalEnv {
	n := &evalEnv{count: e.count, vals: map[ssa.Value]EVal{}, mem: map[ssa.Value]EVal{}, fmem: map[fieldKey]EVal{}, visits: map[*ssa.BasicBlock]int{}}
	for k, v := range e.fmem {
		n.fmem[k] = v
	}
	for k, v := range e.vals {
		n.vals[k] = v
	}
	for k, v := range e.mem {
		n.mem[k] = v
	}
	for k, v := range e.visits {
		n.visits[k] = v
	}
	return n
}

// Run explores f from its entry.
func (ev *Evaluator) Run(f *ssa.Function) {
	if ev.MaxPaths == 0 {
		ev.MaxPaths = 4096
	}
	if len(f.Blocks) == 0 {
		return
	}
	env := &evalEnv{vals: map[ssa.Value]EVal{}, mem: map[ssa.Value]EVal{}, fmem: map[fieldKey]EVal{}, visits: map[*ssa.BasicBlock]int{}}
	ev.runBlock(f.Blocks[0], nil, env)
}

// RunFromBlock explores from the start of block b (values defined before it are unknown).
func (ev *Evaluator) RunFromBlock(b *ssa.BasicBlock) {
	if ev.MaxPaths == 0 {
		ev.MaxPaths = 4096
	}
	env := &evalEnv{vals: map[ssa.Value]EVal{}, mem: map[ssa.Value]EVal{}, fmem: map[fieldKey]EVal{}, visits: map[*ssa.BasicBlock]int{}}
	ev.runBlock(b, nil, env)
}

func bump(c, d int) int {
	c += d
	if c > 2 {
		c = 2
	}
	return c
}

func (ev *Evaluator) get(env *evalEnv, v ssa.Value) EVal {
	if ev.Input != nil {
		if x, ok := ev.Input(v); ok {
			return x
		}
	}
	if x, ok := env.vals[v]; ok {
		return x
	}
	switch c := v.(type) {
	case *ssa.Const:
		if c.Value == nil {
			switch c.Type().Underlying().(type) {
			case *types.Pointer, *types.Interface, *types.Map, *types.Slice, *types.Chan, *types.Signature:
				return EVal{K: ENil}
			}
			return EVal{} // zero value of an aggregate
		}
		switch c.Value.Kind() {
		case constant.Int:
			if n, ok := constant.Int64Val(c.Value); ok {
				return EVal{K: EInt, I: n}
			}
		case constant.Bool:
			return EVal{K: EBool, B: constant.BoolVal(c.Value)}
		}
	}
	return EVal{}
}

func (ev *Evaluator) runBlock(b, from *ssa.BasicBlock, env *evalEnv) {
	if ev.Aborted {
		return
	}
	env.visits[b]++
	mv := ev.MaxVisits
	if mv == 0 {
		mv = 2
	}
	if env.visits[b] > mv {
		return
	}
	get := func(v ssa.Value) EVal { return ev.get(env, v) }
	// phis first, simultaneously
	var phiVals []EVal
	var phis []*ssa.Phi
	for _, in := range b.Instrs {
		ph, ok := in.(*ssa.Phi)
		if !ok {
			break
		}
		idx := -1
		for i, p := range b.Preds {
			if p == from {
				idx = i
			}
		}
		if idx >= 0 {
			phiVals = append(phiVals, get(ph.Edges[idx]))
		} else {
			phiVals = append(phiVals, EVal{})
		}
		phis = append(phis, ph)
	}
	for i, ph := range phis {
		env.vals[ph] = phiVals[i]
	}
	ev.runInstrs(b, 0, env)
}

// runInstrs executes b's instructions from index start in env (forking where the counting hooks say so).
func (ev *Evaluator) runInstrs(b *ssa.BasicBlock, start int, env *evalEnv) {
	get := func(v ssa.Value) EVal { return ev.get(env, v) }
	for idx := start; idx < len(b.Instrs); idx++ {
		in := b.Instrs[idx]
		if _, ok := in.(*ssa.Phi); ok {
			continue
		}
		if ev.Aborted {
			return
		}
		if ev.StopAt != nil && ev.StopAt(in) {
			if ev.AtEnd != nil {
				ev.AtEnd(in, env.count, get)
			}
			return
		}
		if ev.Observe != nil {
			ev.Observe(in, get)
		}
		if ev.CountEvent != nil {
			env.count = bump(env.count, ev.CountEvent(in))
		}
		if call, ok := in.(*ssa.Call); ok && ev.CallOutcomes != nil {
			if outs := ev.CallOutcomes(call, get); len(outs) > 0 {
				for k, o := range outs {
					e2 := env
					if k < len(outs)-1 {
						e2 = env.clone()
						ev.paths++
						if ev.paths > ev.MaxPaths {
							ev.Aborted = true
							return
						}
					}
					if o.Val.K != EUnknown {
						e2.vals[call] = o.Val
					} else {
						delete(e2.vals, call)
					}
					e2.count = bump(e2.count, o.Count)
					ev.runInstrs(b, idx+1, e2)
				}
				return
			}
		}
		switch x := in.(type) {
		case *ssa.BinOp:
			env.vals[x] = evalBin(x.Op, get(x.X), get(x.Y))
		case *ssa.UnOp:
			switch x.Op {
			case token.NOT:
				a := get(x.X)
				if a.K == EBool {
					env.vals[x] = EVal{K: EBool, B: !a.B}
				}
			case token.SUB:
				a := get(x.X)
				if a.K == EInt {
					env.vals[x] = EVal{K: EInt, I: -a.I}
				}
			case token.MUL:
				if al, ok := x.X.(*ssa.Alloc); ok {
					if v, ok := env.mem[al]; ok {
						env.vals[x] = v
					} else if st, isStruct := al.Type().Underlying().(*types.Pointer).Elem().Underlying().(*types.Struct); isStruct {
						// the whole struct is read: gather the fields written so far
						agg := map[int]EVal{}
						for i := 0; i < st.NumFields(); i++ {
							if fv, ok := env.fmem[fieldKey{al, i}]; ok {
								agg[i] = fv
							}
						}
						if len(agg) > 0 {
							env.vals[x] = EVal{K: EAgg, Agg: &agg}
						}
					}
				}
				if fa, ok := x.X.(*ssa.FieldAddr); ok {
					if al, ok := fa.X.(*ssa.Alloc); ok {
						if v, ok := env.fmem[fieldKey{al, fa.Field}]; ok {
							env.vals[x] = v
						} else if whole, ok := env.mem[al]; ok && whole.K == EAgg {
							if fv, ok := (*whole.Agg)[fa.Field]; ok {
								env.vals[x] = fv
							}
						}
					}
				}
			}
		case *ssa.MakeInterface:
			// boxing a concrete value never yields a nil interface
			env.vals[x] = EVal{K: EPtr, Tok: x}
		case *ssa.Call:
			handled := false
			if ev.Call != nil {
				if v, ok := ev.Call(x, get); ok {
					env.vals[x] = v
					handled = true
				}
			}
			if bi, isB := x.Call.Value.(*ssa.Builtin); isB && !handled && (bi.Name() == "max" || bi.Name() == "min") && len(x.Call.Args) >= 1 {
				all := true
				var best int64
				for i, a := range x.Call.Args {
					av := get(a)
					if av.K != EInt {
						all = false
						break
					}
					if i == 0 || (bi.Name() == "max" && av.I > best) || (bi.Name() == "min" && av.I < best) {
						best = av.I
					}
				}
				if all {
					env.vals[x] = EVal{K: EInt, I: best}
				}
			}
		case *ssa.Select:
			// executed marker (which case fires stays unknown: the extracted index is not evaluated)
			env.vals[x] = EVal{K: EPtr, Tok: x}
		case *ssa.Convert:
			env.vals[x] = get(x.X)
		case *ssa.ChangeType:
			env.vals[x] = get(x.X)
		case *ssa.Alloc:
			env.vals[x] = EVal{K: EPtr, Tok: x}
		case *ssa.Store:
			if al, ok := x.Addr.(*ssa.Alloc); ok {
				env.mem[al] = get(x.Val)
			}
			if fa, ok := x.Addr.(*ssa.FieldAddr); ok {
				if al, ok := fa.X.(*ssa.Alloc); ok {
					env.fmem[fieldKey{al, fa.Field}] = get(x.Val)
				}
			}
		case *ssa.Field:
			if a := get(x.X); a.K == EAgg {
				if fv, ok := (*a.Agg)[x.Field]; ok {
					env.vals[x] = fv
				}
			}
		case *ssa.If:
			c := get(x.Cond)
			if c.K == EBool {
				if c.B {
					ev.runBlock(b.Succs[0], b, env)
				} else {
					ev.runBlock(b.Succs[1], b, env)
				}
				return
			}
			ev.paths++
			if ev.paths > ev.MaxPaths {
				ev.Aborted = true
				return
			}
			ev.runBlock(b.Succs[0], b, env.clone())
			ev.runBlock(b.Succs[1], b, env)
			return
		case *ssa.Jump:
			ev.runBlock(b.Succs[0], b, env)
			return
		case *ssa.Return:
			if ev.AtEnd != nil {
				ev.AtEnd(x, env.count, get)
			}
			return
		case *ssa.Panic:
			return
		}
	}
}

func evalBin(op token.Token, a, b EVal) EVal {
	if a.K == EInt && b.K == EInt {
		switch op {
		case token.ADD:
			return EVal{K: EInt, I: a.I + b.I}
		case token.SUB:
			return EVal{K: EInt, I: a.I - b.I}
		case token.MUL:
			return EVal{K: EInt, I: a.I * b.I}
		case token.EQL:
			return EVal{K: EBool, B: a.I == b.I}
		case token.NEQ:
			return EVal{K: EBool, B: a.I != b.I}
		case token.LSS:
			return EVal{K: EBool, B: a.I < b.I}
		case token.LEQ:
			return EVal{K: EBool, B: a.I <= b.I}
		case token.GTR:
			return EVal{K: EBool, B: a.I > b.I}
		case token.GEQ:
			return EVal{K: EBool, B: a.I >= b.I}
		}
	}
	isNilish := func(v EVal) bool { return v.K == ENil || v.K == EPtr }
	if isNilish(a) && isNilish(b) {
		eq := (a.K == ENil && b.K == ENil) || (a.K == EPtr && b.K == EPtr && a.Tok == b.Tok)
		switch op {
		case token.EQL:
			return EVal{K: EBool, B: eq}
		case token.NEQ:
			return EVal{K: EBool, B: !eq}
		}
	}
	if a.K == EBool && b.K == EBool {
		switch op {
		case token.EQL:
			return EVal{K: EBool, B: a.B == b.B}
		case token.NEQ:
			return EVal{K: EBool, B: a.B != b.B}
		case token.AND:
			return EVal{K: EBool, B: a.B && b.B}
		case token.OR:
			return EVal{K: EBool, B: a.B || b.B}
		}
	}
	return EVal{}
}

// EvalPure evaluates a side-effect-free function of integer/bool arguments in the
// finite domain and returns the set of values its first result can take
// (Unknown included as K == EUnknown).  Calls to other functions with bodies are
// evaluated recursively (bounded); fmt.Errorf / errors.New yield a non-nil value.
func EvalPure(f *ssa.Function, args []EVal, depth int) []EVal {
	var out []EVal
	if f == nil || f.Blocks == nil || depth > 4 {
		return []EVal{{}}
	}
	ev := &Evaluator{MaxVisits: 3}
	ev.Input = func(v ssa.Value) (EVal, bool) {
		if p, ok := v.(*ssa.Parameter); ok {
			for i, fp := range f.Params {
				if fp == p && i < len(args) {
					return args[i], true
				}
			}
		}
		return EVal{}, false
	}
	ev.Call = func(call *ssa.Call, get func(ssa.Value) EVal) (EVal, bool) {
		sc := call.Call.StaticCallee()
		if sc == nil {
			return EVal{}, false
		}
		if sc.Pkg != nil {
			switch sc.Pkg.Pkg.Path() + "." + sc.Name() {
			case "fmt.Errorf", "errors.New":
				return EVal{K: EPtr, Tok: call}, true
			}
		}
		if sc.Blocks == nil {
			return EVal{}, false
		}
		var as []EVal
		for _, a := range call.Call.Args {
			as = append(as, get(a))
		}
		rs := EvalPure(sc, as, depth+1)
		if len(rs) == 1 {
			return rs[0], true
		}
		return EVal{}, false
	}
	ev.Observe = func(in ssa.Instruction, get func(ssa.Value) EVal) {
		if r, ok := in.(*ssa.Return); ok && len(r.Results) > 0 {
			v := get(r.Results[0])
			for _, o := range out {
				if o == v {
					return
				}
			}
			out = append(out, v)
		}
	}
	ev.Run(f)
	if len(out) == 0 {
		return []EVal{{}}
	}
	return out
}
