package engine

import (
	"go/token"
	"golang.org/x/tools/go/ssa"
)

// Path counting (engine E6): the number of "events" on every path of a region.
//
// Counts are abstracted to the set {0, 1, 2+} (bitmask 1|2|4).  An event is an
// instruction for which Events returns a count set; a call to a boolean helper
// whose result is branched on directly may contribute a different count on the
// true and on the false edge (helper summaries).

type CountSet uint8

const (
	C0 CountSet = 1
	C1 CountSet = 2
	C2 CountSet = 4 // two or more
)

func (s CountSet) add(t CountSet) CountSet {
	var out CountSet
	for _, a := range []struct {
		m CountSet
		n int
	}{{C0, 0}, {C1, 1}, {C2, 2}} {
		if s&a.m == 0 {
			continue
		}
		for _, b := range []struct {
			m CountSet
			n int
		}{{C0, 0}, {C1, 1}, {C2, 2}} {
			if t&b.m == 0 {
				continue
			}
			switch n := a.n + b.n; {
			case n == 0:
				out |= C0
			case n == 1:
				out |= C1
			default:
				out |= C2
			}
		}
	}
	return out
}

func (s CountSet) String() string {
	str := ""
	if s&C0 != 0 {
		str += "0,"
	}
	if s&C1 != 0 {
		str += "1,"
	}
	if s&C2 != 0 {
		str += "2+,"
	}
	if str == "" {
		return "{}"
	}
	return "{" + str[:len(str)-1] + "}"
}

type CountCfg struct {
	// Event returns the count contributed by executing the instruction (0 = not an event).
	Event func(in ssa.Instruction) CountSet
	// BranchEvent: for an If whose condition is (possibly negated) the result of a call,
	// returns the counts contributed on the true and false outcome of the call's result.
	BranchEvent func(call *ssa.Call) (onTrue, onFalse CountSet, ok bool)
	// Stop: the walk ends (and reports) at instructions satisfying Stop; Returns always end it.
	Stop func(in ssa.Instruction) bool
	// Deep: a call of a same-package helper (static, with body) that is neither an event nor a
	// branch event contributes the counts of its own paths (summarised, depth-bounded).
	Deep  bool
	depth int
}

type CountStop struct {
	At    ssa.Instruction
	Count CountSet
	// For a Return whose boolean result is a branch-event call made on the spot
	// (`return helper()`): counts when that result is true / false.
	OnTrue, OnFalse CountSet
	Unsplit         bool // some way of reaching this return could not be attributed to a truth value
}

// helperCounts: the counts contributed by running g from entry to any normal return.
func helperCounts(g *ssa.Function, cfg CountCfg) CountSet {
	if cfg.depth > 3 || g == nil || len(g.Blocks) == 0 {
		return C0
	}
	inner := cfg
	inner.Stop = nil
	inner.depth = cfg.depth + 1
	var out CountSet
	for _, s := range CountFrom(g.Blocks[0], C0, inner) {
		if _, ok := s.At.(*ssa.Return); ok {
			out |= s.Count
		}
	}
	if out == 0 {
		return C0
	}
	return out
}

// CountFrom propagates counts from the start of block `start` (entered with
// count set `init`) to every stop/return instruction and returns the count
// sets observed there.
//
// Counts are kept per incoming edge.  Where a block's branch condition or
// boolean return value is a phi of that block (a flag assembled on the way in:
// `ok := ...; if !ok`), each incoming edge is continued separately with the
// phi resolved to that edge's value, so a constant flag keeps its correlation
// with the count of the path that set it.
func CountFrom(start *ssa.BasicBlock, init CountSet, cfg CountCfg) []CountStop {
	inE := map[*ssa.BasicBlock]map[int]CountSet{start: {-1: init}}
	stops := map[ssa.Instruction]CountSet{}
	splitT := map[ssa.Instruction]CountSet{}
	splitF := map[ssa.Instruction]CountSet{}
	unsplit := map[ssa.Instruction]bool{}
	type item struct {
		b    *ssa.BasicBlock
		edge int
	}
	work := []item{{start, -1}}
	push := func(from, to *ssa.BasicBlock, v CountSet) {
		if v == 0 {
			return
		}
		for i, p := range to.Preds {
			if p != from {
				continue
			}
			if inE[to] == nil {
				inE[to] = map[int]CountSet{}
			}
			if inE[to][i]|v != inE[to][i] {
				inE[to][i] |= v
				work = append(work, item{to, i})
			}
		}
	}
	// phiEdge: v (through NOT) is a phi of block b: returns the edge value with polarity applied
	phiEdge := func(b *ssa.BasicBlock, v ssa.Value, edge int) (val bool, known bool, isPhi bool) {
		pol := true
		for {
			u, ok := v.(*ssa.UnOp)
			if !ok || u.Op != token.NOT {
				break
			}
			v, pol = u.X, !pol
		}
		ph, ok := v.(*ssa.Phi)
		if !ok || ph.Block() != b {
			return false, false, false
		}
		if edge < 0 || edge >= len(ph.Edges) {
			return false, false, true
		}
		if c, ok := ConstBool(ph.Edges[edge]); ok {
			return c == pol, true, true
		}
		return false, false, true
	}
	for len(work) > 0 {
		it := work[0]
		work = work[1:]
		b := it.b
		cur := inE[b][it.edge]
		if cur == 0 {
			continue
		}
		stopped := false
		for _, instr := range b.Instrs {
			if cfg.Stop != nil && cfg.Stop(instr) {
				stops[instr] |= cur
				stopped = true
				break
			}
			if ret, ok := instr.(*ssa.Return); ok {
				if len(ret.Results) > 0 {
					rv := ReturnValue(ret, 0)
					if cfg.BranchEvent != nil {
						if call, ok := rv.(*ssa.Call); ok && call.Block() == b && usedOnlyAsBranch(call) {
							if t, f, ok := cfg.BranchEvent(call); ok {
								stops[instr] |= cur.add(t) | cur.add(f)
								splitT[instr] |= cur.add(t)
								splitF[instr] |= cur.add(f)
								stopped = true
								break
							}
						}
					}
					if val, known, isPhi := phiEdge(b, rv, it.edge); isPhi && known {
						if val {
							splitT[instr] |= cur
						} else {
							splitF[instr] |= cur
						}
					} else if isPhi {
						unsplit[instr] = true
					}
				}
				stops[instr] |= cur
				stopped = true
				break
			}
			if _, ok := instr.(*ssa.Panic); ok {
				stopped = true
				break
			}
			// calls used as branch events are handled at the If
			if call, ok := instr.(*ssa.Call); ok && cfg.BranchEvent != nil {
				if _, _, ok := cfg.BranchEvent(call); ok && usedOnlyAsBranch(call) {
					continue
				}
			}
			if cfg.Event != nil {
				if e := cfg.Event(instr); e != 0 {
					cur = cur.add(e)
					continue
				}
			}
			if cfg.Deep {
				if sc := moduleCallee(instr); sc != nil && FuncPkgPath(sc) == FuncPkgPath(start.Parent()) {
					if e := helperCounts(sc, cfg); e != C0 {
						cur = cur.add(e)
					}
				}
			}
		}
		if stopped {
			continue
		}
		if ifi, ok := b.Instrs[len(b.Instrs)-1].(*ssa.If); ok {
			if cfg.BranchEvent != nil {
				conds := flatten(Cond{V: ifi.Cond, Pol: true, If: ifi})
				if call, ok := conds[0].V.(*ssa.Call); ok && call.Block() == b {
					if t, f, ok := cfg.BranchEvent(call); ok && usedOnlyAsBranch(call) {
						if !conds[0].Pol {
							t, f = f, t
						}
						push(b, b.Succs[0], cur.add(t))
						push(b, b.Succs[1], cur.add(f))
						continue
					}
				}
			}
			if val, known, isPhi := phiEdge(b, ifi.Cond, it.edge); isPhi && known {
				if val {
					push(b, b.Succs[0], cur)
				} else {
					push(b, b.Succs[1], cur)
				}
				continue
			}
		}
		for _, s := range b.Succs {
			push(b, s, cur)
		}
	}
	var out []CountStop
	for at, c := range stops {
		out = append(out, CountStop{At: at, Count: c, OnTrue: splitT[at], OnFalse: splitF[at], Unsplit: unsplit[at]})
	}
	return out
}

func usedOnlyAsBranch(call *ssa.Call) bool {
	refs := call.Referrers()
	if refs == nil {
		return false
	}
	for _, r := range *refs {
		switch x := r.(type) {
		case *ssa.If:
		case *ssa.Return:
		case *ssa.UnOp:
			for _, rr := range *x.Referrers() {
				if _, ok := rr.(*ssa.If); !ok {
					return false
				}
			}
		case *ssa.DebugRef:
		default:
			return false
		}
	}
	return len(*refs) > 0
}

// BoolHelperSummary computes, for a function returning a single bool, the event
// counts on paths ending in `return true` and `return false`.  ok is false if a
// return value is not a boolean constant.
func BoolHelperSummary(f *ssa.Function, cfg CountCfg) (onTrue, onFalse CountSet, ok bool) {
	if f == nil || len(f.Blocks) == 0 || f.Signature.Results().Len() != 1 {
		return 0, 0, false
	}
	stops := CountFrom(f.Blocks[0], C0, cfg)
	for _, s := range stops {
		r, isRet := s.At.(*ssa.Return)
		if !isRet {
			return 0, 0, false
		}
		b, isConst := ConstBool(ReturnValue(r, 0))
		if !isConst {
			if (s.OnTrue != 0 || s.OnFalse != 0) && !s.Unsplit {
				onTrue |= s.OnTrue
				onFalse |= s.OnFalse
				continue
			}
			return 0, 0, false
		}
		if b {
			onTrue |= s.Count
		} else {
			onFalse |= s.Count
		}
	}
	return onTrue, onFalse, true
}
