package engine

import (
	"golang.org/x/tools/go/ssa"
)

// Path counting (engine E6): the number of "events" on every path of a region.
//
// Counts are abstracted to the set {0, 1, 2+} (bitmask 1|2|4).  An event is an
// instruction for which Events returns a count set; a call to a boolean helper
// whose result is branched on directly may contribute a different count on the
// true and on the false edge (helper summaries).

type CountSet uint8

const (
	C0 CountSet = 1
	C1 CountSet = 2
	C2 CountSet = 4 // two or more
)

func (s CountSet) add(t CountSet) CountSet {
	var out CountSet
	for _, a := range []struct {
		m CountSet
		n int
	}{{C0, 0}, {C1, 1}, {C2, 2}} {
		if s&a.m == 0 {
			continue
		}
		for _, b := range []struct {
			m CountSet
			n int
		}{{C0, 0}, {C1, 1}, {C2, 2}} {
			if t&b.m == 0 {
				continue
			}
			switch n := a.n + b.n; {
			case n == 0:
				out |= C0
			case n == 1:
				out |= C1
			default:
				out |= C2
			}
		}
	}
	return out
}

func (s CountSet) String() string {
	str := ""
	if s&C0 != 0 {
		str += "0,"
	}
	if s&C1 != 0 {
		str += "1,"
	}
	if s&C2 != 0 {
		str += "2+,"
	}
	if str == "" {
		return "{}"
	}
	return "{" + str[:len(str)-1] + "}"
}

type CountCfg struct {
	// Event returns the count contributed by executing the instruction (0 = not an event).
	Event func(in ssa.Instruction) CountSet
	// BranchEvent: for an If whose condition is (possibly negated) the result of a call,
	// returns the counts contributed on the true and false outcome of the call's result.
	BranchEvent func(call *ssa.Call) (onTrue, onFalse CountSet, ok bool)
	// Stop: the walk ends (and reports) at instructions satisfying Stop; Returns always end it.
	Stop func(in ssa.Instruction) bool
}

type CountStop struct {
	At    ssa.Instruction
	Count CountSet
}

// CountFrom propagates counts from the start of block `start` (entered with
// count set `init`) to every stop/return instruction and returns the count
// sets observed there.
func CountFrom(start *ssa.BasicBlock, init CountSet, cfg CountCfg) []CountStop {
	in := map[*ssa.BasicBlock]CountSet{start: init}
	stops := map[ssa.Instruction]CountSet{}
	work := []*ssa.BasicBlock{start}
	for len(work) > 0 {
		b := work[0]
		work = work[1:]
		cur := in[b]
		stopped := false
		for _, instr := range b.Instrs {
			if cfg.Stop != nil && cfg.Stop(instr) {
				stops[instr] |= cur
				stopped = true
				break
			}
			if _, ok := instr.(*ssa.Return); ok {
				stops[instr] |= cur
				stopped = true
				break
			}
			if _, ok := instr.(*ssa.Panic); ok {
				stopped = true
				break
			}
			// calls used as branch events are handled at the If
			if call, ok := instr.(*ssa.Call); ok && cfg.BranchEvent != nil {
				if _, _, ok := cfg.BranchEvent(call); ok && usedOnlyAsBranch(call) {
					continue
				}
			}
			if cfg.Event != nil {
				if e := cfg.Event(instr); e != 0 {
					cur = cur.add(e)
				}
			}
		}
		if stopped {
			continue
		}
		push := func(s *ssa.BasicBlock, v CountSet) {
			if in[s]|v != in[s] {
				in[s] |= v
				work = append(work, s)
			}
		}
		if ifi, ok := b.Instrs[len(b.Instrs)-1].(*ssa.If); ok && cfg.BranchEvent != nil {
			conds := flatten(Cond{ifi.Cond, true, ifi})
			if call, ok := conds[0].V.(*ssa.Call); ok && call.Block() == b {
				if t, f, ok := cfg.BranchEvent(call); ok && usedOnlyAsBranch(call) {
					if !conds[0].Pol {
						t, f = f, t
					}
					push(b.Succs[0], cur.add(t))
					push(b.Succs[1], cur.add(f))
					continue
				}
			}
		}
		for _, s := range b.Succs {
			push(s, cur)
		}
	}
	var out []CountStop
	for at, c := range stops {
		out = append(out, CountStop{at, c})
	}
	return out
}

func usedOnlyAsBranch(call *ssa.Call) bool {
	refs := call.Referrers()
	if refs == nil {
		return false
	}
	for _, r := range *refs {
		switch x := r.(type) {
		case *ssa.If:
		case *ssa.UnOp:
			for _, rr := range *x.Referrers() {
				if _, ok := rr.(*ssa.If); !ok {
					return false
				}
			}
		case *ssa.DebugRef:
		default:
			return false
		}
	}
	return len(*refs) > 0
}

// BoolHelperSummary computes, for a function returning a single bool, the event
// counts on paths ending in `return true` and `return false`.  ok is false if a
// return value is not a boolean constant.
func BoolHelperSummary(f *ssa.Function, cfg CountCfg) (onTrue, onFalse CountSet, ok bool) {
	if f == nil || len(f.Blocks) == 0 || f.Signature.Results().Len() != 1 {
		return 0, 0, false
	}
	stops := CountFrom(f.Blocks[0], C0, cfg)
	for _, s := range stops {
		r, isRet := s.At.(*ssa.Return)
		if !isRet {
			return 0, 0, false
		}
		b, isConst := ConstBool(ReturnValue(r, 0))
		if !isConst {
			return 0, 0, false
		}
		if b {
			onTrue |= s.Count
		} else {
			onFalse |= s.Count
		}
	}
	return onTrue, onFalse, true
}
