package engine

import (
	"golang.org/x/tools/go/ssa"
)

// Looking through helpers (extract-method robustness).
//
// A rule's predicate over instructions ("this is the release call", "this is
// the signal") is lifted to calls of module functions whose body performs the
// instruction: LiftMust for obligations (the helper performs it on every path
// to a normal return), LiftMay for prohibitions (some path of the helper may
// perform it).  Only static callees with bodies inside the module are looked
// into; recursion is cut (treated as "does not").

const interDepth = 4

func moduleCallee(in ssa.Instruction) *ssa.Function {
	c, ok := in.(*ssa.Call)
	if !ok {
		return nil
	}
	sc := c.Call.StaticCallee()
	if sc == nil || sc.Blocks == nil || !InModule(FuncPkgPath(sc)) {
		return nil
	}
	return sc
}

// LiftMust returns pred extended to calls of module functions that satisfy it on every path from entry to return.
func LiftMust(pred func(ssa.Instruction) bool) func(ssa.Instruction) bool {
	memo := map[*ssa.Function]int{} // 0 unknown, 1 busy, 2 yes, 3 no
	var lifted func(in ssa.Instruction) bool
	var must func(g *ssa.Function, depth int) bool
	must = func(g *ssa.Function, depth int) bool {
		switch memo[g] {
		case 1, 3:
			return false
		case 2:
			return true
		}
		if depth > interDepth {
			return false
		}
		memo[g] = 1
		ok, _ := MustReachFromEntry(g, func(in ssa.Instruction) bool {
			if pred(in) {
				return true
			}
			if sc := moduleCallee(in); sc != nil {
				return must(sc, depth+1)
			}
			return false
		}, nil)
		if ok {
			memo[g] = 2
		} else {
			memo[g] = 3
		}
		return ok
	}
	lifted = func(in ssa.Instruction) bool {
		if pred(in) {
			return true
		}
		if sc := moduleCallee(in); sc != nil {
			return must(sc, 1)
		}
		return false
	}
	return lifted
}

// LiftMay returns pred extended to calls of module functions some instruction of which
// (or of whose module callees, transitively) satisfies it.
func LiftMay(pred func(ssa.Instruction) bool) func(ssa.Instruction) bool {
	memo := map[*ssa.Function]int{}
	var may func(g *ssa.Function, depth int) bool
	may = func(g *ssa.Function, depth int) bool {
		switch memo[g] {
		case 1, 3:
			return false
		case 2:
			return true
		}
		if depth > interDepth+2 {
			return false
		}
		memo[g] = 1
		found := false
		Instrs(g, func(in ssa.Instruction) {
			if found {
				return
			}
			if pred(in) {
				found = true
				return
			}
			if sc := moduleCallee(in); sc != nil && may(sc, depth+1) {
				found = true
			}
		})
		if found {
			memo[g] = 2
		} else {
			memo[g] = 3
		}
		return found
	}
	return func(in ssa.Instruction) bool {
		if pred(in) {
			return true
		}
		if sc := moduleCallee(in); sc != nil {
			return may(sc, 1)
		}
		return false
	}
}

// DeepInstrs visits the instructions of f and, for calls of same-package module helpers
// (static, with body, no free variables), the helper's instructions as well (depth-bounded).
// visit receives the instruction and the chain of call sites (outermost first) it was reached through.
func DeepInstrs(f *ssa.Function, visit func(in ssa.Instruction, via []*ssa.Call)) {
	seen := map[*ssa.Function]bool{f: true}
	var walk func(g *ssa.Function, via []*ssa.Call, depth int)
	walk = func(g *ssa.Function, via []*ssa.Call, depth int) {
		Instrs(g, func(in ssa.Instruction) {
			visit(in, via)
			if depth >= interDepth {
				return
			}
			if sc := moduleCallee(in); sc != nil && !seen[sc] && len(sc.FreeVars) == 0 && FuncPkgPath(sc) == FuncPkgPath(f) {
				seen[sc] = true
				walk(sc, append(append([]*ssa.Call{}, via...), in.(*ssa.Call)), depth+1)
			}
		})
	}
	walk(f, nil, 0)
}

// CondsVia returns the conditions known at instruction `in` reached through the call chain via
// (as produced by DeepInstrs): the instruction's own dominating conditions plus those of every
// call site on the chain, each carrying the substitution needed to resolve helper parameters.
func CondsVia(in ssa.Instruction, via []*ssa.Call) []Cond {
	// substitution for level k (instruction inside callee of via[k]) maps that callee's params to via[k]'s args
	var subs []*Subst // subs[k] resolves values of the function *containing* via[k]... built outermost-in
	var cur *Subst
	for _, call := range via {
		callee := call.Call.StaticCallee()
		s := &Subst{Params: map[*ssa.Parameter]ssa.Value{}, Up: cur}
		for i, p := range callee.Params {
			if i < len(call.Call.Args) {
				s.Params[p] = call.Call.Args[i]
			}
		}
		subs = append(subs, cur)
		cur = s
	}
	var out []Cond
	for _, c := range InstrConds(in) {
		c.Sub = chainSubst(c.Sub, cur)
		out = append(out, c)
	}
	for k, call := range via {
		for _, c := range InstrConds(call) {
			c.Sub = chainSubst(c.Sub, subs[k])
			out = append(out, c)
		}
	}
	return out
}

// ResolveVia maps a value inside a helper reached through via back to the outermost function's terms.
func ResolveVia(v ssa.Value, via []*ssa.Call) ssa.Value {
	v = Strip(v)
	for k := len(via) - 1; k >= 0; k-- {
		p, ok := v.(*ssa.Parameter)
		if !ok {
			return v
		}
		callee := via[k].Call.StaticCallee()
		found := false
		for i, cp := range callee.Params {
			if cp == p && i < len(via[k].Call.Args) {
				v = Strip(via[k].Call.Args[i])
				found = true
			}
		}
		if !found {
			return v
		}
	}
	return v
}

// ---------------------------------------------------------------------------
// continuing after return: obligations a helper leaves to its callers

var callSiteIndex map[*ssa.Function][]ssa.CallInstruction
var callSiteProg *Program

// CallSitesOf returns every static call / go / defer of f in the module's source functions.
func (p *Program) CallSitesOf(f *ssa.Function) []ssa.CallInstruction {
	if callSiteIndex == nil || callSiteProg != p {
		callSiteProg = p
		callSiteIndex = map[*ssa.Function][]ssa.CallInstruction{}
		for _, g := range p.SrcFuncs() {
			Instrs(g, func(in ssa.Instruction) {
				if ci, ok := in.(ssa.CallInstruction); ok {
					if sc := ci.Common().StaticCallee(); sc != nil {
						callSiteIndex[sc] = append(callSiteIndex[sc], ci)
					}
				}
			})
		}
	}
	return callSiteIndex[f]
}

// escapesAsValue: f is used other than as a static callee (method value, stored, exported API of the module root).
func (p *Program) onlyStaticCallers(f *ssa.Function) bool {
	if f.Object() != nil && f.Object().Exported() {
		// exported functions of internal packages are still only called from the module; accept when call sites exist
	}
	if f.Referrers() != nil {
		for _, r := range *f.Referrers() {
			ci, ok := r.(ssa.CallInstruction)
			if !ok || ci.Common().StaticCallee() != f {
				return false
			}
		}
	}
	return true
}

// MustReachInter: every path from the start of block b to a normal return passes an instruction
// satisfying pred (looked for inside module helpers too); a path that returns first is followed
// into every static caller (up to two levels), where the obligation must be met after the call.
func (p *Program) MustReachInter(b *ssa.BasicBlock, pred func(ssa.Instruction) bool, stop func(ssa.Instruction) bool) (bool, ssa.Instruction) {
	return p.mustReachInter(point{b, 0}, LiftMust(pred), stop, 0)
}

func (p *Program) mustReachInter(start point, lifted func(ssa.Instruction) bool, stop func(ssa.Instruction) bool, depth int) (bool, ssa.Instruction) {
	ok, bad := mustReach(start, lifted, stop)
	if ok {
		return true, nil
	}
	f := start.b.Parent()
	sites := p.CallSitesOf(f)
	if depth >= 2 || len(sites) == 0 || !p.onlyStaticCallers(f) {
		return false, bad
	}
	for _, cs := range sites {
		if _, isCall := cs.(*ssa.Call); !isCall {
			return false, bad // go/defer: nothing runs "after" in the caller
		}
		if ok2, _ := p.mustReachInter(point{cs.Block(), indexOf(cs) + 1}, lifted, stop, depth+1); !ok2 {
			return false, bad
		}
	}
	return true, nil
}

// CanReachInter: some path from the start of block b reaches an instruction satisfying pred
// (inside module helpers too), or returns to callers all of which can reach it after the call.
func (p *Program) CanReachInter(b *ssa.BasicBlock, pred func(ssa.Instruction) bool) bool {
	return p.canReachInter(point{b, 0}, LiftMay(pred), 0)
}

func (p *Program) canReachInter(start point, lifted func(ssa.Instruction) bool, depth int) bool {
	if ok, _ := canReach(start, lifted, nil); ok {
		return true
	}
	isRet := func(in ssa.Instruction) bool { _, ok := in.(*ssa.Return); return ok }
	if ok, _ := canReach(start, isRet, nil); !ok {
		return false
	}
	f := start.b.Parent()
	sites := p.CallSitesOf(f)
	if depth >= 2 || len(sites) == 0 || !p.onlyStaticCallers(f) {
		return false
	}
	for _, cs := range sites {
		if _, isCall := cs.(*ssa.Call); !isCall {
			return false
		}
		if !p.canReachInter(point{cs.Block(), indexOf(cs) + 1}, lifted, depth+1) {
			return false
		}
	}
	return true
}

// GuardedHereOrAtCallers: instruction `in` is dominated by a condition satisfying test (which is
// given the condition and the value `target` in the terms of the function being looked at), or
// — when target is a parameter of in's function — every static call site of that function is,
// with target replaced by the corresponding argument (up to two levels).
func (p *Program) GuardedHereOrAtCallers(in ssa.Instruction, target ssa.Value, test func(c Cond, target ssa.Value) bool) bool {
	return p.guardedAt(in, Strip(target), test, 0)
}

func (p *Program) guardedAt(in ssa.Instruction, target ssa.Value, test func(c Cond, target ssa.Value) bool, depth int) bool {
	for _, cd := range InstrConds(in) {
		if test(cd, target) {
			return true
		}
	}
	f := in.Parent()
	par, ok := target.(*ssa.Parameter)
	if !ok || depth >= 2 || !p.onlyStaticCallers(f) {
		return false
	}
	idx := -1
	for i, fp := range f.Params {
		if fp == par {
			idx = i
		}
	}
	sites := p.CallSitesOf(f)
	if idx < 0 || len(sites) == 0 {
		return false
	}
	for _, cs := range sites {
		if idx >= len(cs.Common().Args) {
			return false
		}
		if !p.guardedAt(cs, Strip(cs.Common().Args[idx]), test, depth+1) {
			return false
		}
	}
	return true
}
