package engine

import (
	"sort"

	"golang.org/x/tools/go/ssa"
)

// Goroutine-root reachability (engine E3).
//
// Edges: static callees, and interface invokes resolved through the call graph
// (CHA in the quick tier, VTA in thorough).  Calls through plain function
// values are *not* followed (they are opaque hand-offs: hooks, callbacks); a
// rule that needs one binds the function literal at the call site itself.
// MakeClosure/function-literal arguments passed to a static or invoked callee
// are treated as called by the caller (the module's higher-order entry points
// — Transaction, AllocateAndBuildMessage, WithPeerTopics — run them synchronously).

type RootGraph struct {
	P       *Program
	succ    map[*ssa.Function][]*ssa.Function
	pred    map[*ssa.Function][]*ssa.Function
	GoRoots map[*ssa.Function][]*ssa.Go // go-statement targets in shipped module code
}

func BuildRootGraph(p *Program) *RootGraph {
	g := &RootGraph{P: p, succ: map[*ssa.Function][]*ssa.Function{}, pred: map[*ssa.Function][]*ssa.Function{}, GoRoots: map[*ssa.Function][]*ssa.Go{}}
	cg, _ := p.CallGraph()
	add := func(a, b *ssa.Function) {
		if a == nil || b == nil || b.Blocks == nil || !InModule(FuncPkgPath(b)) {
			return
		}
		g.succ[a] = append(g.succ[a], b)
		g.pred[b] = append(g.pred[b], a)
	}
	for _, f := range p.SrcFuncs() {
		node := cg.Nodes[f]
		Instrs(f, func(in ssa.Instruction) {
			ci, ok := in.(ssa.CallInstruction)
			if !ok {
				return
			}
			c := ci.Common()
			if goi, isGo := in.(*ssa.Go); isGo {
				if t := funcValueTarget(c.Value); t != nil && c.StaticCallee() != nil {
					g.GoRoots[c.StaticCallee()] = append(g.GoRoots[c.StaticCallee()], goi)
				} else if t != nil {
					g.GoRoots[t] = append(g.GoRoots[t], goi)
				}
				return // a go statement starts a new root: no edge
			}
			if sc := c.StaticCallee(); sc != nil {
				add(f, sc)
			} else if c.IsInvoke() && node != nil {
				for _, e := range node.Out {
					if e.Site == ci && e.Callee != nil {
						add(f, e.Callee.Func)
					}
				}
			}
			// function literals handed to a callee run on this goroutine
			for _, a := range c.Args {
				if t := funcValueTarget(a); t != nil && t.Parent() != nil {
					add(f, t)
				}
			}
		})
	}
	return g
}

func funcValueTarget(v ssa.Value) *ssa.Function {
	for {
		switch x := v.(type) {
		case *ssa.Function:
			return x
		case *ssa.MakeClosure:
			f, _ := x.Fn.(*ssa.Function)
			return f
		case *ssa.ChangeType:
			v = x.X
		case *ssa.MakeInterface:
			v = x.X
		default:
			return nil
		}
	}
}

// RootsReaching returns the go-statement roots from which f is reachable, and
// whether f is also reachable from a function with no in-module caller that is
// not a go root (an API entry point running on the caller's goroutine).
func (g *RootGraph) RootsReaching(f *ssa.Function) (roots []*ssa.Function, viaAPI []*ssa.Function) {
	seen := map[*ssa.Function]bool{}
	var walk func(x *ssa.Function)
	walk = func(x *ssa.Function) {
		if seen[x] {
			return
		}
		seen[x] = true
		if _, isRoot := g.GoRoots[x]; isRoot {
			roots = append(roots, x)
		}
		if len(g.pred[x]) == 0 {
			if _, isRoot := g.GoRoots[x]; !isRoot {
				viaAPI = append(viaAPI, x)
			}
		}
		for _, p := range g.pred[x] {
			walk(p)
		}
	}
	walk(f)
	sort.Slice(roots, func(i, j int) bool { return roots[i].String() < roots[j].String() })
	sort.Slice(viaAPI, func(i, j int) bool { return viaAPI[i].String() < viaAPI[j].String() })
	return
}

// Path returns one call path root -> ... -> f (function names), for diagnostics.
func (g *RootGraph) Path(root, f *ssa.Function) []string {
	prev := map[*ssa.Function]*ssa.Function{root: nil}
	queue := []*ssa.Function{root}
	for len(queue) > 0 {
		x := queue[0]
		queue = queue[1:]
		if x == f {
			var out []string
			for y := f; y != nil; y = prev[y] {
				out = append([]string{FuncName(y)}, out...)
			}
			return out
		}
		for _, s := range g.succ[x] {
			if _, ok := prev[s]; !ok {
				prev[s] = x
				queue = append(queue, s)
			}
		}
	}
	return nil
}

// ReachableFrom returns the set of functions reachable from root.
func (g *RootGraph) ReachableFrom(root *ssa.Function) map[*ssa.Function]bool {
	seen := map[*ssa.Function]bool{}
	var walk func(x *ssa.Function)
	walk = func(x *ssa.Function) {
		if seen[x] {
			return
		}
		seen[x] = true
		for _, s := range g.succ[x] {
			walk(s)
		}
	}
	walk(root)
	return seen
}
