package engine

import (
	"go/types"
	"sort"

	"golang.org/x/tools/go/ssa"
)

// Goroutine-root reachability (engine E3).
//
// Edges: static callees, and interface invokes resolved through the call graph
// (CHA in the quick tier, VTA in thorough).  Calls through plain function
// values are *not* followed (they are opaque hand-offs: hooks, callbacks); a
// rule that needs one binds the function literal at the call site itself.
// MakeClosure/function-literal arguments passed to a static or invoked callee
// are treated as called by the caller (the module's higher-order entry points
// — Transaction, AllocateAndBuildMessage, WithPeerTopics — run them synchronously).

type RootGraph struct {
	P       *Program
	succ    map[*ssa.Function][]*ssa.Function
	pred    map[*ssa.Function][]*ssa.Function
	GoRoots map[*ssa.Function][]*ssa.Go // go-statement targets in shipped module code
}

func BuildRootGraph(p *Program) *RootGraph {
	g := &RootGraph{P: p, succ: map[*ssa.Function][]*ssa.Function{}, pred: map[*ssa.Function][]*ssa.Function{}, GoRoots: map[*ssa.Function][]*ssa.Go{}}
	cg, _ := p.CallGraph()
	add := func(a, b *ssa.Function) {
		if a == nil || b == nil || b.Blocks == nil || !InModule(FuncPkgPath(b)) {
			return
		}
		g.succ[a] = append(g.succ[a], b)
		g.pred[b] = append(g.pred[b], a)
	}
	for _, f := range p.SrcFuncs() {
		node := cg.Nodes[f]
		Instrs(f, func(in ssa.Instruction) {
			ci, ok := in.(ssa.CallInstruction)
			if !ok {
				return
			}
			c := ci.Common()
			if goi, isGo := in.(*ssa.Go); isGo {
				if t := funcValueTarget(c.Value); t != nil && c.StaticCallee() != nil {
					g.GoRoots[c.StaticCallee()] = append(g.GoRoots[c.StaticCallee()], goi)
				} else if t != nil {
					g.GoRoots[t] = append(g.GoRoots[t], goi)
				}
				return // a go statement starts a new root: no edge
			}
			if sc := c.StaticCallee(); sc != nil {
				add(f, sc)
			} else if !c.IsInvoke() {
				// a call through a function value taken from a package-level function table
				for _, t := range FuncTableTargets(c.Value) {
					add(f, t)
				}
			} else if c.IsInvoke() && node != nil {
				for _, e := range node.Out {
					if e.Site == ci && e.Callee != nil {
						add(f, e.Callee.Func)
					}
				}
			}
			// function literals handed to a callee run on this goroutine
			for _, a := range c.Args {
				if t := funcValueTarget(a); t != nil && t.Parent() != nil {
					add(f, t)
				}
			}
		})
	}
	return g
}

func funcValueTarget(v ssa.Value) *ssa.Function {
	for {
		switch x := v.(type) {
		case *ssa.Function:
			return x
		case *ssa.MakeClosure:
			f, _ := x.Fn.(*ssa.Function)
			return f
		case *ssa.ChangeType:
			v = x.X
		case *ssa.MakeInterface:
			v = x.X
		default:
			return nil
		}
	}
}

// RootsReaching returns the go-statement roots from which f is reachable, and
// whether f is also reachable from a function with no in-module caller that is
// not a go root (an API entry point running on the caller's goroutine).
func (g *RootGraph) RootsReaching(f *ssa.Function) (roots []*ssa.Function, viaAPI []*ssa.Function) {
	seen := map[*ssa.Function]bool{}
	var walk func(x *ssa.Function)
	walk = func(x *ssa.Function) {
		if seen[x] {
			return
		}
		seen[x] = true
		if _, isRoot := g.GoRoots[x]; isRoot {
			roots = append(roots, x)
		}
		if len(g.pred[x]) == 0 {
			if _, isRoot := g.GoRoots[x]; !isRoot {
				viaAPI = append(viaAPI, x)
			}
		}
		for _, p := range g.pred[x] {
			walk(p)
		}
	}
	walk(f)
	sort.Slice(roots, func(i, j int) bool { return roots[i].String() < roots[j].String() })
	sort.Slice(viaAPI, func(i, j int) bool { return viaAPI[i].String() < viaAPI[j].String() })
	return
}

// Path returns one call path root -> ... -> f (function names), for diagnostics.
func (g *RootGraph) Path(root, f *ssa.Function) []string {
	prev := map[*ssa.Function]*ssa.Function{root: nil}
	queue := []*ssa.Function{root}
	for len(queue) > 0 {
		x := queue[0]
		queue = queue[1:]
		if x == f {
			var out []string
			for y := f; y != nil; y = prev[y] {
				out = append([]string{FuncName(y)}, out...)
			}
			return out
		}
		for _, s := range g.succ[x] {
			if _, ok := prev[s]; !ok {
				prev[s] = x
				queue = append(queue, s)
			}
		}
	}
	return nil
}

// ReachableFrom returns the set of functions reachable from root.
func (g *RootGraph) ReachableFrom(root *ssa.Function) map[*ssa.Function]bool {
	seen := map[*ssa.Function]bool{}
	var walk func(x *ssa.Function)
	walk = func(x *ssa.Function) {
		if seen[x] {
			return
		}
		seen[x] = true
		for _, s := range g.succ[x] {
			walk(s)
		}
	}
	walk(root)
	return seen
}

// FuncTableTargets: if v is an element of a package-level slice/array/map of
// functions (ranged over or indexed), the functions stored in that table by its
// package's init, in index order.  Nil if v is not provably such an element.
func FuncTableTargets(v ssa.Value) []*ssa.Function {
	g := tableGlobalOf(v, 6)
	if g == nil || g.Pkg == nil {
		// a table written out where it is used: `for _, step := range []func(...){a, b, c}`
		if al := tableLocalOf(v, 8); al != nil {
			return localFuncTable(al)
		}
		return nil
	}
	return FuncTable(g)
}

func tableLocalOf(v ssa.Value, depth int) *ssa.Alloc {
	if depth == 0 || v == nil {
		return nil
	}
	switch x := v.(type) {
	case *ssa.Alloc:
		if pt, ok := x.Type().Underlying().(*types.Pointer); ok {
			if _, isArr := pt.Elem().Underlying().(*types.Array); isArr {
				return x
			}
		}
		return nil
	case *ssa.Slice:
		return tableLocalOf(x.X, depth-1)
	case *ssa.UnOp:
		return tableLocalOf(x.X, depth-1)
	case *ssa.IndexAddr:
		return tableLocalOf(x.X, depth-1)
	case *ssa.Index:
		return tableLocalOf(x.X, depth-1)
	case *ssa.Extract:
		return tableLocalOf(x.Tuple, depth-1)
	case *ssa.Next:
		return tableLocalOf(x.Iter, depth-1)
	case *ssa.Range:
		return tableLocalOf(x.X, depth-1)
	case *ssa.ChangeType:
		return tableLocalOf(x.X, depth-1)
	case *ssa.Phi:
		for _, e := range x.Edges {
			if a := tableLocalOf(e, depth-1); a != nil {
				return a
			}
		}
	}
	return nil
}

// localFuncTable: the functions stored at constant indices of a local array, in index order (every slot must hold one).
func localFuncTable(al *ssa.Alloc) []*ssa.Function {
	byIdx := map[int64]*ssa.Function{}
	var max int64 = -1
	other := false
	for _, r := range *al.Referrers() {
		ia, ok := r.(*ssa.IndexAddr)
		if !ok {
			continue
		}
		k, isK := ConstInt(ia.Index)
		for _, rr := range *ia.Referrers() {
			st, ok := rr.(*ssa.Store)
			if !ok || st.Addr != ssa.Value(ia) {
				continue
			}
			fn := funcValueTarget(st.Val)
			if !isK || fn == nil {
				other = true
				continue
			}
			byIdx[k] = fn
			if k > max {
				max = k
			}
		}
	}
	if other {
		return nil
	}
	var out []*ssa.Function
	for i := int64(0); i <= max; i++ {
		if byIdx[i] == nil {
			return nil
		}
		out = append(out, byIdx[i])
	}
	return out
}

func tableGlobalOf(v ssa.Value, depth int) *ssa.Global {
	if depth == 0 || v == nil {
		return nil
	}
	switch x := v.(type) {
	case *ssa.Global:
		return x
	case *ssa.UnOp:
		return tableGlobalOf(x.X, depth-1)
	case *ssa.IndexAddr:
		return tableGlobalOf(x.X, depth-1)
	case *ssa.Index:
		return tableGlobalOf(x.X, depth-1)
	case *ssa.Lookup:
		return tableGlobalOf(x.X, depth-1)
	case *ssa.Extract:
		return tableGlobalOf(x.Tuple, depth-1)
	case *ssa.Next:
		return tableGlobalOf(x.Iter, depth-1)
	case *ssa.Range:
		return tableGlobalOf(x.X, depth-1)
	case *ssa.ChangeType:
		return tableGlobalOf(x.X, depth-1)
	case *ssa.Phi:
		for _, e := range x.Edges {
			if g := tableGlobalOf(e, depth-1); g != nil {
				return g
			}
		}
	}
	return nil
}

// FuncTable returns the functions stored into global g's backing array by the package initialiser, in index order.
func FuncTable(g *ssa.Global) []*ssa.Function {
	init := g.Pkg.Func("init")
	if init == nil || init.Blocks == nil {
		return nil
	}
	var backing ssa.Value
	Instrs(init, func(in ssa.Instruction) {
		if st, ok := in.(*ssa.Store); ok && st.Addr == ssa.Value(g) {
			switch y := st.Val.(type) {
			case *ssa.Slice:
				backing = y.X
			default:
				backing = st.Val
			}
		}
	})
	if backing == nil {
		return nil
	}
	byIdx := map[int64]*ssa.Function{}
	var max int64 = -1
	Instrs(init, func(in ssa.Instruction) {
		st, ok := in.(*ssa.Store)
		if !ok {
			return
		}
		ia, ok := st.Addr.(*ssa.IndexAddr)
		if !ok || ia.X != backing {
			return
		}
		k, ok := ConstInt(ia.Index)
		if !ok {
			return
		}
		if fn := funcValueTarget(st.Val); fn != nil {
			byIdx[k] = fn
			if k > max {
				max = k
			}
		}
	})
	var out []*ssa.Function
	for i := int64(0); i <= max; i++ {
		if f := byIdx[i]; f != nil {
			out = append(out, f)
		}
	}
	return out
}
