package engine

import (
	"encoding/json"
	"fmt"
	"go/token"
	"os"
	"path/filepath"
	"sort"
	"strings"
)

// Verdict of one rule instance.
type Verdict string

const (
	Holds     Verdict = "holds"
	Violates  Verdict = "violates"
	Undecided Verdict = "undecided" // unrecognised idiom / unresolved anchor: counts as a failure
)

// Instance is one evaluated obligation: a rule applied to a specific construct.
type Instance struct {
	Rule    string  `json:"rule"`
	Key     string  `json:"key"` // rule id | construct (function, callee, field) — never a line number
	Pos     string  `json:"pos"`
	Verdict Verdict `json:"verdict"`
	Reason  string  `json:"reason"`
	Known   bool    `json:"known_finding,omitempty"`
}

// RuleInfo describes a rule of a property's table.
type RuleInfo struct {
	ID        string `json:"id"`
	Statement string `json:"statement"`
	Floor     int    `json:"floor"`     // hand-confirmed lower bound on instances
	Instances int    `json:"instances"` // measured
	Thorough  bool   `json:"thorough_only,omitempty"`
}

// Ctx is handed to a property's rule function.
type Ctx struct {
	P        *Program
	Prop     string
	Thorough bool

	rules     []*RuleInfo
	ruleByID  map[string]*RuleInfo
	instances []Instance
	funcs     map[string]bool // functions analysed (for evidence)
	notes     []string
}

func NewCtx(p *Program, prop string, thorough bool) *Ctx {
	return &Ctx{P: p, Prop: prop, Thorough: thorough, ruleByID: map[string]*RuleInfo{}, funcs: map[string]bool{}}
}

// Rule registers a rule (id without the property prefix, e.g. "R1").
func (c *Ctx) Rule(id, statement string, floor int) string {
	full := c.Prop + "." + id
	if _, ok := c.ruleByID[full]; !ok {
		r := &RuleInfo{ID: full, Statement: statement, Floor: floor}
		c.rules = append(c.rules, r)
		c.ruleByID[full] = r
	}
	return full
}

func (c *Ctx) add(rule, construct string, pos token.Pos, v Verdict, reason string) {
	full := rule
	if !strings.HasPrefix(rule, c.Prop+".") {
		full = c.Prop + "." + rule
	}
	r := c.ruleByID[full]
	if r == nil {
		panic("instance for unregistered rule " + full)
	}
	r.Instances++
	c.instances = append(c.instances, Instance{
		Rule: full, Key: full + "|" + construct, Pos: c.P.Pos(pos), Verdict: v, Reason: reason,
	})
}

// Hold records an instance on which the rule's condition is established.
func (c *Ctx) Hold(rule, construct string, pos token.Pos, reason string) {
	c.add(rule, construct, pos, Holds, reason)
}

// Violate records an instance on which the rule's condition fails.
func (c *Ctx) Violate(rule, construct string, pos token.Pos, reason string) {
	c.add(rule, construct, pos, Violates, reason)
}

// Undecided records an instance the rule could not decide (fails the check).
func (c *Ctx) Undecided(rule, construct string, pos token.Pos, reason string) {
	c.add(rule, construct, pos, Undecided, reason)
}

// Decide records holds/violates from a boolean.
func (c *Ctx) Decide(rule, construct string, pos token.Pos, ok bool, okReason, badReason string) {
	if ok {
		c.Hold(rule, construct, pos, okReason)
	} else {
		c.Violate(rule, construct, pos, badReason)
	}
}

// AnchorMissing records that a construct the rule is anchored on no longer exists.
func (c *Ctx) AnchorMissing(rule, construct string) {
	c.add(rule, construct, token.NoPos, Undecided, "anchor missing: "+construct+" not found in the current tree")
}

// Analysed notes a function as analysed (evidence only).
func (c *Ctx) Analysed(names ...string) {
	for _, n := range names {
		c.funcs[n] = true
	}
}

// Note adds a free-text note to the evidence.
func (c *Ctx) Note(format string, a ...any) { c.notes = append(c.notes, fmt.Sprintf(format, a...)) }

// ---------------------------------------------------------------------------
// known findings

type KnownFinding struct {
	Property string `json:"property"`
	Rule     string `json:"rule"`
	Key      string `json:"key"`
	What     string `json:"what"`
}

type KnownFile struct {
	Known []KnownFinding `json:"known"`
	Fixed []string       `json:"fixed"`
}

func LoadKnown(path string) (*KnownFile, error) {
	b, err := os.ReadFile(path)
	if err != nil {
		if os.IsNotExist(err) {
			return &KnownFile{}, nil
		}
		return nil, err
	}
	var k KnownFile
	if err := json.Unmarshal(b, &k); err != nil {
		return nil, fmt.Errorf("%s: %w", path, err)
	}
	return &k, nil
}

// ---------------------------------------------------------------------------
// result + evidence

type PropMeta struct {
	ID          string
	Title       string
	Explanation string   // clause decided / not decided
	Assumptions []string // trusted base / assumptions
	Technique   string
}

type Result struct {
	Violations int
	Known      int
	Lines      []string // lines to print
}

// Finish evaluates floors and known findings, writes the evidence file and
// returns the lines to print and the number of unlisted violations.
func (c *Ctx) Finish(meta PropMeta, known *KnownFile, evidenceDir string, tier string, seed int64, wall float64) (*Result, error) {
	res := &Result{}
	// floors
	for _, r := range c.rules {
		if r.Instances < r.Floor {
			c.instances = append(c.instances, Instance{
				Rule: r.ID, Key: r.ID + "|<floor>", Pos: "-", Verdict: Undecided,
				Reason: fmt.Sprintf("anchor missing: rule matched %d instance(s), hand-confirmed floor is %d — the mechanism this rule is anchored on has been removed or renamed", r.Instances, r.Floor),
			})
		}
	}
	knownKeys := map[string]KnownFinding{}
	for _, k := range known.Known {
		if k.Property == c.Prop {
			knownKeys[k.Key] = k
		}
	}
	sort.SliceStable(c.instances, func(i, j int) bool {
		a, b := c.instances[i], c.instances[j]
		if a.Rule != b.Rule {
			return ruleLess(a.Rule, b.Rule)
		}
		return a.Key < b.Key
	})
	distinct := map[string]bool{}
	discharged := 0
	seenKnown := map[string]bool{}
	vIdx := 0
	_ = os.MkdirAll(evidenceDir, 0o755)
	// remove stale violation files of this property
	if old, _ := filepath.Glob(filepath.Join(evidenceDir, c.Prop+".violation.*.json")); old != nil {
		for _, f := range old {
			os.Remove(f)
		}
	}
	for i := range c.instances {
		in := &c.instances[i]
		distinct[in.Key] = true
		switch in.Verdict {
		case Holds:
			discharged++
		default:
			if k, ok := knownKeys[in.Key]; ok {
				in.Known = true
				res.Known++
				if !seenKnown[in.Key] {
					seenKnown[in.Key] = true
					res.Lines = append(res.Lines, fmt.Sprintf("KNOWN-FINDING: property=%s %s [%s at %s] %s", c.Prop, k.What, in.Key, in.Pos, in.Reason))
				}
				continue
			}
			res.Violations++
			vIdx++
			vp := filepath.Join(evidenceDir, fmt.Sprintf("%s.violation.%d.json", c.Prop, vIdx))
			vb, _ := json.MarshalIndent(map[string]any{
				"property": c.Prop, "instance": in, "tier": tier,
				"how_to_replay": fmt.Sprintf("/verif/check.sh %s %s   # static: re-analyses /repo's working tree; the instance above names the construct", c.Prop, tier),
			}, "", " ")
			_ = os.WriteFile(vp, vb, 0o644)
			res.Lines = append(res.Lines, fmt.Sprintf("  %s %s at %s: %s", strings.ToUpper(string(in.Verdict)), in.Key, in.Pos, in.Reason))
			res.Lines = append(res.Lines, fmt.Sprintf("VIOLATION property=%s replay=%s", c.Prop, vp))
		}
	}

	// evidence
	var fnames []string
	for f := range c.funcs {
		fnames = append(fnames, f)
	}
	sort.Strings(fnames)
	samples := make([]Instance, 0, len(c.instances))
	samples = append(samples, c.instances...)
	var pkgs []string
	for _, pk := range c.P.Pkgs {
		pkgs = append(pkgs, pk.PkgPath)
	}
	cov := map[string]any{
		"explanation":         meta.Explanation,
		"obligations":         len(c.instances),
		"discharged":          discharged,
		"known_findings":      res.Known,
		"evaluations":         len(c.instances),
		"distinct_nontrivial": len(distinct),
		"rule":                "an obligation is one (rule, construct) pair enumerated by a type-resolved query over the SSA/AST of /repo's working tree; distinct = distinct keys; every enumerated instance is non-trivial (it matched the rule's anchor and had its condition evaluated)",
		"samples":             samples,
		"exhaustive":          true,
		"rules":               c.rules,
		"packages_loaded":     len(pkgs),
		"packages":            pkgs,
		"functions_analysed":  fnames,
		"module_functions":    len(c.P.SrcFuncs()),
		"checker_cmd":         fmt.Sprintf("/verif/check.sh %s %s", c.Prop, tier),
		"trusted_base":        meta.Assumptions,
		"load_seconds":        c.P.LoadSecs,
		"notes":               c.notes,
	}
	if c.P.cg != nil {
		cov["callgraph"] = map[string]any{"algo": c.P.cgAlgo, "nodes": len(c.P.cg.Nodes)}
	}
	ev := map[string]any{
		"property_id": c.Prop,
		"tier":        tier,
		"seed":        seed,
		"level":       "other",
		"coverage":    cov,
		"assumptions": meta.Assumptions,
		"wall_s":      wall,
		"violations":  res.Violations,
		"technique":   meta.Technique,
	}
	b, err := json.MarshalIndent(ev, "", " ")
	if err != nil {
		return nil, err
	}
	if err := os.WriteFile(filepath.Join(evidenceDir, c.Prop+".json"), append(b, '\n'), 0o644); err != nil {
		return nil, err
	}
	return res, nil
}

func ruleLess(a, b string) bool {
	// C01.R10 after C01.R2
	na, nb := ruleNum(a), ruleNum(b)
	if na != nb {
		return na < nb
	}
	return a < b
}

func ruleNum(s string) int {
	i := strings.Index(s, ".R")
	if i < 0 {
		return 0
	}
	n := 0
	for _, ch := range s[i+2:] {
		if ch < '0' || ch > '9' {
			break
		}
		n = n*10 + int(ch-'0')
	}
	return n
}

// Table renders the per-rule summary table.
func (c *Ctx) Table() []string {
	var out []string
	for _, r := range c.rules {
		h, v, u := 0, 0, 0
		for _, in := range c.instances {
			if in.Rule != r.ID {
				continue
			}
			switch in.Verdict {
			case Holds:
				h++
			case Violates:
				v++
			default:
				u++
			}
		}
		out = append(out, fmt.Sprintf("  %-8s instances=%-3d floor=%-3d holds=%-3d violates=%-2d undecided=%-2d  %s", r.ID, r.Instances, r.Floor, h, v, u, r.Statement))
	}
	return out
}

// Instances exposes the recorded instances (for fixtures/tests).
func (c *Ctx) Instances() []Instance { return c.instances }
