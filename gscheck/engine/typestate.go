package engine

import "golang.org/x/tools/go/ssa"

// Typestate (two-state may-analysis): tracks whether an object may be "dirty"
// at each program point.  Dirty is set by Dirty events and cleared by Clean
// events; Check events are reported when reached in a may-dirty state.
// Boolean helpers may be summarised per result (BranchEvent).

type TSAction int

const (
	TSNone TSAction = iota
	TSDirty
	TSClean
	TSCheck
)

type TSCfg struct {
	Action func(in ssa.Instruction) TSAction
	// Branch: for `if helper(...)`, the effect of the call when it returns true / false.
	Branch func(call *ssa.Call) (onTrue, onFalse TSAction, ok bool)
	// CheckAtReturn: returning while dirty is a violation.
	CheckAtReturn bool
}

type TSViolation struct {
	At ssa.Instruction
}

const (
	tsClean uint8 = 1
	tsDirty uint8 = 2
)

func applyTS(state uint8, a TSAction) uint8 {
	switch a {
	case TSDirty:
		if state != 0 {
			return tsDirty
		}
	case TSClean:
		if state != 0 {
			return tsClean
		}
	}
	return state
}

// RunTypestate analyses f starting clean (or dirty) and returns the check
// instructions reached while possibly dirty, and the may-state at each return.
func RunTypestate(f *ssa.Function, startDirty bool, cfg TSCfg) (viol []TSViolation, atReturn map[*ssa.Return]uint8) {
	atReturn = map[*ssa.Return]uint8{}
	if len(f.Blocks) == 0 {
		return
	}
	in := map[*ssa.BasicBlock]uint8{}
	init := tsClean
	if startDirty {
		init = tsDirty
	}
	in[f.Blocks[0]] = init
	work := []*ssa.BasicBlock{f.Blocks[0]}
	violSeen := map[ssa.Instruction]bool{}
	for len(work) > 0 {
		b := work[0]
		work = work[1:]
		cur := in[b]
		for _, instr := range b.Instrs {
			if call, ok := instr.(*ssa.Call); ok && cfg.Branch != nil {
				if _, _, ok := cfg.Branch(call); ok && usedOnlyAsBranch(call) {
					continue
				}
			}
			a := cfg.Action(instr)
			if a == TSCheck {
				if cur&tsDirty != 0 && !violSeen[instr] {
					violSeen[instr] = true
					viol = append(viol, TSViolation{instr})
				}
				continue
			}
			cur = applyTS(cur, a)
			if r, ok := instr.(*ssa.Return); ok {
				atReturn[r] |= cur
				if cfg.CheckAtReturn && cur&tsDirty != 0 && !violSeen[instr] {
					violSeen[instr] = true
					viol = append(viol, TSViolation{instr})
				}
			}
		}
		push := func(s *ssa.BasicBlock, v uint8) {
			if in[s]|v != in[s] {
				in[s] |= v
				work = append(work, s)
			}
		}
		if ifi, ok := b.Instrs[len(b.Instrs)-1].(*ssa.If); ok && cfg.Branch != nil {
			conds := flatten(Cond{V: ifi.Cond, Pol: true, If: ifi})
			if call, ok := conds[0].V.(*ssa.Call); ok && call.Block() == b {
				if t, fl, ok := cfg.Branch(call); ok && usedOnlyAsBranch(call) {
					if !conds[0].Pol {
						t, fl = fl, t
					}
					push(b.Succs[0], applyTS(cur, t))
					push(b.Succs[1], applyTS(cur, fl))
					continue
				}
			}
		}
		for _, s := range b.Succs {
			push(s, cur)
		}
	}
	return
}

// BoolHelperTypestate summarises a bool helper entered clean: the action it
// amounts to when it returns true and when it returns false.
func BoolHelperTypestate(f *ssa.Function, cfg TSCfg) (onTrue, onFalse TSAction, ok bool) {
	if f == nil || f.Blocks == nil || f.Signature.Results().Len() != 1 {
		return 0, 0, false
	}
	inner := cfg
	inner.CheckAtReturn = false
	_, rets := RunTypestate(f, false, inner)
	var t, fl uint8
	for r, st := range rets {
		b, isConst := ConstBool(ReturnValue(r, 0))
		if !isConst {
			return 0, 0, false
		}
		if b {
			t |= st
		} else {
			fl |= st
		}
	}
	conv := func(s uint8) TSAction {
		if s&tsDirty != 0 {
			return TSDirty
		}
		return TSNone
	}
	return conv(t), conv(fl), true
}
