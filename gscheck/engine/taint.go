package engine

import (
	"fmt"
	"os"
	"go/token"
	"go/types"
	"sort"
	"strings"

	"golang.org/x/tools/go/ssa"
)

// Wire-identity taint (used by C09, C10, C01.R6).
//
// A request ID arriving in a message from peer p is a *claim*: nothing says the
// table entry it names belongs to p.  The analysis follows wire values
// (sources) through the handler and its callees and reports every *effect*
// performed through a table entry obtained with such an ID — or, in
// default-deny mode, every escape of the value to code the analysis cannot see
// into — unless the use is dominated, on every path, by a test that the entry
// is absent or that entry.<peerField> equals an untainted peer value.

type TaintCfg struct {
	P           *Program
	Table       *types.Var // map field keyed by request ID
	PeerField   *types.Var // field of the entry struct holding the owning peer
	DefaultDeny bool       // C09: any escape of an unverified wire value to unanalysable code is a sink
	// AllowExternal: callees (no body / interface / outside module) that may receive tainted values.
	AllowExternal func(ci CallInfo) bool
	MaxDepth      int
	// Observer: pure observers (loggers, formatters) that may be handed values read from an unverified entry.
	Observer func(ci CallInfo) bool
	// Transparent (default-deny mode): module callees outside the root's package that
	// may be descended into (pure accessor packages).
	Transparent func(f *ssa.Function) bool
	// KeyedSink: calls that create or address per-ID state outside the table (e.g. a response stream and its
	// subscriber, which later act on the table by ID alone): an unverified wire ID as argument is a sink.
	KeyedSink func(ci CallInfo) (what string, ok bool)

	memo      map[string]*TaintSummary
	reachMemo map[*ssa.Function]bool
	Analysed  map[string]bool
}

type TaintSink struct {
	Pos   token.Pos
	Fn    *ssa.Function
	What  string
	Chain []string // call chain from the root
	Kind  string   // stable kind for keys
}

type TaintSummary struct {
	Sinks      []TaintSink
	RetTainted bool
	Undecided  []TaintSink
	// Return facts of a helper (indices are parameter positions of the analysed function):
	// RetSafe[r][pol] = parameters whose wire value is established safe (entry absent, or entry
	// owned by an untainted peer) on every path returning a boolean result r that can equal pol.
	RetSafe map[int]map[bool]map[int]bool
	// RetEntry[r] = i: every non-nil value returned as result r is the table entry looked up with parameter i.
	RetEntry map[int]int
}

type tval struct {
	origins map[ssa.Value]bool
	entry   bool // derived from a table lookup with a tainted key
}

func (t *tval) has() bool { return t != nil && len(t.origins) > 0 }

// AnalyzeRoot analyses fn with the given source values (parameters, free
// variables, or instruction values inside fn such as field loads) tainted.
func (cfg *TaintCfg) AnalyzeRoot(fn *ssa.Function, sources []ssa.Value) *TaintSummary {
	if cfg.memo == nil {
		cfg.memo = map[string]*TaintSummary{}
		cfg.reachMemo = map[*ssa.Function]bool{}
		cfg.Analysed = map[string]bool{}
	}
	if cfg.MaxDepth == 0 {
		cfg.MaxDepth = 12
	}
	return cfg.analyze(fn, sources, nil, 0)
}

func (cfg *TaintCfg) analyze(fn *ssa.Function, sources []ssa.Value, chain []string, depth int) *TaintSummary {
	key := fn.String() + "|"
	var ks []string
	for _, s := range sources {
		ks = append(ks, s.Name())
	}
	sort.Strings(ks)
	key += strings.Join(ks, ",")
	if s, ok := cfg.memo[key]; ok {
		if s == nil { // recursion in progress
			return &TaintSummary{}
		}
		return s
	}
	cfg.memo[key] = nil
	cfg.Analysed[FuncName(fn)] = true
	sum := &TaintSummary{}
	chain = append(append([]string{}, chain...), FuncName(fn))

	if depth > cfg.MaxDepth {
		sum.Undecided = append(sum.Undecided, TaintSink{Pos: fn.Pos(), Fn: fn, What: "call depth bound exceeded while following a wire-supplied ID", Chain: chain, Kind: "depth"})
		cfg.memo[key] = sum
		return sum
	}

	tv := map[ssa.Value]*tval{}
	get := func(v ssa.Value) *tval {
		if v == nil {
			return nil
		}
		return tv[v]
	}
	changed := true
	merge := func(dst ssa.Value, srcs ...*tval) {
		d := tv[dst]
		for _, s := range srcs {
			if !s.has() {
				continue
			}
			if d == nil {
				d = &tval{origins: map[ssa.Value]bool{}}
				tv[dst] = d
				changed = true
			}
			for o := range s.origins {
				if !d.origins[o] {
					d.origins[o] = true
					changed = true
				}
			}
			if s.entry && !d.entry {
				d.entry = true
				changed = true
			}
		}
	}
	newOrigin := func(v ssa.Value, entry bool) {
		if tv[v] == nil {
			tv[v] = &tval{origins: map[ssa.Value]bool{v: true}, entry: entry}
			changed = true
		}
	}
	for _, s := range sources {
		newOrigin(s, false)
	}

	isTableLoad := func(v ssa.Value) bool {
		f, _ := LoadedField(v)
		return f != nil && f == cfg.Table
	}

	// SAFE facts are computed lazily after propagation (they depend on tv); but
	// call summaries depend on SAFE (a sanitised argument is passed clean).  We
	// iterate: propagate -> safe -> propagate until stable.
	var safeIn map[*ssa.BasicBlock]map[ssa.Value]bool

	isSafeAt := func(b *ssa.BasicBlock, t *tval) bool {
		if !t.has() {
			return true
		}
		if safeIn == nil {
			return false
		}
		facts := safeIn[b]
		for o := range t.origins {
			if !facts[o] {
				return false
			}
		}
		return true
	}
	// effective taint of operand v used by an instruction in block b
	eff := func(b *ssa.BasicBlock, v ssa.Value) *tval {
		t := get(v)
		if !t.has() || isSafeAt(b, t) {
			return nil
		}
		return t
	}

	type callRes struct {
		sum  *TaintSummary
		args []ssa.Value
	}
	callSums := map[ssa.Instruction]*TaintSummary{}

	propagate := func() {
		for changed {
			changed = false
			for _, b := range fn.Blocks {
				for _, in := range b.Instrs {
					switch x := in.(type) {
					case *ssa.UnOp:
						if x.Op == token.MUL {
							// element of a tainted slice: new origin per element
							if ia, ok := x.X.(*ssa.IndexAddr); ok && get(ia.X).has() && !get(ia.X).entry {
								newOrigin(x, false)
								continue
							}
						}
						merge(x, get(x.X))
					case *ssa.FieldAddr:
						merge(x, get(x.X))
					case *ssa.Field:
						merge(x, get(x.X))
					case *ssa.IndexAddr:
						merge(x, get(x.X))
					case *ssa.Index:
						if get(x.X).has() && !get(x.X).entry {
							newOrigin(x, false)
							continue
						}
						merge(x, get(x.X))
					case *ssa.Lookup:
						if isTableLoad(x.X) && get(x.Index).has() {
							if tv[x] == nil {
								tv[x] = &tval{origins: map[ssa.Value]bool{}, entry: true}
								changed = true
							}
							merge(x, get(x.Index))
							tv[x].entry = true
							continue
						}
						merge(x, get(x.X), get(x.Index))
					case *ssa.Extract:
						// range-next element of a tainted slice/map
						if nx, ok := x.Tuple.(*ssa.Next); ok && x.Index == 2 {
							if r, ok := nx.Iter.(*ssa.Range); ok && get(r.X).has() {
								newOrigin(x, false)
								continue
							}
						}
						if call, ok := x.Tuple.(*ssa.Call); ok {
							if cs := callSums[call]; cs != nil && cs.RetEntry != nil {
								if _, isEntry := cs.RetEntry[x.Index]; !isEntry {
									merge(x, stripEntry(get(x.Tuple)))
									continue
								}
							}
						}
						if x.Index == 0 || !isCommaOk(x.Tuple) {
							merge(x, get(x.Tuple))
						}
					case *ssa.Phi:
						for _, e := range x.Edges {
							merge(x, get(e))
						}
					case *ssa.ChangeType:
						merge(x, get(x.X))
					case *ssa.Convert:
						merge(x, get(x.X))
					case *ssa.MakeInterface:
						merge(x, get(x.X))
					case *ssa.ChangeInterface:
						merge(x, get(x.X))
					case *ssa.TypeAssert:
						merge(x, get(x.X))
					case *ssa.Slice:
						merge(x, get(x.X))
					case *ssa.Range:
						merge(x, get(x.X))
					case *ssa.Next:
						merge(x, get(x.Iter))
					case *ssa.Store:
						// spill to a local: the local carries the taint
						if al, ok := x.Addr.(*ssa.Alloc); ok {
							if t := eff(b, x.Val); t != nil {
								merge(al, t)
							}
						} else if fa, ok := x.Addr.(*ssa.FieldAddr); ok {
							// struct literal under construction (local alloc base): field carries taint into the struct
							if al, ok := fa.X.(*ssa.Alloc); ok {
								if t := eff(b, x.Val); t != nil {
									merge(al, t)
								}
							}
						} else if ia, ok := x.Addr.(*ssa.IndexAddr); ok {
							if al, ok := ia.X.(*ssa.Alloc); ok { // varargs array
								if t := eff(b, x.Val); t != nil {
									merge(al, t)
								}
							}
						}
					case *ssa.MakeClosure:
						for _, bd := range x.Bindings {
							if t := eff(b, bd); t != nil {
								merge(x, t)
							}
						}
					case *ssa.Call:
						cfg.propCall(fn, b, x, x, eff, get, merge, callSums, chain, depth)
					}
				}
			}
		}
	}

	var curIn map[*ssa.BasicBlock]map[ssa.Value]bool // IN facts of the must-dataflow in progress (or finished)
	genBusy := map[*ssa.Phi]bool{}
	var genFn func(p, s *ssa.BasicBlock) map[ssa.Value]bool
	gen := func(p, s *ssa.BasicBlock) map[ssa.Value]bool {
		ifi, ok := p.Instrs[len(p.Instrs)-1].(*ssa.If)
		if !ok || len(p.Succs) != 2 || p.Succs[0] == p.Succs[1] {
			return nil
		}
		pol := p.Succs[0] == s
		out := map[ssa.Value]bool{}
		for _, c := range flatten(Cond{V: ifi.Cond, Pol: pol, If: ifi}) {
			for o := range cfg.condSanitises(fn, c, tv, chain, depth) {
				out[o] = true
			}
			// a value assembled on the way in and then compared (`owner == p` where owner is a phi): per incoming edge, the
			// facts of that edge plus what the comparison says about that edge's own value; safe is what all edges agree on
			if e, ok := c.AsEq(); ok && curIn != nil {
				var ph *ssa.Phi
				var other ssa.Value
				if p, ok := e.X.(*ssa.Phi); ok {
					ph, other = p, e.Y
				} else if p, ok := e.Y.(*ssa.Phi); ok {
					ph, other = p, e.X
				}
				if ph != nil && !genBusy[ph] {
					genBusy[ph] = true
					var acc map[ssa.Value]bool
					for i, ev := range ph.Edges {
						pb := ph.Block().Preds[i]
						m := map[ssa.Value]bool{}
						for o := range curIn[pb] {
							m[o] = true
						}
						for o := range genFn(pb, ph.Block()) {
							m[o] = true
						}
						op := token.EQL
						syn := &ssa.BinOp{Op: op, X: ev, Y: other}
						for o := range cfg.condSanitises(fn, Cond{V: syn, Pol: e.Equal}, tv, chain, depth) {
							m[o] = true
						}
						if acc == nil {
							acc = m
						} else {
							for o := range acc {
								if !m[o] {
									delete(acc, o)
								}
							}
						}
					}
					delete(genBusy, ph)
					for o := range acc {
						out[o] = true
					}
				}
			}
			// a flag assembled on the way in (phi of booleans): what is safe is what is safe on every
			// incoming edge that can give the flag this value (facts of the predecessor + the edge's own)
			if ph, ok := c.V.(*ssa.Phi); ok && curIn != nil && !genBusy[ph] {
				if bt, ok := ph.Type().Underlying().(*types.Basic); ok && bt.Kind() == types.Bool {
					genBusy[ph] = true
					var acc map[ssa.Value]bool
					for i, e := range ph.Edges {
						if bv, isC := ConstBool(e); isC && bv != c.Pol {
							continue // this edge cannot give the flag this value
						}
						pb := ph.Block().Preds[i]
						m := map[ssa.Value]bool{}
						for o := range curIn[pb] {
							m[o] = true
						}
						for o := range genFn(pb, ph.Block()) {
							m[o] = true
						}
						if _, isC := ConstBool(e); !isC {
							for _, ec := range flatten(Cond{V: e, Pol: c.Pol}) {
								for o := range cfg.condSanitises(fn, ec, tv, chain, depth) {
									m[o] = true
								}
							}
						}
						if acc == nil {
							acc = m
						} else {
							for o := range acc {
								if !m[o] {
									delete(acc, o)
								}
							}
						}
					}
					delete(genBusy, ph)
					for o := range acc {
						out[o] = true
					}
				}
			}
		}
		return out
	}

	genFn = gen
	computeSafe := func() {
		// must-dataflow over blocks: IN[b] = ∩_{p∈preds} (IN[p] ∪ gen(p→b))
		all := map[ssa.Value]bool{}
		for _, t := range tv {
			for o := range t.origins {
				all[o] = true
			}
		}
		in := map[*ssa.BasicBlock]map[ssa.Value]bool{}
		top := func() map[ssa.Value]bool {
			m := map[ssa.Value]bool{}
			for o := range all {
				m[o] = true
			}
			return m
		}
		for i, b := range fn.Blocks {
			if i == 0 {
				in[b] = map[ssa.Value]bool{}
			} else {
				in[b] = top()
			}
		}
		curIn = in
		for iter := 0; iter < 50; iter++ {
			ch := false
			for i, b := range fn.Blocks {
				if i == 0 {
					continue
				}
				var acc map[ssa.Value]bool
				for _, p := range b.Preds {
					m := map[ssa.Value]bool{}
					for o := range in[p] {
						m[o] = true
					}
					for o := range gen(p, b) {
						m[o] = true
					}
					if acc == nil {
						acc = m
					} else {
						for o := range acc {
							if !m[o] {
								delete(acc, o)
							}
						}
					}
				}
				if acc == nil {
					acc = map[ssa.Value]bool{} // unreachable
				}
				if len(acc) != len(in[b]) {
					in[b] = acc
					ch = true
				}
			}
			if !ch {
				break
			}
		}
		safeIn = in
	}

	// iterate propagate / safe.  Taint sets only grow between rounds except via
	// SAFE (which can only suppress), so two rounds reach a stable answer: the
	// first computes an over-approximation without SAFE, the second recomputes
	// from scratch with SAFE known.
	propagate()
	computeSafe()
	// restart propagation with SAFE available
	tv = map[ssa.Value]*tval{}
	callSums = map[ssa.Instruction]*TaintSummary{}
	for _, s := range sources {
		newOrigin(s, false)
	}
	// origins must stay the same SSA values so SAFE facts apply
	changed = true
	propagate()
	computeSafe()

	// ---------------- sinks
	addSink := func(in ssa.Instruction, kind, what string) {
		sum.Sinks = append(sum.Sinks, TaintSink{Pos: in.Pos(), Fn: fn, What: what, Chain: chain, Kind: kind})
	}
	for _, b := range fn.Blocks {
		for _, in := range b.Instrs {
			switch x := in.(type) {
			case *ssa.Store:
				if t := eff(b, x.Addr); t != nil && t.entry && !isLocalAddr(x.Addr) {
					addSink(in, "store-through-entry", "writes "+describeAddr(x.Addr)+" of a table entry obtained with a wire-supplied ID, with no dominating check that the entry belongs to the sending peer")
				} else if cfg.DefaultDeny {
					if tv := eff(b, x.Val); tv != nil && !isLocalAddr(x.Addr) {
						addSink(in, "store-tainted", "stores an unverified wire value into shared state ("+describeAddr(x.Addr)+")")
					}
				}
			case *ssa.MapUpdate:
				if isTableLoad(x.Map) {
					if t := eff(b, x.Key); t != nil {
						addSink(in, "table-write", "writes the table under a wire-supplied ID with no dominating check that no entry exists or that the existing entry belongs to the sending peer")
					}
				} else if cfg.DefaultDeny {
					if t := eff(b, x.Value); t != nil && !isLocalMap(x.Map) {
						addSink(in, "store-tainted", "stores an unverified wire value into a shared map")
					}
				}
			case *ssa.Send:
				if t := eff(b, x.Chan); t != nil && t.entry {
					addSink(in, "send-through-entry", "sends on a channel of a table entry obtained with a wire-supplied ID without a peer check")
				}
			case *ssa.Select:
				for _, st := range x.States {
					if st.Dir == types.SendOnly {
						if t := eff(b, st.Chan); t != nil && t.entry {
							addSink(in, "send-through-entry", "sends on a channel of a table entry obtained with a wire-supplied ID without a peer check")
						}
					}
				}
			case *ssa.Return:
				for _, r := range x.Results {
					if t := eff(b, r); t != nil {
						sum.RetTainted = true
					}
				}
			case ssa.CallInstruction:
				if s := callSums[in]; s != nil {
					sum.Sinks = append(sum.Sinks, s.Sinks...)
					sum.Undecided = append(sum.Undecided, s.Undecided...)
					continue
				}
				// go / defer: analyse like a call
				if _, isCall := in.(*ssa.Call); !isCall {
					cfg.propCall(fn, b, x, nil, eff, get, func(ssa.Value, ...*tval) {}, callSums, chain, depth)
					if s := callSums[in]; s != nil {
						sum.Sinks = append(sum.Sinks, s.Sinks...)
						sum.Undecided = append(sum.Undecided, s.Undecided...)
						continue
					}
				}
				cfg.callSinks(fn, b, x, eff, isTableLoad, addSink)
			case *ssa.MakeClosure:
				// a closure capturing unverified values: analyse its body as if it ran here
				cl, ok := x.Fn.(*ssa.Function)
				if !ok {
					continue
				}
				var srcs []ssa.Value
				for i, bd := range x.Bindings {
					if t := eff(b, bd); t != nil && i < len(cl.FreeVars) {
						srcs = append(srcs, cl.FreeVars[i])
						if t.entry {
							// entry-ness must carry over: mark via a synthetic wrapper below
							srcs[len(srcs)-1] = cl.FreeVars[i]
						}
					}
				}
				if len(srcs) > 0 {
					s := cfg.analyzeClosure(cl, x, srcs, eff, b, chain, depth)
					sum.Sinks = append(sum.Sinks, s.Sinks...)
					sum.Undecided = append(sum.Undecided, s.Undecided...)
				}
			}
		}
	}
	// ---------------- return facts (helper summaries)
	paramIdx := map[ssa.Value]int{}
	for i, p := range fn.Params {
		paramIdx[p] = i
	}
	nres := fn.Signature.Results().Len()
	for r := 0; r < nres; r++ {
		if bt, ok := fn.Signature.Results().At(r).Type().Underlying().(*types.Basic); ok && bt.Kind() == types.Bool {
			// outcome sets: facts (safe origins) known when result r is false / true
			var sets [2][]map[ssa.Value]bool
			with := func(base map[ssa.Value]bool, v ssa.Value, pol bool) map[ssa.Value]bool {
				m := map[ssa.Value]bool{}
				for o := range base {
					m[o] = true
				}
				for _, c := range flatten(Cond{V: v, Pol: pol}) {
					for o := range cfg.condSanitises(fn, c, tv, chain, depth) {
						m[o] = true
					}
				}
				return m
			}
			var outcomes func(v ssa.Value, facts map[ssa.Value]bool, seen map[ssa.Value]bool)
			outcomes = func(v ssa.Value, facts map[ssa.Value]bool, seen map[ssa.Value]bool) {
				if bv, ok := ConstBool(v); ok {
					if bv {
						sets[1] = append(sets[1], facts)
					} else {
						sets[0] = append(sets[0], facts)
					}
					return
				}
				if ph, ok := v.(*ssa.Phi); ok {
					if seen[ph] {
						return
					}
					seen[ph] = true
					for i, e := range ph.Edges {
						p := ph.Block().Preds[i]
						f := map[ssa.Value]bool{}
						for o := range safeIn[p] {
							f[o] = true
						}
						for o := range gen(p, ph.Block()) {
							f[o] = true
						}
						outcomes(e, f, seen)
					}
					return
				}
				sets[1] = append(sets[1], with(facts, v, true))
				sets[0] = append(sets[0], with(facts, v, false))
			}
			for _, ret := range Returns(fn) {
				if r < len(ret.Results) {
					outcomes(ReturnValue(ret, r), safeIn[ret.Block()], map[ssa.Value]bool{})
				}
			}
			for pi, pol := range []bool{false, true} {
				if len(sets[pi]) == 0 {
					continue
				}
				for _, p := range fn.Params {
					if !tv[p].has() {
						continue
					}
					all := true
					for _, f := range sets[pi] {
						if !f[p] {
							all = false
							break
						}
					}
					if all {
						if sum.RetSafe == nil {
							sum.RetSafe = map[int]map[bool]map[int]bool{}
						}
						if sum.RetSafe[r] == nil {
							sum.RetSafe[r] = map[bool]map[int]bool{}
						}
						if sum.RetSafe[r][pol] == nil {
							sum.RetSafe[r][pol] = map[int]bool{}
						}
						sum.RetSafe[r][pol][paramIdx[p]] = true
					}
				}
			}
			continue
		}
		// entry-returning result
		pi, okAll, any := -1, true, false
		var isEntryOf func(v ssa.Value, seen map[ssa.Value]bool) bool
		isEntryOf = func(v ssa.Value, seen map[ssa.Value]bool) bool {
			if c, ok := v.(*ssa.Const); ok && c.Value == nil {
				return true // nil / zero value
			}
			if ph, ok := v.(*ssa.Phi); ok {
				if seen[ph] {
					return true
				}
				seen[ph] = true
				for _, e := range ph.Edges {
					if !isEntryOf(e, seen) {
						return false
					}
				}
				return true
			}
			t := tv[v]
			if t == nil || !t.entry || len(t.origins) != 1 {
				return false
			}
			if _, isLookup := entryRoot(Strip(v)); !isLookup {
				return false
			}
			for o := range t.origins {
				i, isParam := paramIdx[o]
				if !isParam || (pi >= 0 && pi != i) {
					return false
				}
				pi = i
			}
			any = true
			return true
		}
		for _, ret := range Returns(fn) {
			if r >= len(ret.Results) || !isEntryOf(ReturnValue(ret, r), map[ssa.Value]bool{}) {
				okAll = false
				break
			}
		}
		if okAll && any && pi >= 0 {
			if sum.RetEntry == nil {
				sum.RetEntry = map[int]int{}
			}
			sum.RetEntry[r] = pi
		}
	}

	if os.Getenv("GS_TAINT_DEBUG") != "" {
		fmt.Fprintf(os.Stderr, "TAINT %s srcs=%v RetSafe=%v RetEntry=%v RetTainted=%v\n", FuncName(fn), ks, sum.RetSafe, sum.RetEntry, sum.RetTainted)
	}
	// dedupe sinks
	sum.Sinks = dedupeSinks(sum.Sinks)
	sum.Undecided = dedupeSinks(sum.Undecided)
	cfg.memo[key] = sum
	return sum
}

func dedupeSinks(in []TaintSink) []TaintSink {
	seen := map[string]bool{}
	var out []TaintSink
	for _, s := range in {
		k := fmt.Sprintf("%d|%s|%s", s.Pos, s.Kind, s.What)
		if seen[k] {
			continue
		}
		seen[k] = true
		out = append(out, s)
	}
	return out
}

func isCommaOk(v ssa.Value) bool {
	switch x := v.(type) {
	case *ssa.Lookup:
		return x.CommaOk
	case *ssa.TypeAssert:
		return x.CommaOk
	case *ssa.UnOp:
		return x.CommaOk
	}
	return false
}

func isLocalAddr(a ssa.Value) bool {
	switch x := a.(type) {
	case *ssa.Alloc:
		return true
	case *ssa.FieldAddr:
		return isLocalAddr(x.X)
	case *ssa.IndexAddr:
		return isLocalAddr(x.X)
	}
	return false
}

func isLocalMap(m ssa.Value) bool {
	switch x := m.(type) {
	case *ssa.MakeMap:
		return true
	case *ssa.Phi:
		for _, e := range x.Edges {
			if !isLocalMap(e) {
				return false
			}
		}
		return true
	case *ssa.UnOp:
		if x.Op == token.MUL {
			if al, ok := x.X.(*ssa.Alloc); ok {
				_ = al
				return true
			}
		}
	}
	return false
}

func describeAddr(a ssa.Value) string {
	if fa, ok := a.(*ssa.FieldAddr); ok {
		if f := FieldOf(fa); f != nil {
			return "field " + f.Name()
		}
	}
	return "memory"
}

// analyzeClosure analyses a function literal whose free variables capture tainted values.
// Entry-ness of captured values is preserved by analysing with a per-closure config
// in which those free variables are pre-marked as entries.
func (cfg *TaintCfg) analyzeClosure(cl *ssa.Function, mc *ssa.MakeClosure, srcs []ssa.Value, eff func(*ssa.BasicBlock, ssa.Value) *tval, b *ssa.BasicBlock, chain []string, depth int) *TaintSummary {
	// Captured variables are *addresses* of locals (go/ssa captures by reference) or values.
	// If any captured binding is entry-derived we report uses inside the closure through
	// the normal machinery by treating loads of the freevar as entry-derived: simplest sound
	// treatment — analyse with sources; entry flag is approximated by checking below.
	s := cfg.analyze(cl, srcs, chain, depth+1)
	entryCaptured := false
	for _, bd := range mc.Bindings {
		if t := eff(b, bd); t != nil && t.entry {
			entryCaptured = true
		}
	}
	if entryCaptured {
		out := &TaintSummary{Sinks: append([]TaintSink{}, s.Sinks...), Undecided: s.Undecided}
		out.Sinks = append(out.Sinks, TaintSink{Pos: mc.Pos(), Fn: mc.Parent(), Kind: "entry-captured",
			What: "a function literal captures a table entry obtained with a wire-supplied ID before any peer check", Chain: chain})
		return out
	}
	return s
}

// propCall handles a call during propagation: computes (memoised) callee
// summary when analysable and propagates result taint.
func (cfg *TaintCfg) propCall(fn *ssa.Function, b *ssa.BasicBlock, ci ssa.CallInstruction, res ssa.Value,
	eff func(*ssa.BasicBlock, ssa.Value) *tval, get func(ssa.Value) *tval, merge func(ssa.Value, ...*tval),
	callSums map[ssa.Instruction]*TaintSummary, chain []string, depth int) {

	c := ci.Common()
	info := Resolve(ci)
	// builtins
	if bi, ok := c.Value.(*ssa.Builtin); ok {
		switch bi.Name() {
		case "append", "copy":
			if res != nil {
				for _, a := range c.Args {
					merge(res, eff(b, a))
				}
			}
		}
		return
	}
	var tainted []*tval
	anyT := false
	for _, a := range c.Args {
		t := eff(b, a)
		tainted = append(tainted, t)
		if t != nil {
			anyT = true
		}
	}
	var recvT *tval
	if c.IsInvoke() {
		recvT = eff(b, c.Value)
	} else if info.Static == nil {
		recvT = eff(b, c.Value) // calling a func value loaded from tainted data
	}
	if !anyT && recvT == nil {
		return
	}
	callee := c.StaticCallee()
	if callee != nil && callee.Blocks != nil && InModule(FuncPkgPath(callee)) && len(callee.FreeVars) == 0 {
		// an entry-derived argument handed to any callee is an effect through the entry: report here, do not descend
		for i, t := range tainted {
			if t != nil && t.entry {
				callSums[ci] = &TaintSummary{Sinks: []TaintSink{{
					Pos: ci.Pos(), Fn: fn, Kind: "entry-passed:" + FuncName(callee),
					What:  fmt.Sprintf("passes a table entry obtained with a wire-supplied ID (argument %d) to %s with no dominating peer check", i, FuncName(callee)),
					Chain: chain}}}
				if res != nil {
					merge(res, t)
				}
				return
			}
		}
		var srcs []ssa.Value
		for i, t := range tainted {
			if t != nil && i < len(callee.Params) {
				srcs = append(srcs, callee.Params[i])
			}
		}
		descend := cfg.reachesTable(callee, map[*ssa.Function]bool{})
		if cfg.DefaultDeny {
			// default-deny: only same-package code and the pure accessor packages are transparent
			descend = FuncPkgPath(callee) == FuncPkgPath(fn) || cfg.Transparent(callee)
			if !descend {
				for i, t := range tainted {
					if t != nil {
						callSums[ci] = &TaintSummary{Sinks: []TaintSink{{
							Pos: ci.Pos(), Fn: fn, Kind: "escape:" + FuncName(callee),
							What:  fmt.Sprintf("an unverified wire value (argument %d) reaches %s before the peer filter", i, FuncName(callee)),
							Chain: chain}}}
						break
					}
				}
				if res != nil {
					for _, t := range tainted {
						merge(res, t)
					}
				}
				return
			}
		}
		if descend {
			s := cfg.analyze(callee, srcs, chain, depth+1)
			callSums[ci] = s
			if res != nil && len(s.RetEntry) > 0 {
				// accessor: the result is the table entry looked up with one of the arguments
				for _, pi := range s.RetEntry {
					if pi < len(tainted) && tainted[pi] != nil {
						merge(res, &tval{origins: tainted[pi].origins, entry: true})
					}
				}
				return
			}
			if res != nil && s.RetTainted {
				for _, t := range tainted {
					merge(res, stripEntry(t))
				}
			}
			return
		}
		// callee cannot reach the table: in entry mode it cannot perform an effect on it.
		// Result taint: conservatively derived from arguments.
		if res != nil {
			for _, t := range tainted {
				merge(res, t)
			}
		}
		// but passing an entry-derived value still counts (handled in callSinks)
		return
	}
	// observers (logging / tracing / formatting) do not hand the value back
	if cfg.AllowExternal != nil && cfg.AllowExternal(info) {
		return
	}
	// unanalysable: result conservatively tainted
	if res != nil {
		for _, t := range tainted {
			merge(res, t)
		}
		merge(res, recvT)
	}
}

func stripEntry(t *tval) *tval {
	if t == nil {
		return nil
	}
	return &tval{origins: t.origins}
}

// reachesTable: does f (via static calls within the module) touch the table field?
func (cfg *TaintCfg) reachesTable(f *ssa.Function, visiting map[*ssa.Function]bool) bool {
	if v, ok := cfg.reachMemo[f]; ok {
		return v
	}
	if visiting[f] {
		return false
	}
	visiting[f] = true
	found := false
	for _, g := range WithClosures(f) {
		Instrs(g, func(in ssa.Instruction) {
			if found {
				return
			}
			if fa, ok := in.(*ssa.FieldAddr); ok && FieldOf(fa) == cfg.Table {
				found = true
				return
			}
			if ci, ok := in.(ssa.CallInstruction); ok {
				if sc := ci.Common().StaticCallee(); sc != nil && sc.Blocks != nil && InModule(FuncPkgPath(sc)) {
					if cfg.reachesTable(sc, visiting) {
						found = true
					}
				}
			}
		})
	}
	cfg.reachMemo[f] = found
	return found
}

// callSinks reports sinks for calls that were not analysed through a summary.
func (cfg *TaintCfg) callSinks(fn *ssa.Function, b *ssa.BasicBlock, ci ssa.CallInstruction,
	eff func(*ssa.BasicBlock, ssa.Value) *tval, isTableLoad func(ssa.Value) bool,
	addSink func(ssa.Instruction, string, string)) {

	c := ci.Common()
	info := Resolve(ci)
	if bi, ok := c.Value.(*ssa.Builtin); ok {
		if bi.Name() == "delete" && len(c.Args) == 2 && isTableLoad(c.Args[0]) {
			if t := eff(b, c.Args[1]); t != nil {
				addSink(ci, "table-delete", "deletes the table entry named by a wire-supplied ID without a peer check")
			}
		}
		if bi.Name() == "close" && len(c.Args) == 1 {
			if t := eff(b, c.Args[0]); t != nil && t.entry {
				addSink(ci, "close-through-entry", "closes a channel of a table entry obtained with a wire-supplied ID without a peer check")
			}
		}
		return
	}
	name := info.Name()
	if name == "" {
		name = "a function value"
	}
	short := strings.ReplaceAll(name, Module+"/", "")
	// receiver / function value loaded from an entry
	var recv ssa.Value
	if c.IsInvoke() {
		recv = c.Value
	} else if info.Static == nil {
		recv = c.Value
	}
	if recv != nil {
		if t := eff(b, recv); t != nil && t.entry {
			addSink(ci, "call-through-entry:"+short, "calls "+short+" on a value loaded from a table entry obtained with a wire-supplied ID, with no dominating peer check")
			return
		}
	}
	if cfg.KeyedSink != nil {
		if what, ok := cfg.KeyedSink(info); ok {
			for _, a := range c.Args {
				if t := eff(b, a); t != nil && !t.entry {
					addSink(ci, "keyed-state:"+short, what)
					return
				}
			}
		}
	}
	for i, a := range c.Args {
		t := eff(b, a)
		if t == nil {
			continue
		}
		if t.entry {
			if cfg.Observer != nil && cfg.Observer(info) {
				continue // logging a value read from the entry is not an effect on it
			}
			addSink(ci, "entry-escapes:"+short, fmt.Sprintf("passes a value loaded from a table entry obtained with a wire-supplied ID (argument %d) to %s with no dominating peer check", i, short))
			return
		}
		if cfg.DefaultDeny {
			if cfg.AllowExternal != nil && cfg.AllowExternal(info) {
				continue
			}
			addSink(ci, "escape:"+short, fmt.Sprintf("an unverified wire value (argument %d) reaches %s before the peer filter", i, short))
			return
		}
	}
	if cfg.DefaultDeny && recv != nil {
		if t := eff(b, recv); t != nil {
			if cfg.AllowExternal != nil && cfg.AllowExternal(info) {
				return
			}
			addSink(ci, "escape:"+short, "an unverified wire value is the receiver of "+short+" before the peer filter")
		}
	}
}

// condSanitises returns the origins established SAFE when cond c holds:
//   - entry.peerField == <untainted peer>   (entry looked up by an ID with those origins)
//   - commaok of the table lookup is false / entry == nil (no entry exists)
//   - a same-module boolean helper whose true result implies the first form.
func (cfg *TaintCfg) condSanitises(fn *ssa.Function, c Cond, tv map[ssa.Value]*tval, chain []string, depth int) map[ssa.Value]bool {
	out := map[ssa.Value]bool{}
	addAll := func(t *tval) {
		if t == nil {
			return
		}
		for o := range t.origins {
			out[o] = true
		}
	}
	if e, ok := c.AsEq(); ok {
		for _, pair := range [][2]ssa.Value{{e.X, e.Y}, {e.Y, e.X}} {
			a, bb := pair[0], pair[1]
			if e.Equal {
				// entry.peer == p
				if f, base := LoadedField(a); f != nil && f == cfg.PeerField {
					if t := tv[base]; t != nil && t.entry && !tvHas(tv, bb) {
						addAll(t)
					}
				}
				// entry == nil
				if IsNilConst(bb) {
					if t := tv[Strip(a)]; t != nil && t.entry {
						if _, isLookup := entryRoot(Strip(a)); isLookup {
							addAll(t)
						}
					}
				}
			}
		}
		return out
	}
	// commaok false
	if ex, ok := c.V.(*ssa.Extract); ok && ex.Index == 1 && !c.Pol {
		if lk, ok := ex.Tuple.(*ssa.Lookup); ok && lk.CommaOk {
			if f, _ := LoadedField(lk.X); f == cfg.Table {
				addAll(tv[lk.Index])
			}
			return out
		}
	}
	// boolean result of a module helper: use the helper's return facts
	if call, ridx := callResult(c.V); call != nil {
		callee := call.Call.StaticCallee()
		if callee != nil && callee.Blocks != nil && len(callee.FreeVars) == 0 && InModule(FuncPkgPath(callee)) && depth < cfg.MaxDepth {
			var srcs []ssa.Value
			for i, a := range call.Call.Args {
				if tvHas(tv, a) && i < len(callee.Params) {
					srcs = append(srcs, callee.Params[i])
				}
			}
			if len(srcs) > 0 {
				s := cfg.analyze(callee, srcs, chain, depth+1)
				if s.RetSafe != nil && s.RetSafe[ridx] != nil {
					for pi := range s.RetSafe[ridx][c.Pol] {
						if pi < len(call.Call.Args) {
							addAll(tv[call.Call.Args[pi]])
							addAll(tv[Strip(call.Call.Args[pi])])
						}
					}
				}
			}
		}
	}
	// boolean helper
	if call, ok := c.V.(*ssa.Call); ok && c.Pol {
		callee := call.Call.StaticCallee()
		if callee != nil && callee.Blocks != nil && InModule(FuncPkgPath(callee)) && depth < cfg.MaxDepth {
			for i, a := range call.Call.Args {
				t := tv[a]
				if !t.has() || i >= len(callee.Params) {
					continue
				}
				// does callee's true result imply table[param i].peer == some untainted param?
				if cfg.helperGuards(callee, i, call, tv) {
					addAll(t)
				}
			}
		}
	}
	return out
}

func tvHas(tv map[ssa.Value]*tval, v ssa.Value) bool {
	t := tv[v]
	if t.has() {
		return true
	}
	t = tv[Strip(v)]
	return t.has()
}

func entryRoot(v ssa.Value) (ssa.Value, bool) {
	switch x := v.(type) {
	case *ssa.Lookup:
		return x, true
	case *ssa.Extract:
		if lk, ok := x.Tuple.(*ssa.Lookup); ok && x.Index == 0 {
			return lk, true
		}
	}
	return nil, false
}

// helperGuards: every `return <maybe-true>` of g is such that truth implies
// table[param keyIdx].peerField == param j for an argument j that is untainted
// at the call site.
func (cfg *TaintCfg) helperGuards(g *ssa.Function, keyIdx int, site *ssa.Call, callerTV map[ssa.Value]*tval) bool {
	if g.Signature.Results().Len() != 1 {
		return false
	}
	keyParam := g.Params[keyIdx]
	// local taint: values derived from keyParam; entries = table lookups keyed by it
	isKeyDerived := func(v ssa.Value) bool {
		for i := 0; i < 6; i++ {
			v = Strip(v)
			if v == keyParam {
				return true
			}
			if c, ok := v.(*ssa.Call); ok && len(c.Call.Args) > 0 {
				v = c.Call.Args[0]
				continue
			}
			return false
		}
		return false
	}
	isEntry := func(v ssa.Value) bool {
		r, ok := entryRoot(Strip(v))
		if !ok {
			return false
		}
		lk := r.(*ssa.Lookup)
		f, _ := LoadedField(lk.X)
		return f == cfg.Table && isKeyDerived(lk.Index)
	}
	okPeerSide := func(v ssa.Value) bool {
		p, ok := Strip(v).(*ssa.Parameter)
		if !ok {
			return false
		}
		for j, gp := range g.Params {
			if gp == p && j < len(site.Call.Args) {
				return !tvHas(callerTV, site.Call.Args[j])
			}
		}
		return false
	}
	isGuardExpr := func(v ssa.Value) bool {
		b, ok := v.(*ssa.BinOp)
		if !ok || b.Op != token.EQL {
			return false
		}
		for _, pair := range [][2]ssa.Value{{b.X, b.Y}, {b.Y, b.X}} {
			if f, base := LoadedField(pair[0]); f == cfg.PeerField && f != nil && isEntry(base) && okPeerSide(pair[1]) {
				return true
			}
		}
		return false
	}
	blockGuarded := func(b *ssa.BasicBlock) bool {
		for _, c := range BlockConds(b) {
			if c.Pol && isGuardExpr(c.V) {
				return true
			}
			if !c.Pol {
				if bo, ok := c.V.(*ssa.BinOp); ok && bo.Op == token.NEQ {
					eq := &ssa.BinOp{Op: token.EQL, X: bo.X, Y: bo.Y}
					if isGuardExpr(eq) {
						return true
					}
				}
			}
		}
		return false
	}
	var implies func(v ssa.Value, at *ssa.BasicBlock, seen map[ssa.Value]bool) bool
	implies = func(v ssa.Value, at *ssa.BasicBlock, seen map[ssa.Value]bool) bool {
		if seen[v] {
			return true
		}
		seen[v] = true
		if bv, ok := ConstBool(v); ok {
			return !bv || blockGuarded(at)
		}
		if isGuardExpr(v) {
			return true
		}
		if blockGuarded(at) {
			return true
		}
		if ph, ok := v.(*ssa.Phi); ok {
			for i, e := range ph.Edges {
				if !implies(e, ph.Block().Preds[i], seen) {
					return false
				}
			}
			return true
		}
		if bo, ok := v.(*ssa.BinOp); ok && bo.Op == token.AND {
			return implies(bo.X, at, seen) || implies(bo.Y, at, seen)
		}
		return false
	}
	rets := Returns(g)
	if len(rets) == 0 {
		return false
	}
	for _, r := range rets {
		if !implies(r.Results[0], r.Block(), map[ssa.Value]bool{}) {
			return false
		}
	}
	return true
}
