package engine

import (
	"go/token"
	"go/types"

	"golang.org/x/tools/go/ssa"
)

// Cond is a branch condition known to have the given truth value.
//
// A condition obtained by looking *through a boolean helper* (the helper's
// result is known, so the tests its body performed on every path to that
// result are known too) has V inside the helper and Sub mapping the helper's
// parameters to the caller's argument values; use R to bring an operand back
// into the caller's terms.
type Cond struct {
	V   ssa.Value
	Pol bool
	If  *ssa.If
	Sub *Subst
}

// Subst maps a helper's parameters to the values passed at the call whose result was tested.
type Subst struct {
	Params map[*ssa.Parameter]ssa.Value
	Up     *Subst
}

// R resolves an operand of the condition to the calling function's value
// (stripped); operands that are not helper parameters are returned stripped.
func (c Cond) R(v ssa.Value) ssa.Value {
	v = Strip(v)
	for s := c.Sub; s != nil; s = s.Up {
		p, ok := v.(*ssa.Parameter)
		if !ok {
			break
		}
		a, ok := s.Params[p]
		if !ok {
			break
		}
		v = Strip(a)
	}
	return v
}

// BlockConds returns the branch conditions that hold on every path reaching
// block b (edge dominance): for each dominating If block D, if one successor
// edge D->S is such that S has D as its only predecessor and S dominates b,
// then the condition holds with that edge's polarity.  Conditions that are the
// result of a module helper are followed by the conditions that result implies
// inside the helper (ImpliedByResult).
func BlockConds(b *ssa.BasicBlock) []Cond {
	return ExpandConds(rawBlockConds(b), 0)
}

func rawBlockConds(b *ssa.BasicBlock) []Cond {
	var out []Cond
	seen := map[*ssa.BasicBlock]bool{}
	for x := b; x != nil && !seen[x]; x = x.Idom() {
		seen[x] = true
		d := x.Idom()
		if d == nil {
			break
		}
		ifi, ok := d.Instrs[len(d.Instrs)-1].(*ssa.If)
		if !ok || len(d.Succs) != 2 || d.Succs[0] == d.Succs[1] {
			continue
		}
		if len(x.Preds) != 1 {
			continue
		}
		if d.Succs[0] == x {
			out = append(out, flatten(Cond{V: ifi.Cond, Pol: true, If: ifi})...)
		} else if d.Succs[1] == x {
			out = append(out, flatten(Cond{V: ifi.Cond, Pol: false, If: ifi})...)
		}
	}
	return out
}

// callResult: v is the (idx-th) result of a call.
func callResult(v ssa.Value) (*ssa.Call, int) {
	switch x := v.(type) {
	case *ssa.Call:
		return x, 0
	case *ssa.Extract:
		if c, ok := x.Tuple.(*ssa.Call); ok {
			return c, x.Index
		}
	}
	return nil, 0
}

// ExpandConds appends, for every condition that is a module helper's boolean
// result, the conditions implied inside the helper.
func ExpandConds(conds []Cond, depth int) []Cond {
	out := conds
	if depth > 3 {
		return out
	}
	for _, c := range conds {
		if ph, ok := c.V.(*ssa.Phi); ok {
			if bt, ok := ph.Type().Underlying().(*types.Basic); ok && bt.Kind() == types.Bool && !phiBusy[ph] {
				phiBusy[ph] = true
				defer delete(phiBusy, ph)
				for _, ic := range intersectConds(outcomeSets(ph, c.Pol, nil, map[ssa.Value]bool{})) {
					if ic.V == c.V {
						continue
					}
					ic.If = c.If
					ic.Sub = chainSubst(ic.Sub, c.Sub)
					out = append(out, ic)
				}
			}
			continue
		}
		// a small enumeration assembled on the way in and then tested: `state == Queued` where state is a phi of
		// constants holds what every incoming edge carrying that constant holds
		if bo, ok := c.V.(*ssa.BinOp); ok && (bo.Op == token.EQL || bo.Op == token.NEQ) {
			var ph *ssa.Phi
			var k *ssa.Const
			if p, ok := ForwardedValue(bo.X).(*ssa.Phi); ok {
				ph, k = p, constOf(bo.Y)
			} else if p, ok := ForwardedValue(bo.Y).(*ssa.Phi); ok {
				ph, k = p, constOf(bo.X)
			}
			if ph != nil && k != nil && k.Value != nil && !phiBusy[ph] && (c.Pol == (bo.Op == token.EQL)) {
				phiBusy[ph] = true
				var sets [][]Cond
				usable := true
				for i, e := range ph.Edges {
					ek := constOf(e)
					if ek == nil || ek.Value == nil {
						usable = false // a non-constant edge: cannot tell
						break
					}
					if ek.Value.ExactString() != k.Value.ExactString() {
						continue
					}
					p := ph.Block().Preds[i]
					pc := append([]Cond{}, BlockConds(p)...)
					if ifi, ok := p.Instrs[len(p.Instrs)-1].(*ssa.If); ok && len(p.Succs) == 2 && p.Succs[0] != p.Succs[1] {
						pc = append(pc, ExpandConds(flatten(Cond{V: ifi.Cond, Pol: p.Succs[0] == ph.Block(), If: ifi}), depth+1)...)
					}
					sets = append(sets, pc)
				}
				delete(phiBusy, ph)
				if usable {
					for _, ic := range intersectConds(sets) {
						ic.If = c.If
						ic.Sub = chainSubst(ic.Sub, c.Sub)
						out = append(out, ic)
					}
				}
			}
		}
		call, idx := callResult(c.V)
		if call == nil {
			continue
		}
		callee := call.Call.StaticCallee()
		if callee == nil || callee.Blocks == nil || len(callee.FreeVars) != 0 || !InModule(FuncPkgPath(callee)) {
			continue
		}
		imp := ImpliedByResult(callee, idx, c.Pol)
		if len(imp) == 0 {
			continue
		}
		sub := &Subst{Params: map[*ssa.Parameter]ssa.Value{}, Up: c.Sub}
		for i, p := range callee.Params {
			if i < len(call.Call.Args) {
				sub.Params[p] = call.Call.Args[i]
			}
		}
		var inner []Cond
		for _, ic := range imp {
			// ic may itself come from a nested helper: chain the substitutions
			nc := Cond{V: ic.V, Pol: ic.Pol, If: c.If, Sub: sub}
			if ic.Sub != nil {
				nc.Sub = chainSubst(ic.Sub, sub)
			}
			inner = append(inner, nc)
		}
		out = append(out, inner...)
	}
	return out
}

func chainSubst(inner, outer *Subst) *Subst {
	if inner == nil {
		return outer
	}
	return &Subst{Params: inner.Params, Up: chainSubst(inner.Up, outer)}
}

// outcomeSets: for boolean value v, the condition sets (one per way v can come to equal pol)
// known when v == pol; base are the conditions already known where v is used.
func outcomeSets(v ssa.Value, pol bool, base []Cond, seen map[ssa.Value]bool) [][]Cond {
	if b, ok := ConstBool(v); ok {
		if b == pol {
			return [][]Cond{base}
		}
		return nil
	}
	if u, ok := v.(*ssa.UnOp); ok && u.Op == token.NOT {
		return outcomeSets(u.X, !pol, base, seen)
	}
	if ph, ok := v.(*ssa.Phi); ok {
		if seen[ph] {
			return nil
		}
		seen[ph] = true
		var sets [][]Cond
		for i, e := range ph.Edges {
			p := ph.Block().Preds[i]
			pc := append([]Cond{}, BlockConds(p)...)
			if ifi, ok := p.Instrs[len(p.Instrs)-1].(*ssa.If); ok && len(p.Succs) == 2 && p.Succs[0] != p.Succs[1] {
				pc = append(pc, ExpandConds(flatten(Cond{V: ifi.Cond, Pol: p.Succs[0] == ph.Block(), If: ifi}), 0)...)
			}
			sets = append(sets, outcomeSets(e, pol, pc, seen)...)
		}
		return sets
	}
	return [][]Cond{append(append([]Cond{}, base...), ExpandConds(flatten(Cond{V: v, Pol: pol}), 0)...)}
}

func intersectConds(sets [][]Cond) []Cond {
	var out []Cond
	if len(sets) == 0 {
		return nil
	}
	for _, c := range sets[0] {
		inAll := true
		for _, s := range sets[1:] {
			found := false
			for _, d := range s {
				if d.V == c.V && d.Pol == c.Pol {
					found = true
					break
				}
			}
			if !found {
				inAll = false
				break
			}
		}
		if inAll {
			out = append(out, c)
		}
	}
	return out
}

type impliedKey struct {
	f   *ssa.Function
	idx int
	pol bool
}

var phiBusy = map[*ssa.Phi]bool{}
var impliedMemo = map[impliedKey][]Cond{}
var impliedBusy = map[impliedKey]bool{}

// ImpliedByResult returns conditions (in f's own values) that hold on every
// path of f ending in a return whose idx-th (boolean) result can equal pol.
func ImpliedByResult(f *ssa.Function, idx int, pol bool) []Cond {
	k := impliedKey{f, idx, pol}
	if r, ok := impliedMemo[k]; ok {
		return r
	}
	if impliedBusy[k] {
		return nil
	}
	impliedBusy[k] = true
	defer delete(impliedBusy, k)
	res := f.Signature.Results()
	if idx >= res.Len() {
		impliedMemo[k] = nil
		return nil
	}
	if b, ok := res.At(idx).Type().Underlying().(*types.Basic); !ok || b.Kind() != types.Bool {
		impliedMemo[k] = nil
		return nil
	}
	var sets [][]Cond
	for _, r := range Returns(f) {
		if idx >= len(r.Results) {
			continue
		}
		sets = append(sets, outcomeSets(ReturnValue(r, idx), pol, BlockConds(r.Block()), map[ssa.Value]bool{})...)
	}
	out := intersectConds(sets)
	impliedMemo[k] = out
	return out
}

// FlattenCond normalises !x (exported form of flatten).
func FlattenCond(c Cond) []Cond { return flatten(c) }

// flatten normalises !x.
func flatten(c Cond) []Cond {
	if u, ok := c.V.(*ssa.UnOp); ok && u.Op == token.NOT {
		return flatten(Cond{V: u.X, Pol: !c.Pol, If: c.If, Sub: c.Sub})
	}
	// a comparison written constant-first (`Running == x.state`, `0 >= n`) is presented the usual way round
	if b, ok := c.V.(*ssa.BinOp); ok {
		if _, xConst := b.X.(*ssa.Const); xConst {
			if _, yConst := b.Y.(*ssa.Const); !yConst {
				if op, ok := mirrorOp(b.Op); ok {
					c.V = mirrored(b, op)
				}
			}
		}
	}
	return []Cond{c}
}

func mirrorOp(op token.Token) (token.Token, bool) {
	switch op {
	case token.EQL, token.NEQ:
		return op, true
	case token.LSS:
		return token.GTR, true
	case token.GTR:
		return token.LSS, true
	case token.LEQ:
		return token.GEQ, true
	case token.GEQ:
		return token.LEQ, true
	}
	return op, false
}

var mirrorMemo = map[*ssa.BinOp]*ssa.BinOp{}

// mirrored returns a stand-in for b with its operands exchanged (one per b, so identity comparisons stay stable).
// It is only ever read for Op, X and Y.
func mirrored(b *ssa.BinOp, op token.Token) *ssa.BinOp {
	if m, ok := mirrorMemo[b]; ok {
		return m
	}
	m := &ssa.BinOp{Op: op, X: b.Y, Y: b.X}
	mirrorMemo[b] = m
	return m
}

// RawInstrConds: the dominating branch conditions themselves, without what they imply through helpers and flags.
func RawInstrConds(in ssa.Instruction) []Cond { return rawBlockConds(in.Block()) }

// InstrConds = BlockConds of the instruction's block.
func InstrConds(in ssa.Instruction) []Cond { return BlockConds(in.Block()) }

// Before reports whether instruction a executes before b on every path that
// reaches b (a dominates b).
func Before(a, b ssa.Instruction) bool {
	ba, bb := a.Block(), b.Block()
	if ba == nil || bb == nil || ba.Parent() != bb.Parent() {
		return false
	}
	if ba == bb {
		return indexOf(a) < indexOf(b)
	}
	return ba.Dominates(bb)
}

func indexOf(in ssa.Instruction) int {
	for i, x := range in.Block().Instrs {
		if x == in {
			return i
		}
	}
	return -1
}

// EqFact describes a condition normalised to an (in)equality between two values.
type EqFact struct {
	X, Y  ssa.Value
	Equal bool // X == Y known (true) or X != Y known (false)
}

// AsEq normalises a Cond that is a ==/!= comparison.
func (c Cond) AsEq() (EqFact, bool) {
	b, ok := c.V.(*ssa.BinOp)
	if !ok {
		return EqFact{}, false
	}
	switch b.Op {
	case token.EQL:
		return EqFact{b.X, b.Y, c.Pol}, true
	case token.NEQ:
		return EqFact{b.X, b.Y, !c.Pol}, true
	}
	return EqFact{}, false
}

// KnownNonNil reports whether conds establish v != nil (v compared by SameValue).
func KnownNonNil(conds []Cond, v ssa.Value) bool {
	for _, c := range conds {
		if e, ok := c.AsEq(); ok && !e.Equal {
			if (IsNilConst(e.Y) && SameValue(e.X, v)) || (IsNilConst(e.X) && SameValue(e.Y, v)) {
				return true
			}
		}
	}
	return false
}

// KnownNil reports whether conds establish v == nil.
func KnownNil(conds []Cond, v ssa.Value) bool {
	for _, c := range conds {
		if e, ok := c.AsEq(); ok && e.Equal {
			if (IsNilConst(e.Y) && SameValue(e.X, v)) || (IsNilConst(e.X) && SameValue(e.Y, v)) {
				return true
			}
		}
	}
	return false
}

// KnownTrue reports whether conds establish that boolean value v is true (pol) by identity.
func KnownBool(conds []Cond, v ssa.Value, pol bool) bool {
	for _, c := range conds {
		if c.Pol == pol && (c.V == v || SameValue(c.V, v)) {
			return true
		}
	}
	return false
}

// ---------------------------------------------------------------------------
// path queries over the CFG

// pos identifies a point in a function: block + instruction index.
type point struct {
	b *ssa.BasicBlock
	i int
}

// MustReachBeforeReturn reports whether every path from just after `from` to a
// normal Return passes through an instruction satisfying pred.  Paths ending
// in Panic are ignored.  If stop != nil, paths are also cut (treated as
// satisfied) at instructions satisfying stop.
// It returns the offending Return instruction when the answer is false.
func MustReachBeforeReturn(from ssa.Instruction, pred func(ssa.Instruction) bool, stop func(ssa.Instruction) bool) (bool, ssa.Instruction) {
	start := point{from.Block(), indexOf(from) + 1}
	return mustReach(start, pred, stop)
}

// MustReachFromEntry: every path from function entry to a normal return passes through pred.
func MustReachFromEntry(f *ssa.Function, pred func(ssa.Instruction) bool, stop func(ssa.Instruction) bool) (bool, ssa.Instruction) {
	if len(f.Blocks) == 0 {
		return false, nil
	}
	return mustReach(point{f.Blocks[0], 0}, pred, stop)
}

// MustReachFromBlock: every path from the start of block b to a normal return passes through pred.
func MustReachFromBlock(b *ssa.BasicBlock, pred func(ssa.Instruction) bool, stop func(ssa.Instruction) bool) (bool, ssa.Instruction) {
	return mustReach(point{b, 0}, pred, stop)
}

func mustReach(start point, pred func(ssa.Instruction) bool, stop func(ssa.Instruction) bool) (bool, ssa.Instruction) {
	visited := map[*ssa.BasicBlock]bool{}
	var walk func(p point) (bool, ssa.Instruction)
	walk = func(p point) (bool, ssa.Instruction) {
		for i := p.i; i < len(p.b.Instrs); i++ {
			in := p.b.Instrs[i]
			if pred(in) {
				return true, nil
			}
			if stop != nil && stop(in) {
				return true, nil
			}
			switch in.(type) {
			case *ssa.Return:
				return false, in
			case *ssa.Panic:
				return true, nil
			}
		}
		for _, s := range p.b.Succs {
			if visited[s] {
				continue
			}
			visited[s] = true
			if ok, bad := walk(point{s, 0}); !ok {
				return false, bad
			}
		}
		return true, nil
	}
	return walk(start)
}

// CanReach reports whether some path leads from just after `from` to an
// instruction satisfying pred without passing through an instruction
// satisfying avoid (avoid may be nil).
func CanReach(from ssa.Instruction, pred func(ssa.Instruction) bool, avoid func(ssa.Instruction) bool) (bool, ssa.Instruction) {
	return canReach(point{from.Block(), indexOf(from) + 1}, pred, avoid)
}

// CanReachFromBlock is CanReach starting at the top of block b.
func CanReachFromBlock(b *ssa.BasicBlock, pred func(ssa.Instruction) bool, avoid func(ssa.Instruction) bool) (bool, ssa.Instruction) {
	return canReach(point{b, 0}, pred, avoid)
}

func canReach(start point, pred func(ssa.Instruction) bool, avoid func(ssa.Instruction) bool) (bool, ssa.Instruction) {
	visited := map[*ssa.BasicBlock]bool{}
	var walk func(p point) (bool, ssa.Instruction)
	walk = func(p point) (bool, ssa.Instruction) {
		for i := p.i; i < len(p.b.Instrs); i++ {
			in := p.b.Instrs[i]
			if pred(in) {
				return true, in
			}
			if avoid != nil && avoid(in) {
				return false, nil
			}
		}
		for _, s := range p.b.Succs {
			if visited[s] {
				continue
			}
			visited[s] = true
			if ok, at := walk(point{s, 0}); ok {
				return true, at
			}
		}
		return false, nil
	}
	return walk(start)
}

// Returns lists the Return instructions of f.
func Returns(f *ssa.Function) []*ssa.Return {
	var out []*ssa.Return
	for _, b := range f.Blocks {
		if b == f.Recover {
			continue // the synthetic return taken after a recovered panic
		}
		for _, in := range b.Instrs {
			if r, ok := in.(*ssa.Return); ok {
				out = append(out, r)
			}
		}
	}
	return out
}

// ReturnValue reads result i of a Return through defer-spilled named results.
func ReturnValue(r *ssa.Return, i int) ssa.Value {
	if i >= len(r.Results) {
		return nil
	}
	v := Strip(r.Results[i])
	u, ok := v.(*ssa.UnOp)
	if !ok || u.Op != token.MUL {
		return v
	}
	al, ok := u.X.(*ssa.Alloc)
	if !ok {
		return v
	}
	// functions with defers return through spilled locals: `*t = x; rundefers; return *t`.
	// Find the store that reaches this return: walk back through the block and its
	// chain of unique predecessors.
	b := r.Block()
	idx := len(b.Instrs)
	for hops := 0; hops < 32; hops++ {
		for j := idx - 1; j >= 0; j-- {
			if st, ok := b.Instrs[j].(*ssa.Store); ok && st.Addr == ssa.Value(al) {
				return Strip(st.Val)
			}
		}
		if len(b.Preds) != 1 {
			return v
		}
		b = b.Preds[0]
		idx = len(b.Instrs)
	}
	return v
}

// IsCallInstr adapts a CallInfo predicate to an instruction predicate.
func IsCall(names ...string) func(ssa.Instruction) bool {
	return func(in ssa.Instruction) bool {
		ci, ok := in.(ssa.CallInstruction)
		if !ok {
			return false
		}
		if _, isDefer := in.(*ssa.Defer); isDefer {
			return false
		}
		if _, isGo := in.(*ssa.Go); isGo {
			return false
		}
		return Resolve(ci).Is(names...)
	}
}

// CondTrueSucc returns the successor block taken when the If's condition has truth value pol,
// after normalising leading negations.
func CondSucc(ifi *ssa.If, pol bool) *ssa.BasicBlock {
	b := ifi.Block()
	if pol {
		return b.Succs[0]
	}
	return b.Succs[1]
}

// ReachableAvoiding reports whether target is reachable from f's entry without
// executing an instruction satisfying avoid and without taking an edge for
// which skipEdge(from, to) is true.
func ReachableAvoiding(f *ssa.Function, target ssa.Instruction, avoid func(ssa.Instruction) bool, skipEdge func(from, to *ssa.BasicBlock) bool) bool {
	if len(f.Blocks) == 0 {
		return false
	}
	seen := map[*ssa.BasicBlock]bool{}
	var walk func(b *ssa.BasicBlock) bool
	walk = func(b *ssa.BasicBlock) bool {
		if seen[b] {
			return false
		}
		seen[b] = true
		for _, in := range b.Instrs {
			if in == target {
				return true
			}
			if avoid != nil && avoid(in) {
				return false
			}
		}
		for _, s := range b.Succs {
			if skipEdge != nil && skipEdge(b, s) {
				continue
			}
			if walk(s) {
				return true
			}
		}
		return false
	}
	return walk(f.Blocks[0])
}

// NilLeaves: the values whose being nil is the only way v can be nil.  A phi is
// opened edge by edge; an edge whose value is known non-nil under the
// conditions of its predecessor (e.g. the `err != nil` branch that assigned it)
// is dropped, as are constants that are not nil.
func NilLeaves(v ssa.Value) []ssa.Value {
	var out []ssa.Value
	seen := map[ssa.Value]bool{}
	var walk func(v ssa.Value, conds []Cond)
	walk = func(v ssa.Value, conds []Cond) {
		v = Strip(v)
		if seen[v] {
			return
		}
		seen[v] = true
		if conds != nil && KnownNonNil(conds, v) {
			return
		}
		if _, ok := v.(*ssa.MakeInterface); ok {
			return
		}
		ph, ok := v.(*ssa.Phi)
		if !ok {
			out = append(out, v)
			return
		}
		for i, e := range ph.Edges {
			p := ph.Block().Preds[i]
			pc := append([]Cond{}, BlockConds(p)...)
			if ifi, ok := p.Instrs[len(p.Instrs)-1].(*ssa.If); ok && len(p.Succs) == 2 && p.Succs[0] != p.Succs[1] {
				pc = append(pc, flatten(Cond{V: ifi.Cond, Pol: p.Succs[0] == ph.Block(), If: ifi})...)
			}
			if c, ok := e.(*ssa.Const); ok && !IsNilConst(c) {
				continue
			}
			walk(e, pc)
		}
	}
	walk(v, nil)
	return out
}

// Outcome is one way a value can come about: the leaf value (a phi opened edge by
// edge) together with the conditions known on that way.
type Outcome struct {
	V     ssa.Value
	Conds []Cond
}

// ValueOutcomes opens phis: each incoming edge contributes its value under the
// conditions of the predecessor block and of the edge itself.  A non-phi value
// has the single outcome (v, BlockConds(at)).
func ValueOutcomes(v ssa.Value, at *ssa.BasicBlock) []Outcome {
	var out []Outcome
	seen := map[ssa.Value]bool{}
	var walk func(v ssa.Value, conds []Cond)
	walk = func(v ssa.Value, conds []Cond) {
		ph, ok := v.(*ssa.Phi)
		if !ok {
			out = append(out, Outcome{v, conds})
			return
		}
		if seen[ph] {
			return
		}
		seen[ph] = true
		for i, e := range ph.Edges {
			p := ph.Block().Preds[i]
			pc := append([]Cond{}, BlockConds(p)...)
			if ifi, ok := p.Instrs[len(p.Instrs)-1].(*ssa.If); ok && len(p.Succs) == 2 && p.Succs[0] != p.Succs[1] {
				pc = append(pc, ExpandConds(flatten(Cond{V: ifi.Cond, Pol: p.Succs[0] == ph.Block(), If: ifi}), 0)...)
			}
			walk(e, pc)
		}
	}
	walk(v, BlockConds(at))
	return out
}

func constOf(v ssa.Value) *ssa.Const {
	for {
		switch x := v.(type) {
		case *ssa.Const:
			return x
		case *ssa.Convert:
			v = x.X
		case *ssa.ChangeType:
			v = x.X
		default:
			return nil
		}
	}
}

// ForwardedValue: if v is a load that directly follows, in its own block, a store to the same place (no call or
// other store in between), the stored value; otherwise v.  (`x.state = s; switch x.state {`)
func ForwardedValue(v ssa.Value) ssa.Value {
	u, ok := v.(*ssa.UnOp)
	if !ok || u.Op != token.MUL || u.Block() == nil {
		return v
	}
	instrs := u.Block().Instrs
	idx := -1
	for i, in := range instrs {
		if in == ssa.Instruction(u) {
			idx = i
		}
	}
	for i := idx - 1; i >= 0; i-- {
		switch x := instrs[i].(type) {
		case *ssa.Store:
			if x.Addr == u.X || (Path(x.Addr) == Path(u.X) && isPureLoadPath(u.X)) {
				return x.Val
			}
			return v
		case *ssa.Call, *ssa.Go, *ssa.Defer, *ssa.MapUpdate, *ssa.Send, *ssa.Select:
			return v
		}
	}
	return v
}
