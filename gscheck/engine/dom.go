package engine

import (
	"go/token"

	"golang.org/x/tools/go/ssa"
)

// Cond is a branch condition known to have the given truth value.
type Cond struct {
	V   ssa.Value
	Pol bool
	If  *ssa.If
}

// BlockConds returns the branch conditions that hold on every path reaching
// block b (edge dominance): for each dominating If block D, if one successor
// edge D->S is such that S has D as its only predecessor and S dominates b,
// then the condition holds with that edge's polarity.
func BlockConds(b *ssa.BasicBlock) []Cond {
	var out []Cond
	seen := map[*ssa.BasicBlock]bool{}
	for x := b; x != nil && !seen[x]; x = x.Idom() {
		seen[x] = true
		d := x.Idom()
		if d == nil {
			break
		}
		ifi, ok := d.Instrs[len(d.Instrs)-1].(*ssa.If)
		if !ok || len(d.Succs) != 2 || d.Succs[0] == d.Succs[1] {
			continue
		}
		if len(x.Preds) != 1 {
			continue
		}
		if d.Succs[0] == x {
			out = append(out, flatten(Cond{ifi.Cond, true, ifi})...)
		} else if d.Succs[1] == x {
			out = append(out, flatten(Cond{ifi.Cond, false, ifi})...)
		}
	}
	return out
}

// flatten normalises !x.
func flatten(c Cond) []Cond {
	if u, ok := c.V.(*ssa.UnOp); ok && u.Op == token.NOT {
		return flatten(Cond{u.X, !c.Pol, c.If})
	}
	return []Cond{c}
}

// InstrConds = BlockConds of the instruction's block.
func InstrConds(in ssa.Instruction) []Cond { return BlockConds(in.Block()) }

// Before reports whether instruction a executes before b on every path that
// reaches b (a dominates b).
func Before(a, b ssa.Instruction) bool {
	ba, bb := a.Block(), b.Block()
	if ba == nil || bb == nil || ba.Parent() != bb.Parent() {
		return false
	}
	if ba == bb {
		return indexOf(a) < indexOf(b)
	}
	return ba.Dominates(bb)
}

func indexOf(in ssa.Instruction) int {
	for i, x := range in.Block().Instrs {
		if x == in {
			return i
		}
	}
	return -1
}

// EqFact describes a condition normalised to an (in)equality between two values.
type EqFact struct {
	X, Y  ssa.Value
	Equal bool // X == Y known (true) or X != Y known (false)
}

// AsEq normalises a Cond that is a ==/!= comparison.
func (c Cond) AsEq() (EqFact, bool) {
	b, ok := c.V.(*ssa.BinOp)
	if !ok {
		return EqFact{}, false
	}
	switch b.Op {
	case token.EQL:
		return EqFact{b.X, b.Y, c.Pol}, true
	case token.NEQ:
		return EqFact{b.X, b.Y, !c.Pol}, true
	}
	return EqFact{}, false
}

// KnownNonNil reports whether conds establish v != nil (v compared by SameValue).
func KnownNonNil(conds []Cond, v ssa.Value) bool {
	for _, c := range conds {
		if e, ok := c.AsEq(); ok && !e.Equal {
			if (IsNilConst(e.Y) && SameValue(e.X, v)) || (IsNilConst(e.X) && SameValue(e.Y, v)) {
				return true
			}
		}
	}
	return false
}

// KnownNil reports whether conds establish v == nil.
func KnownNil(conds []Cond, v ssa.Value) bool {
	for _, c := range conds {
		if e, ok := c.AsEq(); ok && e.Equal {
			if (IsNilConst(e.Y) && SameValue(e.X, v)) || (IsNilConst(e.X) && SameValue(e.Y, v)) {
				return true
			}
		}
	}
	return false
}

// KnownTrue reports whether conds establish that boolean value v is true (pol) by identity.
func KnownBool(conds []Cond, v ssa.Value, pol bool) bool {
	for _, c := range conds {
		if c.Pol == pol && (c.V == v || SameValue(c.V, v)) {
			return true
		}
	}
	return false
}

// ---------------------------------------------------------------------------
// path queries over the CFG

// pos identifies a point in a function: block + instruction index.
type point struct {
	b *ssa.BasicBlock
	i int
}

// MustReachBeforeReturn reports whether every path from just after `from` to a
// normal Return passes through an instruction satisfying pred.  Paths ending
// in Panic are ignored.  If stop != nil, paths are also cut (treated as
// satisfied) at instructions satisfying stop.
// It returns the offending Return instruction when the answer is false.
func MustReachBeforeReturn(from ssa.Instruction, pred func(ssa.Instruction) bool, stop func(ssa.Instruction) bool) (bool, ssa.Instruction) {
	start := point{from.Block(), indexOf(from) + 1}
	return mustReach(start, pred, stop)
}

// MustReachFromEntry: every path from function entry to a normal return passes through pred.
func MustReachFromEntry(f *ssa.Function, pred func(ssa.Instruction) bool, stop func(ssa.Instruction) bool) (bool, ssa.Instruction) {
	if len(f.Blocks) == 0 {
		return false, nil
	}
	return mustReach(point{f.Blocks[0], 0}, pred, stop)
}

// MustReachFromBlock: every path from the start of block b to a normal return passes through pred.
func MustReachFromBlock(b *ssa.BasicBlock, pred func(ssa.Instruction) bool, stop func(ssa.Instruction) bool) (bool, ssa.Instruction) {
	return mustReach(point{b, 0}, pred, stop)
}

func mustReach(start point, pred func(ssa.Instruction) bool, stop func(ssa.Instruction) bool) (bool, ssa.Instruction) {
	visited := map[*ssa.BasicBlock]bool{}
	var walk func(p point) (bool, ssa.Instruction)
	walk = func(p point) (bool, ssa.Instruction) {
		for i := p.i; i < len(p.b.Instrs); i++ {
			in := p.b.Instrs[i]
			if pred(in) {
				return true, nil
			}
			if stop != nil && stop(in) {
				return true, nil
			}
			switch in.(type) {
			case *ssa.Return:
				return false, in
			case *ssa.Panic:
				return true, nil
			}
		}
		for _, s := range p.b.Succs {
			if visited[s] {
				continue
			}
			visited[s] = true
			if ok, bad := walk(point{s, 0}); !ok {
				return false, bad
			}
		}
		return true, nil
	}
	return walk(start)
}

// CanReach reports whether some path leads from just after `from` to an
// instruction satisfying pred without passing through an instruction
// satisfying avoid (avoid may be nil).
func CanReach(from ssa.Instruction, pred func(ssa.Instruction) bool, avoid func(ssa.Instruction) bool) (bool, ssa.Instruction) {
	return canReach(point{from.Block(), indexOf(from) + 1}, pred, avoid)
}

// CanReachFromBlock is CanReach starting at the top of block b.
func CanReachFromBlock(b *ssa.BasicBlock, pred func(ssa.Instruction) bool, avoid func(ssa.Instruction) bool) (bool, ssa.Instruction) {
	return canReach(point{b, 0}, pred, avoid)
}

func canReach(start point, pred func(ssa.Instruction) bool, avoid func(ssa.Instruction) bool) (bool, ssa.Instruction) {
	visited := map[*ssa.BasicBlock]bool{}
	var walk func(p point) (bool, ssa.Instruction)
	walk = func(p point) (bool, ssa.Instruction) {
		for i := p.i; i < len(p.b.Instrs); i++ {
			in := p.b.Instrs[i]
			if pred(in) {
				return true, in
			}
			if avoid != nil && avoid(in) {
				return false, nil
			}
		}
		for _, s := range p.b.Succs {
			if visited[s] {
				continue
			}
			visited[s] = true
			if ok, at := walk(point{s, 0}); ok {
				return true, at
			}
		}
		return false, nil
	}
	return walk(start)
}

// Returns lists the Return instructions of f.
func Returns(f *ssa.Function) []*ssa.Return {
	var out []*ssa.Return
	for _, b := range f.Blocks {
		if b == f.Recover {
			continue // the synthetic return taken after a recovered panic
		}
		for _, in := range b.Instrs {
			if r, ok := in.(*ssa.Return); ok {
				out = append(out, r)
			}
		}
	}
	return out
}

// ReturnValue reads result i of a Return through defer-spilled named results.
func ReturnValue(r *ssa.Return, i int) ssa.Value {
	if i >= len(r.Results) {
		return nil
	}
	v := Strip(r.Results[i])
	u, ok := v.(*ssa.UnOp)
	if !ok || u.Op != token.MUL {
		return v
	}
	al, ok := u.X.(*ssa.Alloc)
	if !ok {
		return v
	}
	// functions with defers return through spilled locals: `*t = x; rundefers; return *t`.
	// Find the store that reaches this return: walk back through the block and its
	// chain of unique predecessors.
	b := r.Block()
	idx := len(b.Instrs)
	for hops := 0; hops < 32; hops++ {
		for j := idx - 1; j >= 0; j-- {
			if st, ok := b.Instrs[j].(*ssa.Store); ok && st.Addr == ssa.Value(al) {
				return Strip(st.Val)
			}
		}
		if len(b.Preds) != 1 {
			return v
		}
		b = b.Preds[0]
		idx = len(b.Instrs)
	}
	return v
}

// IsCallInstr adapts a CallInfo predicate to an instruction predicate.
func IsCall(names ...string) func(ssa.Instruction) bool {
	return func(in ssa.Instruction) bool {
		ci, ok := in.(ssa.CallInstruction)
		if !ok {
			return false
		}
		if _, isDefer := in.(*ssa.Defer); isDefer {
			return false
		}
		if _, isGo := in.(*ssa.Go); isGo {
			return false
		}
		return Resolve(ci).Is(names...)
	}
}

// CondTrueSucc returns the successor block taken when the If's condition has truth value pol,
// after normalising leading negations.
func CondSucc(ifi *ssa.If, pol bool) *ssa.BasicBlock {
	b := ifi.Block()
	if pol {
		return b.Succs[0]
	}
	return b.Succs[1]
}

// ReachableAvoiding reports whether target is reachable from f's entry without
// executing an instruction satisfying avoid and without taking an edge for
// which skipEdge(from, to) is true.
func ReachableAvoiding(f *ssa.Function, target ssa.Instruction, avoid func(ssa.Instruction) bool, skipEdge func(from, to *ssa.BasicBlock) bool) bool {
	if len(f.Blocks) == 0 {
		return false
	}
	seen := map[*ssa.BasicBlock]bool{}
	var walk func(b *ssa.BasicBlock) bool
	walk = func(b *ssa.BasicBlock) bool {
		if seen[b] {
			return false
		}
		seen[b] = true
		for _, in := range b.Instrs {
			if in == target {
				return true
			}
			if avoid != nil && avoid(in) {
				return false
			}
		}
		for _, s := range b.Succs {
			if skipEdge != nil && skipEdge(b, s) {
				continue
			}
			if walk(s) {
				return true
			}
		}
		return false
	}
	return walk(f.Blocks[0])
}
