package rules

import (
	"fmt"
	"go/token"
	"go/types"

	"golang.org/x/tools/go/ssa"

	"gscheck/engine"
)

func init() {
	register(&Property{
		Meta: engine.PropMeta{
			ID:    "C16",
			Title: "Every queued message is reported sent or failed exactly once",
			Explanation: "Decides: (R1) from a successfully extracted message to the next extract/return exactly one terminal event (Sent or Error) is published on every path (path counting with summaries of boolean helpers); " +
				"(R2) all of a builder's subscribers are subscribed to its topic when it is built (before any publish), and the topic is closed after the final publish on every path (deferred close dominating the publishes on the send path, explicit close following the publish on the drain path); " +
				"(R3) on shutdown the goroutine keeps extracting until extraction fails, and the 'signalled iff builders remain' invariant is kept: an enqueue that leaves a non-empty builder signals, an extract that leaves builders behind re-signals; " +
				"(R4) an append to the builders list is ordered against the final drain by a shutdown indicator tested under the builders lock. " +
				"Not decided: eventual delivery (liveness), the publisher's own ordering (C18).",
			Assumptions: append([]string{"notifications.Publisher delivers what is published to the subscribers attached at that time (C18)"}, commonTrust...),
			Technique:   "CFG path counting with helper summaries, dominance of deferred close, lock-set typestate on the builders list",
		},
		Run: runC16,
	})
}

func runC16(c *engine.Ctx) {
	r1 := c.Rule("R1", "exactly one terminal event (sent/error) per extracted message on every path", 1)
	r2 := c.Rule("R2", "subscribers attached at build time; topic closed after the final publish on every path", 2)
	r3 := c.Rule("R3", "shutdown drains until extraction fails; enqueue/extract keep 'signalled iff builders remain'", 2)
	r4 := c.Rule("R4", "no enqueue after the final drain: appends to builders test a shutdown indicator under the builders lock", 1)

	// a queue that has ended must not be handed out again: messages queued on it would never be sent nor reported
	r5 := c.Rule("R5", "a queue that has ended is removed from the peer table (whenever it is still the one listed), so no message is queued on a dead queue", 1)
	if table := c.P.Field("peermanager", "PeerManager", "peerProcesses"); table != nil {
		c17ShutdownCallback(c, r5, c.P.FuncsIn("peermanager"), table)
	} else {
		c.AnchorMissing(r5, "peermanager.PeerManager.peerProcesses")
	}

	m := loadMQ(c, r1)
	if !m.ok {
		return
	}
	if m.extract == nil {
		c.AnchorMissing(r1, "the function that takes the head builder off MessageQueue.builders")
		return
	}
	isExtract := func(in ssa.Instruction) bool {
		cc, ok := in.(*ssa.Call)
		return ok && cc.Call.StaticCallee() == m.extract
	}
	isClose := func(in ssa.Instruction) bool {
		cc, ok := in.(*ssa.Call)
		return ok && cc.Call.IsInvoke() && cc.Call.Method.Name() == "Close" && engine.IsNamed(cc.Call.Value.Type(), "~/notifications", "Publisher")
	}
	for _, f := range m.fns {
		for _, ci := range engine.Calls(f) {
			if ci.Static != m.extract {
				continue
			}
			call := ci.Value()
			if call == nil {
				continue
			}
			c.Analysed(engine.FuncName(f))
			start := succWhenErrNil(f, call)
			if start == nil {
				c.Undecided(r1, engine.FuncName(f), ci.Instr.Pos(), "the error of the extract step is not tested")
				continue
			}
			stops := engine.CountFrom(start, engine.C0, m.countCfg(isExtract))
			ok := len(stops) > 0
			bad := ""
			loops := false
			returns := false
			for _, s := range stops {
				if s.Count != engine.C1 {
					ok = false
					bad = fmt.Sprintf("%s terminal event(s) between a successful extract and %s", s.Count, describeStop(c, s.At))
				}
				if _, isRet := s.At.(*ssa.Return); isRet {
					returns = true
				} else {
					loops = true
				}
			}
			if !ok {
				// the CFG counter could not show it (counts merged at a join): ask the evaluator, which keeps flags concrete
				if exactlyOneByEvaluation(start, m.isTerminalCall, isExtract) {
					ok, bad = true, ""
				}
			}
			c.Decide(r1, engine.FuncName(f), ci.Instr.Pos(), ok, "exactly one sent/error event on every path from a successful extract", bad)

			// R2: topic close after final publish
			key := engine.FuncName(f) + "|close-topic"
			// deferred close dominating all terminal publishes, or explicit close following
			var deferredClose *ssa.Defer
			engine.Instrs(f, func(in ssa.Instruction) {
				if d, ok := in.(*ssa.Defer); ok && d.Call.IsInvoke() && d.Call.Method.Name() == "Close" && engine.IsNamed(d.Call.Value.Type(), "~/notifications", "Publisher") {
					deferredClose = d
				}
			})
			closeOK := true
			why := ""
			nTerm := 0
			engine.Instrs(f, func(in ssa.Instruction) {
				isT := m.isTerminalCall(in)
				if cc, ok := in.(*ssa.Call); ok && !isT {
					if t, fl, ok := m.countCfg(nil).BranchEvent(cc); ok && (t != engine.C0 || fl != engine.C0) {
						isT = true
					}
				}
				if !isT {
					return
				}
				nTerm++
				if deferredClose != nil && engine.Before(deferredClose, in) {
					return
				}
				if r, _ := engine.MustReachBeforeReturn(in, isClose, isExtract); r {
					// also require that it is reached before the *next* extract, not merely before return
					if ok, _ := engine.CanReach(in, isExtract, isClose); !ok {
						return
					}
				}
				closeOK = false
				why = "a terminal event at " + c.P.Pos(in.Pos()) + " is not followed by closing the message's topic on every path (subscribers are never told the subscription ended)"
			})
			if nTerm > 0 {
				c.Decide(r2, key, ci.Instr.Pos(), closeOK, "topic closed after the final publish on every path", why)
			}

			// R3: drain loop: an extract site in the queue goroutine's own function is the shutdown drain
			isRoot := false
			for _, g := range m.fns {
				engine.Instrs(g, func(in ssa.Instruction) {
					if gi, ok := in.(*ssa.Go); ok && gi.Call.StaticCallee() == f {
						isRoot = true
					}
				})
			}
			if loops || isRoot {
				returns = returns || !loops
				c.Decide(r3, engine.FuncName(f)+"|drain-until-empty", ci.Instr.Pos(), !returns,
					"after each drained message control returns to the extract step; the loop ends only when extraction fails",
					"the shutdown drain can stop after a successfully extracted message while builders may remain: their subscribers are never notified")
			}
		}
	}

	// R3e: a failing extract means "nothing (more) to send": it either found no builders or took the head off first.
	// (If it could fail while leaving a builder in place, the run loop and the shutdown drain would both stop in
	// front of messages queued behind it: never sent, never reported.)
	{
		var pop *ssa.Store
		for _, st := range engine.StoresTo([]*ssa.Function{m.popFn}, m.builders) {
			if sl, ok := st.Val.(*ssa.Slice); ok && sl.Low != nil {
				pop = st
			}
		}
		// from the branch on which the list is known to be non-empty, every path to a return takes the head off:
		// the step can then only fail with the list empty, or after removing what it failed on
		okFail, nFail := true, 0
		var at token.Pos
		if pop != nil {
			isPop := func(in ssa.Instruction) bool { return in == ssa.Instruction(pop) }
			for _, b := range m.popFn.Blocks {
				ifi, ok := b.Instrs[len(b.Instrs)-1].(*ssa.If)
				if !ok {
					continue
				}
				bo, ok := ifi.Cond.(*ssa.BinOp)
				if !ok {
					continue
				}
				lc, ok := engine.LocalValue(bo.X).(*ssa.Call)
				if !ok {
					continue
				}
				if lb, ok := lc.Call.Value.(*ssa.Builtin); !ok || lb.Name() != "len" || !isLoadOfField(lc.Call.Args[0], m.builders) {
					continue
				}
				k, isK := engine.ConstInt(bo.Y)
				if !isK || k != 0 {
					continue
				}
				var nonEmpty *ssa.BasicBlock
				switch bo.Op {
				case token.EQL, token.LEQ:
					nonEmpty = b.Succs[1]
				case token.NEQ, token.GTR:
					nonEmpty = b.Succs[0]
				default:
					continue
				}
				if engine.Before(pop, ifi) {
					continue // a test made after the head was taken (the "more work?" re-signal)
				}
				nFail++
				if r, bad := engine.MustReachFromBlock(nonEmpty, isPop, nil); !r {
					okFail = false
					if bad != nil {
						at = bad.Pos()
					}
				}
			}
		}
		if pop == nil {
			c.AnchorMissing(r3, "the store that takes the head builder off MessageQueue.builders")
		} else {
			if at == token.NoPos {
				at = m.extract.Pos()
			}
			c.Decide(r3, engine.FuncName(m.extract)+"|fails-only-when-drained", at, okFail && nFail > 0,
				"the extract step fails only when there are no builders, or after taking the head off",
				"the extract step can fail while leaving a builder at the head of the queue: the run loop and the shutdown drain both stop in front of it, so messages queued behind it are never sent and never reported")
		}
	}

	// R2: subscribers attached at build
	subsF := c.P.Field("messagequeue", "Builder", "subscribers")
	topicF := c.P.Field("messagequeue", "Builder", "topic")
	buildFn := c.P.Func("messagequeue", "Builder", "build")
	if subsF == nil || topicF == nil || buildFn == nil {
		c.AnchorMissing(r2, "messagequeue.Builder{subscribers,topic}.build")
	} else {
		c.Analysed(engine.FuncName(buildFn))
		ok := false
		for _, ci := range engine.Calls(buildFn) {
			if !ci.Common.IsInvoke() || ci.Common.Method.Name() != "Subscribe" {
				continue
			}
			// topic arg is b.topic; subscriber arg ranges over b.subscribers
			topicOK := fieldReadOf(ci.Common.Args[0]) == topicF
			subOK := false
			if ex, isEx := engine.Strip(ci.Common.Args[1]).(*ssa.Extract); isEx {
				if nx, isNx := ex.Tuple.(*ssa.Next); isNx {
					if rg, isRg := nx.Iter.(*ssa.Range); isRg && isLoadOfField(rg.X, subsF) {
						subOK = true
					}
				}
			}
			if topicOK && subOK && inLoop(ci.Instr.Block()) {
				ok = true
			}
		}
		c.Decide(r2, engine.FuncName(buildFn)+"|subscribe-all", buildFn.Pos(), ok,
			"every subscriber of the builder is subscribed to the builder's topic when the message is built",
			"build() does not subscribe every entry of the builder's subscribers map to the builder's topic")
		// the extract step returns build()'s result (so subscription precedes every publish of that message)
		viaBuild := false
		for _, r := range engine.Returns(m.extract) {
			if len(r.Results) < 3 {
				continue
			}
			if ex, isEx := engine.LocalValue(r.Results[1]).(*ssa.Extract); isEx {
				if call, isC := ex.Tuple.(*ssa.Call); isC && call.Call.StaticCallee() == buildFn {
					viaBuild = true
				}
			}
		}
		c.Decide(r2, engine.FuncName(m.extract)+"|metadata-from-build", m.extract.Pos(), viaBuild,
			"the metadata used for publishing comes from build(), i.e. after subscription",
			"the extract step hands out message metadata that does not come from build(): subscribers may not be attached before the first publish")
	}

	// R3: signalling invariant
	workF := c.P.Field("messagequeue", "MessageQueue", "outgoingWork")
	if workF == nil {
		c.AnchorMissing(r3, "messagequeue.MessageQueue.outgoingWork")
	} else {
		signals := func(f *ssa.Function) []ssa.Instruction {
			var out []ssa.Instruction
			engine.Instrs(f, func(in ssa.Instruction) {
				switch x := in.(type) {
				case *ssa.Send:
					if isLoadOfField(x.Chan, workF) {
						out = append(out, in)
					}
				case *ssa.Select:
					for _, st := range x.States {
						if st.Dir == types.SendOnly && isLoadOfField(st.Chan, workF) {
							out = append(out, in)
						}
					}
				}
			})
			return out
		}
		// extract re-signals when builders remain (the signal may sit in a helper that always signals)
		ok := false
		isSignal := func(in ssa.Instruction) bool {
			switch x := in.(type) {
			case *ssa.Send:
				return isLoadOfField(x.Chan, workF)
			case *ssa.Select:
				for _, st := range x.States {
					if st.Dir == types.SendOnly && isLoadOfField(st.Chan, workF) {
						return true
					}
				}
			}
			return false
		}
		liftedSignal := engine.LiftMust(isSignal)
		var resignals []ssa.Instruction
		engine.Instrs(m.popFn, func(in ssa.Instruction) {
			if liftedSignal(in) {
				resignals = append(resignals, in)
			}
		})
		for _, s := range resignals {
			for _, cond := range engine.InstrConds(s) {
				if b, isB := cond.V.(*ssa.BinOp); isB && cond.Pol && (b.Op == token.GTR || b.Op == token.NEQ) {
					if call, isC := b.X.(*ssa.Call); isC {
						if bi, isBi := call.Call.Value.(*ssa.Builtin); isBi && bi.Name() == "len" {
							if k, isK := engine.ConstInt(b.Y); isK && k == 0 {
								ok = true
							}
						}
					}
				}
			}
		}
		// ... and on every path from the pop to a return the "builders remain?" decision is taken (a return that comes
		// before it spends the one pending signal on this call and strands what is queued behind)
		if ok {
			var pop *ssa.Store
			for _, st := range engine.StoresTo([]*ssa.Function{m.popFn}, m.builders) {
				if sl, isSl := st.Val.(*ssa.Slice); isSl && sl.Low != nil {
					pop = st
				}
			}
			if pop != nil {
				isDecision := func(in ssa.Instruction) bool {
					if liftedSignal(in) {
						return true
					}
					ifi, isIf := in.(*ssa.If)
					if !isIf {
						return false
					}
					for _, cd := range engine.FlattenCond(engine.Cond{V: ifi.Cond, Pol: true}) {
						if b, isB := engine.LocalValue(cd.V).(*ssa.BinOp); isB {
							if call, isC := engine.LocalValue(b.X).(*ssa.Call); isC {
								if bi, isBi := call.Call.Value.(*ssa.Builtin); isBi && bi.Name() == "len" && (isLoadOfField(call.Call.Args[0], m.builders) || engine.Strip(call.Call.Args[0]) == engine.Strip(pop.Val)) {
									return true // length of the list, or of what has just been stored as the list
								}
							}
						}
					}
					return false
				}
				if r, _ := engine.MustReachBeforeReturn(pop, isDecision, nil); !r {
					ok = false
				}
			}
		}
		c.Decide(r3, engine.FuncName(m.extract)+"|resignal", m.extract.Pos(), ok,
			"extract re-signals outgoing work when builders remain",
			"the extract step no longer re-signals when builders remain: queued messages can be stranded (and missed by the shutdown drain)")
		// enqueue signals when the build leaves a non-empty builder
		enqOK := false
		var enqPos token.Pos
		for _, f := range m.fns {
			for _, ci := range engine.Calls(f) {
				if ci.Static == nil || engine.FuncPkgPath(ci.Static) != engine.Module+"/messagequeue" {
					continue
				}
				// a helper whose body is a signal
				if len(signals(ci.Static)) == 0 || ci.Static == m.extract {
					continue
				}
				// dominated by the true result of the build step
				for _, cond := range engine.InstrConds(ci.Instr) {
					if call, isC := cond.V.(*ssa.Call); isC && cond.Pol {
						if sc := call.Call.StaticCallee(); sc != nil && appendsToField(sc, m.builders) {
							// the build step returns !builder.Empty()
							retOK := true
							for _, r := range engine.Returns(sc) {
								v := engine.LocalValue(r.Results[0])
								u, isU := v.(*ssa.UnOp)
								if !isU || u.Op != token.NOT {
									retOK = false
									continue
								}
								if ec, isEC := u.X.(*ssa.Call); !isEC || ec.Call.StaticCallee() == nil || ec.Call.StaticCallee().Name() != "Empty" {
									retOK = false
								}
							}
							if retOK {
								enqOK = true
								enqPos = ci.Instr.Pos()
							}
						}
					}
				}
			}
		}
		c.Decide(r3, "enqueue|signals-when-nonempty", enqPos, enqOK,
			"an enqueue that leaves a non-empty builder signals outgoing work",
			"no enqueue path signals outgoing work exactly when the build step leaves a non-empty builder")
	}

	// R3d: a consumed work token obliges an extract attempt: whoever receives from the work channel must reach the
	// extract step (directly or through a callee that always reaches it) before waiting again or returning —
	// otherwise the token is lost and "signalled iff builders remain" breaks (the shutdown drain would be skipped)
	if workF := c.P.Field("messagequeue", "MessageQueue", "outgoingWork"); workF != nil {
		alwaysExtracts := func(g *ssa.Function) bool {
			if g == nil || g.Blocks == nil {
				return false
			}
			ok, _ := engine.MustReachFromEntry(g, isExtract, nil)
			return ok
		}
		reachesExtract := func(in ssa.Instruction) bool {
			if isExtract(in) {
				return true
			}
			if cc, ok := in.(*ssa.Call); ok {
				return alwaysExtracts(cc.Call.StaticCallee())
			}
			return false
		}
		for _, f := range m.fns {
			engine.Instrs(f, func(in ssa.Instruction) {
				sel, ok := in.(*ssa.Select)
				if !ok {
					return
				}
				for k, st := range sel.States {
					if st.Dir != types.RecvOnly || !isLoadOfField(st.Chan, workF) {
						continue
					}
					// the block taken for case k
					var start *ssa.BasicBlock
					for _, b := range f.Blocks {
						ifi, isIf := b.Instrs[len(b.Instrs)-1].(*ssa.If)
						if !isIf {
							continue
						}
						bo, isB := ifi.Cond.(*ssa.BinOp)
						if !isB || bo.Op != token.EQL {
							continue
						}
						ex, isEx := bo.X.(*ssa.Extract)
						if !isEx || ex.Tuple != ssa.Value(sel) || ex.Index != 0 {
							continue
						}
						if n, isK := engine.ConstInt(bo.Y); isK && int(n) == k {
							start = b.Succs[0]
						}
					}
					if start == nil {
						c.Undecided(r3, engine.FuncName(f)+"|token-consumer", sel.Pos(), "cannot locate the case block of the work-token receive")
						continue
					}
					isSelect := func(x ssa.Instruction) bool { _, s := x.(*ssa.Select); return s }
					// must reach an extract before the next select or a return
					okT := true
					if r, _ := engine.CanReachFromBlock(start, func(x ssa.Instruction) bool {
						if isSelect(x) {
							return true
						}
						_, isRet := x.(*ssa.Return)
						return isRet
					}, reachesExtract); r {
						okT = false
					}
					c.Decide(r3, fmt.Sprintf("%s|token-consumer#%d", engine.FuncName(f), k), sel.Pos(), okT,
						"a consumed work token always leads to an extract attempt (which re-signals when builders remain)",
						"a work token can be consumed without an extract attempt: queued builders are left with no signal, and the shutdown drain (which runs only when signalled) skips them — they are never reported sent or failed")
				}
			})
		}
	}

	// R4: typestate on the builders list
	lc := engine.NewLockChecker(c.P)
	nApp := 0
	for _, f := range m.fns {
		for _, st := range engine.StoresTo([]*ssa.Function{f}, m.builders) {
			call, ok := st.Val.(*ssa.Call)
			if !ok {
				continue
			}
			if b, isB := call.Call.Value.(*ssa.Builtin); !isB || b.Name() != "append" {
				continue
			}
			nApp++
			key := engine.FuncName(f) + "|append-builders"
			held := lc.Sets(f).HeldAt(st)[m.buildersLk]
			if !held {
				c.Violate(r4, key, st.Pos(), "builders is appended to without holding buildersLk")
				continue
			}
			// a shutdown indicator: a bool field of MessageQueue tested before the append in the same lock hold,
			// and written under the same lock by the queue goroutine
			guarded := false
			for _, cond := range engine.InstrConds(st) {
				if fl, base := engine.LoadedField(cond.V); fl != nil && base != nil {
					if b, isBasic := fl.Type().Underlying().(*types.Basic); isBasic && b.Kind() == types.Bool && engine.IsNamed(base.Type(), "~/messagequeue", "MessageQueue") {
						// written under the lock somewhere
						for _, g := range m.fns {
							for _, w := range engine.StoresTo([]*ssa.Function{g}, fl) {
								if lc.Sets(g).HeldAt(w)[m.buildersLk] {
									guarded = true
								}
							}
						}
					}
				}
			}
			c.Decide(r4, key, st.Pos(), guarded,
				"append ordered against shutdown by a flag tested and set under buildersLk",
				"nothing orders this enqueue against the queue goroutine's final drain: a message built on a queue that has just shut down is never reported sent or failed (and its reservation is taken on a released peer)")
		}
	}
	if nApp == 0 {
		c.AnchorMissing(r4, "an append to MessageQueue.builders")
	}
}

func appendsToField(f *ssa.Function, field *types.Var) bool {
	for _, st := range engine.StoresTo([]*ssa.Function{f}, field) {
		if call, ok := st.Val.(*ssa.Call); ok {
			if b, isB := call.Call.Value.(*ssa.Builtin); isB && b.Name() == "append" {
				return true
			}
		}
	}
	return false
}

// succWhenErrNil: the block entered when the error result of call is nil.
func succWhenErrNil(f *ssa.Function, call *ssa.Call) *ssa.BasicBlock {
	for _, b := range f.Blocks {
		ifi, ok := b.Instrs[len(b.Instrs)-1].(*ssa.If)
		if !ok {
			continue
		}
		bo, ok := ifi.Cond.(*ssa.BinOp)
		if !ok || (bo.Op != token.EQL && bo.Op != token.NEQ) || !engine.IsNilConst(bo.Y) {
			continue
		}
		ex, ok := engine.LocalValue(bo.X).(*ssa.Extract)
		if !ok || ex.Tuple != call {
			continue
		}
		if bo.Op == token.EQL {
			return b.Succs[0]
		}
		return b.Succs[1]
	}
	return nil
}
