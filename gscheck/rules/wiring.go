package rules

import (
	"fmt"
	"go/token"
	"go/types"

	"golang.org/x/tools/go/ssa"

	"gscheck/engine"
)

// optionSetterWrites: the option constructor named optName (in impl) returns a
// closure that stores its parameter into cfgField.
func optionSetterWrites(c *engine.Ctx, rule, optName string, cfgField *types.Var) {
	key := "impl." + optName + "->" + cfgField.Name()
	f := c.P.Func("impl", "", optName)
	if f == nil {
		c.AnchorMissing(rule, "impl."+optName)
		return
	}
	for _, cl := range f.AnonFuncs {
		for _, st := range engine.StoresTo([]*ssa.Function{cl}, cfgField) {
			v := engine.Strip(st.Val)
			if fv, ok := v.(*ssa.FreeVar); ok && len(f.Params) > 0 && fv.Name() == f.Params[0].Name() {
				c.Hold(rule, key, st.Pos(), "option stores its argument into "+cfgField.Name())
				return
			}
			// captured by reference: load of freevar
			if u, ok := v.(*ssa.UnOp); ok && u.Op == token.MUL {
				if fv, ok := u.X.(*ssa.FreeVar); ok && len(f.Params) > 0 && fv.Name() == f.Params[0].Name() {
					c.Hold(rule, key, st.Pos(), "option stores its argument into "+cfgField.Name())
					return
				}
			}
		}
	}
	c.Violate(rule, key, f.Pos(), fmt.Sprintf("option %s does not store its argument into the %s configuration field", optName, cfgField.Name()))
}

// configReaches: in function `from`, some call to callee passes a load of
// cfgField at an argument position whose parameter, inside callee, is stored
// into dstField (through a struct literal or assignment).  conv allows an
// integer conversion in between.
func configReaches(c *engine.Ctx, rule string, from *ssa.Function, cfgField *types.Var, callee *ssa.Function, dstField *types.Var) bool {
	key := fmt.Sprintf("%s->%s.%s", cfgField.Name(), engine.FuncName(callee), dstField.Name())
	calls := 0
	for _, ci := range engine.Calls(from) {
		if ci.Static != callee {
			continue
		}
		calls++
		idx := -1
		for i, a := range ci.Common.Args {
			if isLoadOfField(a, cfgField) {
				idx = i
			}
		}
		if idx < 0 {
			c.Violate(rule, key, ci.Instr.Pos(), fmt.Sprintf("%s is not passed to %s", cfgField.Name(), engine.FuncName(callee)))
			return false
		}
		param := callee.Params[idx]
		ok := false
		for _, st := range engine.StoresTo(engine.WithClosures(callee), dstField) {
			if stripConv(st.Val) == param || engine.LocalValue(st.Val) == param {
				ok = true
			}
		}
		if !ok {
			c.Violate(rule, key, ci.Instr.Pos(), fmt.Sprintf("%s is passed as parameter %q of %s, which does not store it into %s (swapped or dropped wiring)", cfgField.Name(), param.Name(), engine.FuncName(callee), dstField.Name()))
			return false
		}
		c.Hold(rule, key, ci.Instr.Pos(), fmt.Sprintf("passed as parameter %q and stored into %s", param.Name(), dstField.Name()))
		return true
	}
	if calls == 0 {
		c.AnchorMissing(rule, "call of "+engine.FuncName(callee)+" in "+engine.FuncName(from))
	}
	return false
}

func stripConv(v ssa.Value) ssa.Value {
	for {
		switch x := v.(type) {
		case *ssa.Convert:
			v = x.X
		case *ssa.ChangeType:
			v = x.X
		case *ssa.MakeInterface:
			v = x.X
		default:
			return v
		}
	}
}

func isLoadOfField(v ssa.Value, f *types.Var) bool {
	v = stripConv(v)
	fl, _ := engine.LoadedField(v)
	return fl != nil && fl == f
}
