package rules

import (
	"fmt"
	"go/constant"
	"go/token"
	"go/types"

	"golang.org/x/tools/go/ssa"

	"gscheck/engine"
)

func init() {
	register(&Property{
		Meta: engine.PropMeta{
			ID:    "C24",
			Title: "Requestor avoids unnecessary traffic",
			Explanation: "Decides: (R1) local first — the executor sends the request to the network only after a load reported RemoteMissingBlockErr, and at most once per execution (one-shot flag); " +
				"(R2) the skip count sent under the do-not-send-first-blocks extension is max(user-supplied value, blocks already traversed) read at that moment, and that request is the one sent to the request's own peer; " +
				"(R3) writer/reader agreement: each extension the requestor encodes is encoded by the codec package whose decoder the responder applies under the same extension name; (R4) the responder's send decision honours the skip count and in-request dedup (C19.R5). " +
				"Not decided: exactness of the count and absence of redundant blocks over all DAGs and stores.",
			Assumptions: commonTrust,
			Technique:   "guard dominance, value provenance, table agreement between encoder and decoder call sites",
		},
		Run: runC24,
	})
}

func runC24(c *engine.Ctx) {
	r1 := c.Rule("R1", "the network request is sent only after a RemoteMissingBlockErr load result, at most once per execution", 1)
	r2 := c.Rule("R2", "skip count = max(user value, NBlocksTraversed()); encoded under the do-not-send-first-blocks name; sent to the request's peer", 1)
	r3 := c.Rule("R3", "each extension the requestor encodes uses the codec package the responder decodes that name with", 1)
	r4 := c.Rule("R4", "responder send decision honours skip count and dedup", 1)
	r5 := c.Rule("R5", "extension wiring on the responder: the dedup key is applied before the ignore list and skip count are recorded (C03.R6)", 2)
	c03Extensions(c, r5)

	ex := "requestmanager/executor"
	missT := c.P.NamedType("", "RemoteMissingBlockErr")
	reqF := c.P.Field(ex, "RequestTask", "Request")
	userSkip := c.P.Field(ex, "RequestTask", "DoNotSendFirstBlocks")
	peerF := c.P.Field(ex, "RequestTask", "P")
	if missT == nil || reqF == nil || userSkip == nil || peerF == nil {
		c.AnchorMissing(r1, "graphsync.RemoteMissingBlockErr / executor.RequestTask{Request,DoNotSendFirstBlocks,P}")
		return
	}
	fns := c.P.FuncsIn(ex)
	// the function that sends the task's own request: SendRequest invoke whose request argument derives from rt.Request
	var starter *ssa.Function
	var sendCall ssa.Instruction
	for _, f := range fns {
		for _, ci := range engine.Calls(f) {
			if !ci.Common.IsInvoke() || ci.Common.Method.Name() != "SendRequest" {
				continue
			}
			if derivesFromField(ci.Common.Args[1], reqF, 6) {
				starter, sendCall = f, ci.Instr
			}
		}
	}
	if starter == nil {
		c.AnchorMissing(r1, "the SendRequest call that sends the task's own request")
		return
	}
	c.Analysed(engine.FuncName(starter))
	// R1: call sites of starter
	n := 0
	for _, f := range fns {
		for _, ci := range engine.Calls(f) {
			if ci.Static != starter {
				continue
			}
			n++
			c.Analysed(engine.FuncName(f))
			missing, once := false, false
			for _, cd := range engine.InstrConds(ci.Instr) {
				if e, ok := cd.V.(*ssa.Extract); ok && e.Index == 1 && cd.Pol {
					if ta, ok := e.Tuple.(*ssa.TypeAssert); ok && types.Identical(ta.AssertedType, missT) {
						missing = true
					}
				}
				if ph, ok := cd.V.(*ssa.Phi); ok && !cd.Pol {
					// one-shot flag: every constant reaching the flag is `false` from outside the loop
					// or `true` set on a path through the call
					f0, t1, bad := false, false, false
					seen := map[*ssa.Phi]bool{}
					var walk func(p *ssa.Phi)
					walk = func(p *ssa.Phi) {
						if seen[p] {
							return
						}
						seen[p] = true
						for i, e := range p.Edges {
							pred := p.Block().Preds[i]
							if p2, isPhi := e.(*ssa.Phi); isPhi {
								walk(p2)
								continue
							}
							b, isB := engine.ConstBool(e)
							if !isB {
								bad = true
								continue
							}
							if b {
								if pred == ci.Instr.Block() || ci.Instr.Block().Dominates(pred) {
									t1 = true
								} else {
									bad = true
								}
							} else {
								if ci.Instr.Block().Dominates(pred) {
									bad = true // reset after the send
								} else {
									f0 = true
								}
							}
						}
					}
					walk(ph)
					if f0 && t1 && !bad {
						once = true
					}
				}
			}
			if !(missing && once) {
				// the one-shot flag may travel through results of a helper: count, per path of the evaluated loop, how
				// often the request is started — at most once when loads keep reporting a missing block, never otherwise
				okEval := true
				for _, miss := range []bool{true, false} {
					isStart := func(in ssa.Instruction) bool {
						cc, ok := in.(*ssa.Call)
						return ok && cc.Call.StaticCallee() == starter
					}
					ev := &engine.Evaluator{MaxVisits: 3}
					ev.Input = func(v ssa.Value) (engine.EVal, bool) {
						if e, ok := v.(*ssa.Extract); ok && e.Index == 1 {
							if ta, ok := e.Tuple.(*ssa.TypeAssert); ok && ta.CommaOk && types.Identical(ta.AssertedType, missT) {
								return engine.EVal{K: engine.EBool, B: miss}, true
							}
						}
						return engine.EVal{}, false
					}
					ev.CountEvent = func(in ssa.Instruction) int {
						if isStart(in) {
							return 1
						}
						return 0
					}
					seen := false
					ev.AtEnd = func(at ssa.Instruction, count int, get func(ssa.Value) engine.EVal) {
						seen = true
						if (miss && count > 1) || (!miss && count > 0) {
							okEval = false
						}
					}
					ev.Run(f)
					if ev.Aborted || !seen {
						okEval = false
					}
				}
				if okEval {
					missing, once = true, true
				}
			}
			c.Decide(r1, engine.FuncName(f), ci.Instr.Pos(), missing && once,
				"the request goes to the network only after a local load reported RemoteMissingBlockErr, guarded by a one-shot flag",
				fmt.Sprintf("the network request is not tied to the first local miss (after a missing-block result: %v, one-shot: %v): a request whose blocks are all local still contacts the responder, or the request is sent repeatedly", missing, once))
		}
	}
	if n == 0 {
		c.AnchorMissing(r1, "a call of "+engine.FuncName(starter))
	}

	// R2
	nameVal, _ := rootConst(c, "ExtensionsDoNotSendFirstBlocks")
	okMax, okName, okPeer := false, false, false
	for _, ci := range engine.Calls(starter) {
		if ci.Static != nil && engine.FuncPkgPath(ci.Static) == engine.Module+"/donotsendfirstblocks" {
			arg := engine.LocalValue(ci.Arg(0))
			if mc, ok := arg.(*ssa.Call); ok {
				if b, ok := mc.Call.Value.(*ssa.Builtin); ok && b.Name() == "max" && len(mc.Call.Args) == 2 {
					u, t := false, false
					for _, a := range mc.Call.Args {
						if fieldReadOf(a) == userSkip {
							u = true
						}
						if call, ok := stripConv(a).(*ssa.Call); ok && call.Call.IsInvoke() && call.Call.Method.Name() == "NBlocksTraversed" {
							t = true
						}
					}
					okMax = u && t
				}
			}
		}
	}
	if !okMax {
		// however it is spelt: evaluated over all small (user value, blocks traversed) pairs, the count encoded is their maximum
		okEval, n := true, 0
		for _, u := range []int64{0, 1, 2} {
			for _, t := range []int64{0, 1, 2} {
				want := u
				if t > u {
					want = t
				}
				ev := &engine.Evaluator{MaxVisits: 2}
				ev.Input = func(v ssa.Value) (engine.EVal, bool) {
					if fieldReadOf(v) == userSkip {
						return engine.EVal{K: engine.EInt, I: u}, true
					}
					if call, ok := v.(*ssa.Call); ok && call.Call.IsInvoke() && call.Call.Method.Name() == "NBlocksTraversed" {
						return engine.EVal{K: engine.EInt, I: t}, true
					}
					return engine.EVal{}, false
				}
				ev.Observe = func(in ssa.Instruction, get func(ssa.Value) engine.EVal) {
					cc, ok := in.(*ssa.Call)
					if !ok {
						return
					}
					if sc := cc.Call.StaticCallee(); sc != nil && engine.FuncPkgPath(sc) == engine.Module+"/donotsendfirstblocks" && len(cc.Call.Args) == 1 {
						n++
						if v := get(cc.Call.Args[0]); v.K != engine.EInt || v.I != want {
							okEval = false
						}
					}
				}
				ev.Run(starter)
				if ev.Aborted {
					okEval = false
				}
			}
		}
		if okEval && n > 0 {
			okMax = true
		}
	}
	nameF := c.P.Field("", "ExtensionData", "Name")
	for _, st := range engine.StoresTo([]*ssa.Function{starter}, nameF) {
		if k, ok := engine.Strip(st.Val).(*ssa.Const); ok && nameVal != nil && k.Value != nil && k.Value.Kind() == nameVal.Kind() && constant.Compare(k.Value, token.EQL, nameVal) {
			okName = true
		}
	}
	if cc, ok := sendCall.(*ssa.Call); ok && fieldReadOf(cc.Call.Args[0]) == peerF {
		okPeer = true
	}
	c.Decide(r2, engine.FuncName(starter), sendCall.Pos(), okMax && okName && okPeer,
		"skip count = max(rt.DoNotSendFirstBlocks, NBlocksTraversed()), under ExtensionsDoNotSendFirstBlocks, sent to rt.P",
		fmt.Sprintf("the skip count sent to the responder is not max(user value, blocks traversed) under the right name to the request's peer (max: %v, name: %v, peer: %v): blocks already held are re-sent, or needed blocks are skipped", okMax, okName, okPeer))

	// R3: encoder pkg == decoder pkg per extension name
	decPkg := map[string]string{}
	for _, row := range responderExtRows {
		if v, ok := rootConst(c, row.name); ok {
			decPkg[constant.StringVal(v)] = row.codecPkg
		}
	}
	m := 0
	for _, f := range append(c.P.FuncsIn("requestmanager"), fns...) {
		if !engine.IsShipped(engine.FuncPkgPath(f)) {
			continue
		}
		for _, st := range engine.StoresTo([]*ssa.Function{f}, nameF) {
			k, ok := engine.Strip(st.Val).(*ssa.Const)
			if !ok || k.Value == nil || k.Value.Kind() != constant.String {
				continue
			}
			want, known := decPkg[constant.StringVal(k.Value)]
			if !known {
				continue
			}
			// the Data field of the same literal
			dataF := c.P.Field("", "ExtensionData", "Data")
			base := st.Addr.(*ssa.FieldAddr).X
			got := ""
			for _, ds := range engine.StoresTo([]*ssa.Function{f}, dataF) {
				if ds.Addr.(*ssa.FieldAddr).X != base {
					continue
				}
				v := engine.LocalValue(ds.Val)
				if e, ok := v.(*ssa.Extract); ok {
					v = e.Tuple
				}
				if call, ok := v.(*ssa.Call); ok && call.Call.StaticCallee() != nil {
					got = engine.FuncPkgPath(call.Call.StaticCallee())
				}
			}
			m++
			c.Decide(r3, engine.FuncName(f)+"|"+constant.StringVal(k.Value), st.Pos(), got == engine.Module+"/"+want,
				"encoded by package "+want+", which the responder decodes this name with",
				fmt.Sprintf("extension %q is encoded by %s but the responder decodes it with %s", constant.StringVal(k.Value), got, want))
		}
	}
	if m == 0 {
		c.AnchorMissing(r3, "requestor-side ExtensionData literals for the responder's extensions")
	}
	checkSendDecision(c, r4)
}

func derivesFromField(v ssa.Value, f *types.Var, depth int) bool {
	if depth == 0 || v == nil {
		return false
	}
	v = engine.Strip(v)
	if fieldReadOf(v) == f {
		return true
	}
	switch x := v.(type) {
	case *ssa.Phi:
		for _, e := range x.Edges {
			if derivesFromField(e, f, depth-1) {
				return true
			}
		}
	case *ssa.Call:
		for _, a := range x.Call.Args {
			if derivesFromField(a, f, depth-1) {
				return true
			}
		}
	case *ssa.TypeAssert:
		return derivesFromField(x.X, f, depth-1)
	case *ssa.Field:
		return derivesFromField(x.X, f, depth-1)
	case *ssa.UnOp:
		if fa, ok := x.X.(*ssa.FieldAddr); ok {
			if al, ok := fa.X.(*ssa.Alloc); ok {
				for _, r := range *al.Referrers() {
					if st, ok := r.(*ssa.Store); ok && st.Addr == ssa.Value(al) && derivesFromField(st.Val, f, depth-1) {
						return true
					}
				}
			}
		}
		if lv := engine.LocalValue(x); lv != ssa.Value(x) {
			return derivesFromField(lv, f, depth-1)
		}
		// pointer-typed field dereferenced: *(x.f)
		if inner, ok := x.X.(*ssa.UnOp); ok {
			return derivesFromField(inner, f, depth-1)
		}
		// load of a local alloc with several stores
		if al, ok := x.X.(*ssa.Alloc); ok {
			for _, r := range *al.Referrers() {
				if st, ok := r.(*ssa.Store); ok && st.Addr == ssa.Value(al) && derivesFromField(st.Val, f, depth-1) {
					return true
				}
			}
		}
	}
	return false
}
