package rules

import (
	"fmt"
	"go/constant"
	"go/token"
	"go/types"

	"golang.org/x/tools/go/ssa"

	"gscheck/engine"
)

// Shared facts about the message queue used by C15, C16, C17.

type mqFacts struct {
	c           *engine.Ctx
	ok          bool
	mqType      *types.Named
	builders    *types.Var
	buildersLk  *types.Var
	terminal    map[*ssa.Function]string // terminal report functions -> "Sent"/"Error"
	extract     *ssa.Function            // the extract step as the queue goroutine calls it (returns the message and an error)
	popFn       *ssa.Function            // the function that takes the head builder off mq.builders (extract itself, or a helper of it)
	fns         []*ssa.Function
	evName      *types.Var
	sentV, errV int64
}

func loadMQ(c *engine.Ctx, rule string) *mqFacts {
	m := &mqFacts{c: c, terminal: map[*ssa.Function]string{}}
	m.mqType = c.P.NamedType("messagequeue", "MessageQueue")
	m.builders = c.P.Field("messagequeue", "MessageQueue", "builders")
	m.buildersLk = c.P.Field("messagequeue", "MessageQueue", "buildersLk")
	m.evName = c.P.Field("messagequeue", "Event", "Name")
	if m.mqType == nil || m.builders == nil || m.buildersLk == nil || m.evName == nil {
		c.AnchorMissing(rule, "messagequeue.MessageQueue{builders,buildersLk} / messagequeue.Event.Name")
		return m
	}
	tp := c.P.TypesPkg("messagequeue")
	cv := func(name string) (int64, bool) {
		k, _ := tp.Scope().Lookup(name).(*types.Const)
		if k == nil {
			return 0, false
		}
		n, ok := constant.Int64Val(k.Val())
		return n, ok
	}
	var ok1, ok2 bool
	m.sentV, ok1 = cv("Sent")
	m.errV, ok2 = cv("Error")
	if !ok1 || !ok2 {
		c.AnchorMissing(rule, "messagequeue.Sent / messagequeue.Error event names")
		return m
	}
	for _, f := range c.P.FuncsIn("messagequeue") {
		if engine.FuncPkgPath(f) != engine.Module+"/messagequeue" {
			continue
		}
		m.fns = append(m.fns, f)
	}
	for _, f := range m.fns {
		// terminal report: publishes an Event whose Name is Sent or Error
		for _, st := range engine.StoresTo([]*ssa.Function{f}, m.evName) {
			if n, ok := engine.ConstInt(st.Val); ok {
				hasPublish := false
				for _, ci := range engine.Calls(f) {
					if ci.Common.IsInvoke() && ci.Common.Method.Name() == "Publish" {
						hasPublish = true
					}
				}
				if !hasPublish {
					continue
				}
				if n == m.sentV {
					m.terminal[f] = "Sent"
				} else if n == m.errV {
					m.terminal[f] = "Error"
				}
			}
		}
		// extract: stores builders[1:] (a Slice with Low=1 of the builders field) back
		for _, st := range engine.StoresTo([]*ssa.Function{f}, m.builders) {
			if sl, ok := st.Val.(*ssa.Slice); ok && sl.Low != nil {
				if n, ok := engine.ConstInt(sl.Low); ok && n == 1 && isLoadOfField(sl.X, m.builders) {
					m.extract = f
				}
			}
		}
	}
	// the pop may sit in a helper (`popBuilder`) of the extract step: climb to the function that reports failure
	// with an error, through single call sites
	m.popFn = m.extract
	for i := 0; i < 3 && m.extract != nil; i++ {
		res := m.extract.Signature.Results()
		if res.Len() > 0 && res.At(res.Len()-1).Type().String() == "error" {
			break
		}
		sites := c.P.CallSitesOf(m.extract)
		if len(sites) != 1 {
			break
		}
		m.extract = sites[0].Parent()
	}
	m.ok = true
	return m
}

func (m *mqFacts) isTerminalCall(in ssa.Instruction) bool {
	ci, ok := in.(*ssa.Call)
	if !ok {
		return false
	}
	sc := ci.Call.StaticCallee()
	_, is := m.terminal[sc]
	return sc != nil && is
}

// countCfg: events = terminal report calls; boolean helpers summarised.
func (m *mqFacts) countCfg(stop func(ssa.Instruction) bool) engine.CountCfg {
	memo := map[*ssa.Function][3]engine.CountSet{}
	var cfg engine.CountCfg
	cfg = engine.CountCfg{
		Event: func(in ssa.Instruction) engine.CountSet {
			if m.isTerminalCall(in) {
				return engine.C1
			}
			return 0
		},
		BranchEvent: func(call *ssa.Call) (engine.CountSet, engine.CountSet, bool) {
			sc := call.Call.StaticCallee()
			if sc == nil || sc.Blocks == nil || engine.FuncPkgPath(sc) != engine.Module+"/messagequeue" {
				return 0, 0, false
			}
			if _, isT := m.terminal[sc]; isT {
				return 0, 0, false
			}
			if r, ok := memo[sc]; ok {
				return r[0], r[1], r[2] != 0
			}
			memo[sc] = [3]engine.CountSet{0, 0, 0}
			inner := cfg
			inner.Stop = nil
			t, f, ok := engine.BoolHelperSummary(sc, inner)
			if !ok || (t == engine.C0 && f == engine.C0) {
				memo[sc] = [3]engine.CountSet{0, 0, 0}
				return 0, 0, false
			}
			memo[sc] = [3]engine.CountSet{t, f, 1}
			return t, f, true
		},
		Stop: stop,
		Deep: true,
	}
	return cfg
}

func describeStop(c *engine.Ctx, in ssa.Instruction) string {
	switch in.(type) {
	case *ssa.Return:
		return "return at " + c.P.Pos(in.Pos())
	}
	return fmt.Sprintf("%s at %s", in.String(), c.P.Pos(in.Pos()))
}

var _ = token.NoPos

// ---------------------------------------------------------------------------
// refined path counting with the finite-domain evaluator
//
// The CFG path counter (engine.CountFrom) merges counts wherever paths join, which loses the link between a flag
// ("delivered", "settled") and the path that set it.  When it cannot show "exactly one", the same question is put to
// the evaluator, which runs each path with its flags concrete and carries the event counter along; helpers of the
// package are summarised by their (result, events) outcomes.

type evalCounter struct {
	isEvent func(ssa.Instruction) bool
	pkg     string
	memo    map[*ssa.Function][]engine.CallOutcome
	failed  bool
}

func (ec *evalCounter) hooks(ev *engine.Evaluator, depth int) {
	ev.CountEvent = func(in ssa.Instruction) int {
		if ec.isEvent(in) {
			return 1
		}
		return 0
	}
	ev.CallOutcomes = func(call *ssa.Call, get func(ssa.Value) engine.EVal) []engine.CallOutcome {
		if ec.isEvent(call) {
			return nil
		}
		sc := call.Call.StaticCallee()
		if sc == nil || sc.Blocks == nil || engine.FuncPkgPath(sc) != ec.pkg || len(sc.FreeVars) != 0 {
			return nil
		}
		return ec.summary(sc, depth+1)
	}
}

func (ec *evalCounter) summary(f *ssa.Function, depth int) []engine.CallOutcome {
	if outs, ok := ec.memo[f]; ok {
		return outs
	}
	if depth > 4 {
		return nil
	}
	ec.memo[f] = nil // recursion guard
	type key struct {
		k engine.EKind
		b bool
		c int
	}
	seen := map[key]bool{}
	var outs []engine.CallOutcome
	ev := &engine.Evaluator{MaxVisits: 3, MaxPaths: 2000}
	ec.hooks(ev, depth)
	ev.AtEnd = func(at ssa.Instruction, count int, get func(ssa.Value) engine.EVal) {
		v := engine.EVal{}
		if r, ok := at.(*ssa.Return); ok && len(r.Results) == 1 {
			if x := get(r.Results[0]); x.K == engine.EBool {
				v = x
			}
		}
		k := key{v.K, v.B, count}
		if !seen[k] {
			seen[k] = true
			outs = append(outs, engine.CallOutcome{Val: v, Count: count})
		}
	}
	ev.Run(f)
	if ev.Aborted {
		ec.failed = true
		return nil
	}
	// an unknown boolean result stands for both values
	var final []engine.CallOutcome
	isBool := f.Signature.Results().Len() == 1 && f.Signature.Results().At(0).Type().String() == "bool"
	for _, o := range outs {
		if isBool && o.Val.K == engine.EUnknown {
			final = append(final, engine.CallOutcome{Val: engine.EVal{K: engine.EBool, B: true}, Count: o.Count}, engine.CallOutcome{Val: engine.EVal{K: engine.EBool, B: false}, Count: o.Count})
		} else {
			final = append(final, o)
		}
	}
	ec.memo[f] = final
	return final
}

// countsFrom: the event counts (0, 1, 2 = two or more) seen at each Return / stop instruction on the paths from block
// start; ok is false if the exploration had to be cut.
func evalCountsFrom(start *ssa.BasicBlock, isEvent func(ssa.Instruction) bool, stop func(ssa.Instruction) bool) (map[ssa.Instruction]map[int]bool, bool) {
	ec := &evalCounter{isEvent: isEvent, pkg: engine.FuncPkgPath(start.Parent()), memo: map[*ssa.Function][]engine.CallOutcome{}}
	ends := map[ssa.Instruction]map[int]bool{}
	ev := &engine.Evaluator{MaxVisits: 3, MaxPaths: 4000}
	ec.hooks(ev, 0)
	ev.StopAt = stop
	ev.AtEnd = func(at ssa.Instruction, count int, get func(ssa.Value) engine.EVal) {
		if ends[at] == nil {
			ends[at] = map[int]bool{}
		}
		ends[at][count] = true
	}
	if start == start.Parent().Blocks[0] {
		ev.Run(start.Parent())
	} else {
		ev.RunFromBlock(start)
	}
	return ends, !ev.Aborted && !ec.failed
}

// exactlyOneByEvaluation: every path from start to a return / stop carries exactly one event.
func exactlyOneByEvaluation(start *ssa.BasicBlock, isEvent func(ssa.Instruction) bool, stop func(ssa.Instruction) bool) bool {
	ends, ok := evalCountsFrom(start, isEvent, stop)
	if !ok || len(ends) == 0 {
		return false
	}
	for _, cs := range ends {
		for c := range cs {
			if c != 1 {
				return false
			}
		}
	}
	return true
}
