package rules

import (
	"fmt"
	"go/token"
	"go/types"
	"sort"
	"strings"

	"golang.org/x/tools/go/ssa"

	"gscheck/engine"
)

func init() {
	register(&Property{
		Meta: engine.PropMeta{
			ID:    "C15",
			Title: "Memory accounted to a peer matches its unsent response data",
			Explanation: "Decides the pairing structure of reservation and release: (R1) with a possibly-positive size the build step is reached only through the receive from AllocateBlockMemory(peer, size); " +
				"(R2) sibling cross-check over every responseOperation implementation: whenever size() can be positive, build() adds to the builder's released measure (AddBlock) under the same condition, from the same bytes; " +
				"(R3) from a successfully extracted message to return exactly one terminal report (sent or error) runs on every path, and each terminal report releases exactly msgSize once; " +
				"(R4) scrubbed bytes of several builders are combined additively before release, and the builder's scrub returns old-size minus new-size; (R5) every exit of the queue goroutine releases the peer; " +
				"(R6) a build closure that was given a reservation has no path that skips applying its operations. " +
				"Not decided: the byte totals over all histories (follow from these pairings only together with the allocator's arithmetic, C13).",
			Assumptions: append([]string{"message.Builder.blkSize (BlockSize()) is the measure released per message (read from the code: internalMetadata.msgSize = BlockSize())"}, commonTrust...),
			Technique:   "CFG path counting with boolean-helper summaries, dominance, sibling cross-check of interface implementations, SSA phi-shape test for accumulation",
		},
		Run: runC15,
	})
}

func runC15(c *engine.Ctx) {
	r1 := c.Rule("R1", "build step with possibly-positive size is reached only through the receive from AllocateBlockMemory(peer, size)", 1)
	r2 := c.Rule("R2", "for every responseOperation: size() possibly positive => build() adds the same bytes to the released measure under the same condition", 2)
	r3 := c.Rule("R3", "exactly one terminal report per extracted message on every path; each terminal report releases msgSize exactly once", 2)
	r4 := c.Rule("R4", "scrubbed bytes are summed over all builders; the builder scrub returns old size - new size", 1)
	r5 := c.Rule("R5", "every exit of the queue goroutine releases the peer's memory", 1)
	r6 := c.Rule("R6", "a build closure given a reservation has no path that returns before applying its operations", 1)

	m := loadMQ(c, r3)
	if !m.ok {
		return
	}
	c15Reserve(c, r1, m)
	c15Siblings(c, r2)
	c15Reports(c, r3, m)
	c15Scrub(c, r4, m)
	c15QueueExit(c, r5, m)
	c15SkipAfterReserve(c, r6)
}

// c15ReserveHelper handles `func (mq) wait(size) bool { select { case <-alloc(size): return true; case <-done: return false } }`
// called as `if size > 0 && !mq.wait(size) { return }; build`.
func c15ReserveHelper(c *engine.Ctx, rule, key string, f *ssa.Function, ci engine.CallInfo, size *ssa.Parameter) {
	alloc := ci.Value()
	var sel *ssa.Select
	allocIdx := -1
	engine.Instrs(f, func(in ssa.Instruction) {
		if s, ok := in.(*ssa.Select); ok {
			for i, st := range s.States {
				if st.Dir == types.RecvOnly && st.Chan == alloc {
					sel, allocIdx = s, i
				}
			}
		}
	})
	if sel == nil {
		c.Violate(rule, key, ci.Instr.Pos(), "the reservation channel is never received from: the build step does not wait for the grant")
		return
	}
	// which boolean does the helper return after the grant, and which after any other select case?
	grant, other := map[bool]bool{}, map[bool]bool{}
	decided := true
	collect := func(b *ssa.BasicBlock, into map[bool]bool) {
		seen := map[*ssa.BasicBlock]bool{}
		var walk func(b *ssa.BasicBlock)
		walk = func(b *ssa.BasicBlock) {
			if seen[b] {
				return
			}
			seen[b] = true
			if r, ok := b.Instrs[len(b.Instrs)-1].(*ssa.Return); ok {
				if len(r.Results) != 1 {
					decided = false
					return
				}
				v, isC := engine.ConstBool(engine.ReturnValue(r, 0))
				if !isC {
					decided = false
					return
				}
				into[v] = true
			}
			for _, s := range b.Succs {
				walk(s)
			}
		}
		walk(b)
	}
	found := false
	for _, b := range f.Blocks {
		ifi, ok := b.Instrs[len(b.Instrs)-1].(*ssa.If)
		if !ok {
			continue
		}
		bo, ok := ifi.Cond.(*ssa.BinOp)
		if !ok || bo.Op != token.EQL {
			continue
		}
		ex, ok := bo.X.(*ssa.Extract)
		if !ok || ex.Tuple != sel || ex.Index != 0 {
			continue
		}
		found = true
		k, _ := engine.ConstInt(bo.Y)
		if int(k) == allocIdx {
			collect(b.Succs[0], grant)
			// the false successor leads to the tests of the other cases (collected at their own If) or to the last case
			if _, more := b.Succs[1].Instrs[len(b.Succs[1].Instrs)-1].(*ssa.If); !more {
				collect(b.Succs[1], other)
			}
		} else {
			collect(b.Succs[0], other)
			if _, more := b.Succs[1].Instrs[len(b.Succs[1].Instrs)-1].(*ssa.If); !more {
				// last case: the remaining index
				if len(sel.States) == 2 && int(k) != allocIdx {
					collect(b.Succs[1], grant)
				}
			}
		}
	}
	if !found || !decided || len(grant) != 1 || (grant[true] && other[true]) || (grant[false] && other[false]) {
		c.Undecided(rule, key, ci.Instr.Pos(), "the reservation is made in a helper whose result does not tell the grant from the other select cases (expected a boolean constant per case)")
		return
	}
	grantPol := grant[true]
	sites := c.P.CallSitesOf(f)
	if len(sites) == 0 {
		c.Violate(rule, key, ci.Instr.Pos(), "the reservation helper is never called: messages are built without reserving memory")
		return
	}
	pf := c.P.Field("messagequeue", "MessageQueue", "p")
	if !isLoadOfField(ci.Common.Args[0], pf) {
		c.Violate(rule, key, ci.Instr.Pos(), "the reservation is not made for the queue's own peer")
		return
	}
	for _, cs := range sites {
		g := cs.Parent()
		call, isCall := cs.(*ssa.Call)
		var build ssa.Instruction
		for _, cj := range engine.Calls(g) {
			for _, a := range cj.Common.Args {
				if p, ok := engine.Strip(a).(*ssa.Parameter); ok {
					if _, isFn := p.Type().Underlying().(*types.Signature); isFn {
						build = cj.Instr
					}
				}
			}
			if p, ok := cj.Common.Value.(*ssa.Parameter); ok {
				if _, isFn := p.Type().Underlying().(*types.Signature); isFn {
					build = cj.Instr
				}
			}
		}
		k := key + "|via " + engine.FuncName(g)
		if !isCall || build == nil {
			c.Undecided(rule, k, cs.Pos(), "cannot find the build step (a call using the build-function parameter) in the caller of the reservation helper")
			continue
		}
		isBuild := func(in ssa.Instruction) bool { return in == build }
		bad := ""
		// (a) the size handed to the helper is the caller's own size parameter
		idx := -1
		for i, fp := range f.Params {
			if fp == size {
				idx = i
			}
		}
		csize, _ := engine.Strip(call.Call.Args[idx]).(*ssa.Parameter)
		if csize == nil {
			c.Undecided(rule, k, cs.Pos(), "the amount reserved is not a parameter of the calling function")
			continue
		}
		// (b) the refused answer never reaches the build step
		for _, b := range g.Blocks {
			ifi, ok := b.Instrs[len(b.Instrs)-1].(*ssa.If)
			if !ok {
				continue
			}
			v, pol := ifi.Cond, true
			for {
				u, ok := v.(*ssa.UnOp)
				if !ok || u.Op != token.NOT {
					break
				}
				v, pol = u.X, !pol
			}
			if v != ssa.Value(call) {
				continue
			}
			refused := engine.CondSucc(ifi, pol != grantPol) // successor taken when call == !grantPol
			if r, _ := engine.CanReachFromBlock(refused, isBuild, nil); r {
				bad = "the build step is reachable after the reservation helper reported that the grant was not received"
			}
		}
		if refs := call.Referrers(); refs == nil || len(*refs) == 0 {
			bad = "the answer of the reservation helper is ignored"
		}
		// (c) with size > 0 the build step is not reachable without the helper
		var guard *ssa.If
		for _, cond := range engine.InstrConds(call) {
			if bo, ok := cond.V.(*ssa.BinOp); ok && engine.Strip(bo.X) == ssa.Value(csize) {
				if kk, ok := engine.ConstInt(bo.Y); ok && kk == 0 && ((bo.Op == token.GTR && cond.Pol) || (bo.Op == token.NEQ && cond.Pol) || (bo.Op == token.EQL && !cond.Pol)) {
					guard = cond.If
				}
			}
		}
		if bad == "" {
			if guard != nil {
				pos := guard.Block().Succs[0]
				if bo, ok := guard.Cond.(*ssa.BinOp); ok && bo.Op == token.EQL {
					pos = guard.Block().Succs[1]
				}
				if r, _ := engine.CanReachFromBlock(pos, isBuild, func(in ssa.Instruction) bool { return in == ssa.Instruction(call) }); r {
					bad = "with size > 0 the build step is reachable without passing the reservation"
				}
			} else if !engine.Before(call, build) {
				bad = "the build step is not dominated by the reservation and there is no size > 0 guard"
			}
		}
		c.Decide(rule, k, cs.Pos(), bad == "", "size > 0 => build step only after the reservation helper reported the grant", bad)
	}
}

// c15ReserveEval: finite-domain evaluation of the reserve-then-build function.  With size > 0 the build step must
// not run on any path where the select ended in a case other than the granted reservation, and must not run before
// the select.
func c15ReserveEval(f *ssa.Function, size *ssa.Parameter, sel *ssa.Select, allocIdx int, build ssa.Instruction) bool {
	ok := true
	nStates := len(sel.States)
	if !sel.Blocking {
		nStates++ // default case = index -1
	}
	for chosen := -1; chosen < len(sel.States); chosen++ {
		if chosen == -1 && sel.Blocking {
			continue
		}
		ev := &engine.Evaluator{MaxVisits: 2}
		ev.Input = func(v ssa.Value) (engine.EVal, bool) {
			if v == ssa.Value(size) {
				return engine.EVal{K: engine.EInt, I: 5}, true
			}
			if ex, isEx := v.(*ssa.Extract); isEx && ex.Tuple == ssa.Value(sel) && ex.Index == 0 {
				return engine.EVal{K: engine.EInt, I: int64(chosen)}, true
			}
			return engine.EVal{}, false
		}
		ev.Observe = func(in ssa.Instruction, get func(ssa.Value) engine.EVal) {
			if in != build {
				return
			}
			if get(sel).K != engine.EPtr { // the select has not run on this path
				ok = false
			}
			if chosen != allocIdx {
				ok = false
			}
		}
		ev.Run(f)
		if ev.Aborted {
			ok = false
		}
	}
	_ = nStates
	return ok
}

func c15Reserve(c *engine.Ctx, rule string, m *mqFacts) {
	n := 0
	for _, f := range m.fns {
		for _, ci := range engine.Calls(f) {
			if !ci.Common.IsInvoke() || ci.Common.Method.Name() != "AllocateBlockMemory" {
				continue
			}
			n++
			key := engine.FuncName(f)
			c.Analysed(key)
			alloc := ci.Value()
			size, _ := engine.Strip(ci.Common.Args[1]).(*ssa.Parameter)
			if size == nil {
				c.Undecided(rule, key, ci.Instr.Pos(), "the amount reserved is not a parameter of the function")
				continue
			}
			// build step: call passing the func-typed parameter on, or calling it
			var build ssa.Instruction
			for _, cj := range engine.Calls(f) {
				for _, a := range cj.Common.Args {
					if p, ok := engine.Strip(a).(*ssa.Parameter); ok {
						if _, isFn := p.Type().Underlying().(*types.Signature); isFn {
							build = cj.Instr
						}
					}
				}
				if p, ok := cj.Common.Value.(*ssa.Parameter); ok {
					if _, isFn := p.Type().Underlying().(*types.Signature); isFn {
						build = cj.Instr
					}
				}
			}
			if build == nil {
				// the reservation lives in a helper: the helper must tell its callers whether the grant was
				// received, and each caller must make the build step depend on that answer
				c15ReserveHelper(c, rule, key, f, ci, size)
				continue
			}
			isBuild := func(in ssa.Instruction) bool { return in == build }
			// select receiving from alloc
			var sel *ssa.Select
			allocIdx := -1
			engine.Instrs(f, func(in ssa.Instruction) {
				if s, ok := in.(*ssa.Select); ok {
					for i, st := range s.States {
						if st.Dir == types.RecvOnly && st.Chan == alloc {
							sel, allocIdx = s, i
						}
					}
				}
			})
			if sel == nil {
				c.Violate(rule, key, ci.Instr.Pos(), "the reservation channel is never received from: the build step does not wait for the grant")
				continue
			}
			// guard on size
			var guard *ssa.If
			for _, cond := range engine.InstrConds(sel) {
				if b, ok := cond.V.(*ssa.BinOp); ok && engine.Strip(b.X) == size {
					if k, ok := engine.ConstInt(b.Y); ok && k == 0 && ((b.Op == token.GTR && cond.Pol) || (b.Op == token.NEQ && cond.Pol) || (b.Op == token.EQL && !cond.Pol)) {
						guard = cond.If
					}
				}
			}
			bad := ""
			if guard != nil {
				pos := guard.Block().Succs[0]
				if b, ok := guard.Cond.(*ssa.BinOp); ok && b.Op == token.EQL {
					pos = guard.Block().Succs[1]
				}
				if r, _ := engine.CanReachFromBlock(pos, isBuild, func(in ssa.Instruction) bool { return in == sel }); r {
					bad = "with size > 0 the build step is reachable without passing the reservation"
				}
			} else {
				// no guard: select must dominate build
				if !engine.Before(sel, build) {
					bad = "the build step is not dominated by the reservation and there is no size > 0 guard"
				}
			}
			// non-alloc select cases must not reach the build step
			if bad == "" {
				for _, b := range f.Blocks {
					ifi, ok := b.Instrs[len(b.Instrs)-1].(*ssa.If)
					if !ok {
						continue
					}
					bo, ok := ifi.Cond.(*ssa.BinOp)
					if !ok || bo.Op != token.EQL {
						continue
					}
					ex, ok := bo.X.(*ssa.Extract)
					if !ok || ex.Tuple != sel || ex.Index != 0 {
						continue
					}
					k, _ := engine.ConstInt(bo.Y)
					if int(k) == allocIdx {
						if r, _ := engine.CanReachFromBlock(b.Succs[1], isBuild, nil); r {
							bad = "a select case other than the granted reservation continues to the build step"
						}
					} else {
						if r, _ := engine.CanReachFromBlock(b.Succs[0], isBuild, nil); r {
							bad = "a select case other than the granted reservation continues to the build step"
						}
					}
				}
			}
			// peer argument is the queue's own peer
			pf := c.P.Field("messagequeue", "MessageQueue", "p")
			if bad == "" && !isLoadOfField(ci.Common.Args[0], pf) {
				bad = "the reservation is not made for the queue's own peer"
			}
			if bad != "" && bad != "the reservation is not made for the queue's own peer" && c15ReserveEval(f, size, sel, allocIdx, build) {
				bad = "" // decided by evaluation: the outcome of the select travels in a flag
			}
			c.Decide(rule, key, ci.Instr.Pos(), bad == "", "size > 0 => build step only after <-AllocateBlockMemory(mq.p, size); cancel case returns", bad)
		}
	}
	if n == 0 {
		c.AnchorMissing(rule, "a call of Allocator.AllocateBlockMemory in messagequeue")
	}
}

// ---- R2 sibling cross-check

func c15Siblings(c *engine.Ctx, rule string) {
	iface := c.P.NamedType("responsemanager/responseassembler", "responseOperation")
	if iface == nil {
		c.AnchorMissing(rule, "responseassembler.responseOperation")
		return
	}
	it := iface.Underlying().(*types.Interface)
	tp := c.P.TypesPkg("responsemanager/responseassembler")
	addBlock := c.P.Func("message", "Builder", "AddBlock")
	blkSize := c.P.Field("message", "Builder", "blkSize")
	if addBlock == nil || blkSize == nil {
		c.AnchorMissing(rule, "message.Builder.AddBlock / blkSize")
		return
	}
	// AddBlock is the measure-increasing call: it must add len(block.RawData()) to blkSize
	grows := false
	for _, st := range engine.StoresTo([]*ssa.Function{addBlock}, blkSize) {
		if b, ok := st.Val.(*ssa.BinOp); ok && b.Op == token.ADD {
			grows = true
		}
	}
	if !grows {
		c.Violate(rule, "message.Builder.AddBlock", addBlock.Pos(), "AddBlock no longer adds the block's length to the builder's size measure")
	} else {
		// every call of AddBlock was preceded by a reservation of the block's length: the measure must grow on every path, by that length
		isGrow := func(in ssa.Instruction) bool {
			st, ok := in.(*ssa.Store)
			if !ok {
				return false
			}
			fa, ok := st.Addr.(*ssa.FieldAddr)
			if !ok || engine.FieldOf(fa) != blkSize {
				return false
			}
			b, ok := st.Val.(*ssa.BinOp)
			if !ok || b.Op != token.ADD {
				return false
			}
			// the addend is len(block.RawData()) of the parameter
			for _, side := range []ssa.Value{b.X, b.Y} {
				if call, ok := stripConv(side).(*ssa.Call); ok {
					if bi, ok := call.Call.Value.(*ssa.Builtin); ok && bi.Name() == "len" {
						if rd, ok := call.Call.Args[0].(*ssa.Call); ok && rd.Call.IsInvoke() && rd.Call.Method.Name() == "RawData" && engine.Strip(rd.Call.Value) == ssa.Value(addBlock.Params[1]) {
							return true
						}
					}
				}
			}
			return false
		}
		ok, ret := engine.MustReachFromEntry(addBlock, isGrow, nil)
		why := ""
		if !ok && ret != nil {
			why = "AddBlock can return at " + c.P.Pos(ret.Pos()) + " without adding the block's length to the released measure, although that length was reserved for the operation: the surplus is never returned"
		}
		c.Decide(rule, "message.Builder.AddBlock|unconditional", addBlock.Pos(), ok, "AddBlock adds len(block.RawData()) to the released measure on every path", why)
	}
	var names []string
	for _, n := range tp.Scope().Names() {
		names = append(names, n)
	}
	sort.Strings(names)
	for _, n := range names {
		tn, ok := tp.Scope().Lookup(n).(*types.TypeName)
		if !ok {
			continue
		}
		T := tn.Type()
		if _, isI := T.Underlying().(*types.Interface); isI {
			continue
		}
		if !types.Implements(T, it) && !types.Implements(types.NewPointer(T), it) {
			continue
		}
		sizeF := c.P.Func("responsemanager/responseassembler", n, "size")
		buildF := c.P.Func("responsemanager/responseassembler", n, "build")
		if sizeF == nil || buildF == nil {
			c.Undecided(rule, n, tn.Pos(), "cannot resolve size()/build() of this responseOperation")
			continue
		}
		c.Analysed(engine.FuncName(sizeF), engine.FuncName(buildF))
		// size(): conditions of non-zero returns
		var sizeConds [][]string
		positive := false
		var sizeExpr []string
		for _, r := range engine.Returns(sizeF) {
			v := engine.LocalValue(r.Results[0])
			if k, ok := engine.ConstInt(v); ok && k == 0 {
				continue
			}
			positive = true
			sizeConds = append(sizeConds, fieldConds(engine.InstrConds(r)))
			sizeExpr = append(sizeExpr, lenOfField(v))
		}
		if !positive {
			c.Hold(rule, n, sizeF.Pos(), "size() is constantly 0: nothing is reserved for this operation")
			continue
		}
		// build(): AddBlock calls and their conditions
		var adds []engine.CallInfo
		for _, ci := range engine.Calls(buildF) {
			if ci.Static == addBlock || (ci.Static != nil && ci.Static.Name() == "AddBlock") {
				adds = append(adds, ci)
			}
		}
		if len(adds) == 0 {
			c.Violate(rule, n, sizeF.Pos(), fmt.Sprintf("size() can be positive (%s) but build() never adds to the builder's released measure (no AddBlock): bytes reserved for this operation are never returned", strings.Join(sizeExpr, "; ")))
			continue
		}
		ok = true
		why := ""
		for _, a := range adds {
			bc := fieldConds(engine.InstrConds(a.Instr))
			match := false
			for _, sc := range sizeConds {
				if strings.Join(sc, "&") == strings.Join(bc, "&") {
					match = true
				}
			}
			if !match {
				ok = false
				why = fmt.Sprintf("build() adds a block under condition [%s] but size() is positive under [%s]", strings.Join(bc, " & "), joinConds(sizeConds))
			}
			// same bytes: the block is built from the field whose length size() returns
			blk := engine.LocalValue(a.Arg(0))
			src := ""
			if mi, isMI := blk.(*ssa.MakeInterface); isMI {
				blk = mi.X
			}
			if ex, isEx := blk.(*ssa.Extract); isEx {
				if call, isCall := ex.Tuple.(*ssa.Call); isCall && len(call.Call.Args) > 0 {
					if fl, _ := engine.LoadedField(call.Call.Args[0]); fl != nil {
						src = "len(" + fl.Name() + ")"
					}
				}
			}
			if ok && (len(sizeExpr) != 1 || src != sizeExpr[0]) {
				ok = false
				why = fmt.Sprintf("size() measures %s but build() adds a block made from %s", strings.Join(sizeExpr, "; "), src)
			}
		}
		c.Decide(rule, n, sizeF.Pos(), ok, fmt.Sprintf("size() = %s under [%s]; build() adds that block under the same condition", strings.Join(sizeExpr, "; "), joinConds(sizeConds)), why)
	}
}

func joinConds(cs [][]string) string {
	var out []string
	for _, c := range cs {
		out = append(out, strings.Join(c, " & "))
	}
	return strings.Join(out, " | ")
}

// fieldConds renders the dominating conditions that are tests of receiver fields: "sendBlock=true".
func fieldConds(conds []engine.Cond) []string {
	var out []string
	for _, cd := range conds {
		if f, _ := engine.LoadedField(cd.V); f != nil {
			out = append(out, fmt.Sprintf("%s=%v", f.Name(), cd.Pol))
			continue
		}
		if e, ok := cd.AsEq(); ok {
			for _, pair := range [][2]ssa.Value{{e.X, e.Y}, {e.Y, e.X}} {
				if f, _ := engine.LoadedField(pair[0]); f != nil && engine.IsNilConst(pair[1]) {
					out = append(out, fmt.Sprintf("%s==nil:%v", f.Name(), e.Equal))
				}
			}
		}
	}
	sort.Strings(out)
	return out
}

// lenOfField renders uint64(len(x.f)) as "len(f)".
func lenOfField(v ssa.Value) string {
	v = stripConv(v)
	if call, ok := v.(*ssa.Call); ok {
		if b, ok := call.Call.Value.(*ssa.Builtin); ok && b.Name() == "len" {
			if f, _ := engine.LoadedField(call.Call.Args[0]); f != nil {
				return "len(" + f.Name() + ")"
			}
		}
		if sc := call.Call.StaticCallee(); sc != nil {
			return sc.Name() + "(...)"
		}
	}
	if ex, ok := v.(*ssa.Extract); ok {
		if call, ok := ex.Tuple.(*ssa.Call); ok {
			if sc := call.Call.StaticCallee(); sc != nil {
				return sc.Name() + "(...)"
			}
		}
	}
	return v.String()
}

// ---- R3

func c15Reports(c *engine.Ctx, rule string, m *mqFacts) {
	if len(m.terminal) == 0 {
		c.AnchorMissing(rule, "functions publishing Sent/Error events in messagequeue")
		return
	}
	pf := c.P.Field("messagequeue", "MessageQueue", "p")
	msgSize := c.P.Field("messagequeue", "internalMetadata", "msgSize")
	// (a) each terminal report releases msgSize exactly once
	for f, kind := range m.terminal {
		key := engine.FuncName(f) + "|releases-msgSize"
		c.Analysed(engine.FuncName(f))
		isRel := func(in ssa.Instruction) bool {
			ci, ok := in.(*ssa.Call)
			if !ok || !ci.Call.IsInvoke() || ci.Call.Method.Name() != "ReleaseBlockMemory" {
				return false
			}
			return isLoadOfField(ci.Call.Args[0], pf) && fieldReadOf(ci.Call.Args[1]) == msgSize
		}
		stops := engine.CountFrom(f.Blocks[0], engine.C0, engine.CountCfg{Event: func(in ssa.Instruction) engine.CountSet {
			if isRel(in) {
				return engine.C1
			}
			return 0
		}, Deep: true})
		ok := len(stops) > 0
		got := ""
		for _, s := range stops {
			if s.Count != engine.C1 {
				ok = false
				got = fmt.Sprintf("%s release(s) of msgSize before %s", s.Count, describeStop(c, s.At))
			}
		}
		if !ok && exactlyOneByEvaluation(f.Blocks[0], isRel, nil) {
			ok = true
		}
		c.Decide(rule, key, f.Pos(), ok, "publishes "+kind+" and releases (mq.p, metadata.msgSize) exactly once on every path", "terminal report "+kind+": "+got)
	}
	// (b) per extract site: exactly one terminal report
	if m.extract == nil {
		c.AnchorMissing(rule, "the function that takes the head builder off MessageQueue.builders")
		return
	}
	sites := 0
	for _, f := range m.fns {
		for _, ci := range engine.Calls(f) {
			if ci.Static != m.extract {
				continue
			}
			call := ci.Value()
			if call == nil {
				continue
			}
			sites++
			key := engine.FuncName(f) + "|report-per-extracted-message"
			c.Analysed(engine.FuncName(f))
			// block entered when err == nil
			var start *ssa.BasicBlock
			for _, b := range f.Blocks {
				ifi, ok := b.Instrs[len(b.Instrs)-1].(*ssa.If)
				if !ok {
					continue
				}
				bo, ok := ifi.Cond.(*ssa.BinOp)
				if !ok || (bo.Op != token.EQL && bo.Op != token.NEQ) || !engine.IsNilConst(bo.Y) {
					continue
				}
				ex, ok := engine.LocalValue(bo.X).(*ssa.Extract)
				if !ok || ex.Tuple != call {
					continue
				}
				if bo.Op == token.EQL {
					start = b.Succs[0]
				} else {
					start = b.Succs[1]
				}
			}
			if start == nil {
				c.Undecided(rule, key, ci.Instr.Pos(), "the error of the extract step is not tested")
				continue
			}
			isExtract := func(in ssa.Instruction) bool {
				cc, ok := in.(*ssa.Call)
				return ok && cc.Call.StaticCallee() == m.extract
			}
			stops := engine.CountFrom(start, engine.C0, m.countCfg(isExtract))
			ok := len(stops) > 0
			bad := ""
			for _, s := range stops {
				if s.Count != engine.C1 {
					ok = false
					bad = fmt.Sprintf("%s terminal report(s) (sent/error) between a successful extract and %s", s.Count, describeStop(c, s.At))
				}
			}
			if !ok && exactlyOneByEvaluation(start, m.isTerminalCall, isExtract) {
				ok, bad = true, "" // counts merged at a join; with flags kept concrete every path has exactly one report
			}
			c.Decide(rule, key, ci.Instr.Pos(), ok, "exactly one of publish-sent / publish-error on every path from a successful extract to the next extract or return", bad)
		}
	}
	if sites == 0 {
		c.AnchorMissing(rule, "call sites of the extract step")
	}
}

// ---- R4

func c15Scrub(c *engine.Ctx, rule string, m *mqFacts) {
	scrub := c.P.Func("messagequeue", "Builder", "ScrubResponses")
	inner := c.P.Func("message", "Builder", "ScrubResponses")
	blkSize := c.P.Field("message", "Builder", "blkSize")
	if scrub == nil || inner == nil || blkSize == nil {
		c.AnchorMissing(rule, "messagequeue.Builder.ScrubResponses / message.Builder.ScrubResponses")
		return
	}
	// (a) accumulation over builders
	n := 0
	for _, f := range m.fns {
		for _, ci := range engine.Calls(f) {
			if ci.Static != scrub {
				continue
			}
			call := ci.Value()
			if call == nil || !inLoop(call.Block()) {
				continue
			}
			n++
			key := engine.FuncName(f) + "|scrub-total"
			c.Analysed(engine.FuncName(f))
			ok := false
			why := "the per-builder scrub result is not combined with the running total"
			for _, r := range *call.Referrers() {
				switch x := r.(type) {
				case *ssa.BinOp:
					if x.Op == token.ADD {
						other := x.X
						if other == call {
							other = x.Y
						}
						if ph, isPhi := other.(*ssa.Phi); isPhi && phiDependsOn(ph, x, map[ssa.Value]bool{}) {
							ok = true
						}
					}
				case *ssa.Phi:
					why = "the running total is overwritten by each builder's scrub result (assigned, not accumulated): only the last builder's freed bytes are released"
				}
			}
			c.Decide(rule, key, call.Pos(), ok, "total is a loop-carried sum of every builder's scrubbed bytes", why)
		}
	}
	if n == 0 {
		c.AnchorMissing(rule, "a per-builder ScrubResponses call inside a loop in messagequeue")
	}
	// (b) inner scrub returns old - new and stores new
	key := engine.FuncName(inner) + "|freed=old-new"
	ok := false
	for _, r := range engine.Returns(inner) {
		if b, isB := engine.LocalValue(r.Results[0]).(*ssa.BinOp); isB && b.Op == token.SUB {
			oldOK := isLoadOfField(b.X, blkSize)
			// new value is what gets stored into blkSize
			newOK := false
			for _, st := range engine.StoresTo([]*ssa.Function{inner}, blkSize) {
				if st.Val == b.Y {
					newOK = true
				}
			}
			// the old-size load precedes the store
			if oldOK && newOK {
				ok = true
				for _, st := range engine.StoresTo([]*ssa.Function{inner}, blkSize) {
					if ld, isLd := stripConv(b.X).(*ssa.UnOp); isLd && !engine.Before(ld, st) {
						ok = false
					}
				}
			}
		}
	}
	c.Decide(rule, key, inner.Pos(), ok, "returns (size before) - (recomputed size) and stores the recomputed size", "the builder's scrub no longer returns old size minus the recomputed size it stores")
	// (c) the wrapper returns the inner result
	key = engine.FuncName(scrub) + "|forwards"
	fw := false
	for _, r := range engine.Returns(scrub) {
		if call, isC := engine.LocalValue(r.Results[0]).(*ssa.Call); isC && call.Call.StaticCallee() == inner {
			fw = true
		}
	}
	c.Decide(rule, key, scrub.Pos(), fw, "forwards the message builder's freed byte count", "the queue builder's scrub does not return the message builder's freed byte count")
	// (d) the summed value is what gets released
	rel := false
	for _, f := range m.fns {
		for _, ci := range engine.Calls(f) {
			if ci.Common.IsInvoke() && ci.Common.Method.Name() == "ReleaseBlockMemory" {
				if call, isC := engine.LocalValue(ci.Common.Args[1]).(*ssa.Call); isC {
					if sc := call.Call.StaticCallee(); sc != nil && len(engine.CallsTo(sc, false, engine.ObjName(scrub.Object()))) > 0 {
						rel = true
						c.Hold(rule, engine.FuncName(f)+"|release-scrubbed", ci.Instr.Pos(), "the scrubbed total is handed to ReleaseBlockMemory")
					}
				}
			}
		}
	}
	if !rel {
		c.Violate(rule, "release-scrubbed", token.NoPos, "the scrubbed byte total is never released to the allocator")
	}
}

func inLoop(b *ssa.BasicBlock) bool {
	seen := map[*ssa.BasicBlock]bool{}
	var walk func(x *ssa.BasicBlock) bool
	walk = func(x *ssa.BasicBlock) bool {
		for _, s := range x.Succs {
			if s == b {
				return true
			}
			if !seen[s] {
				seen[s] = true
				if walk(s) {
					return true
				}
			}
		}
		return false
	}
	return walk(b)
}

func phiDependsOn(ph *ssa.Phi, v ssa.Value, seen map[ssa.Value]bool) bool {
	if seen[ph] {
		return false
	}
	seen[ph] = true
	for _, e := range ph.Edges {
		if e == v {
			return true
		}
		if p2, ok := e.(*ssa.Phi); ok && phiDependsOn(p2, v, seen) {
			return true
		}
	}
	return false
}

// ---- R5

func c15QueueExit(c *engine.Ctx, rule string, m *mqFacts) {
	// the queue goroutine: target of `go` in messagequeue
	n := 0
	for _, f := range m.fns {
		engine.Instrs(f, func(in ssa.Instruction) {
			g, ok := in.(*ssa.Go)
			if !ok {
				return
			}
			root := g.Call.StaticCallee()
			if root == nil || root.Blocks == nil {
				return
			}
			// only the goroutine that consumes builders
			if m.extract == nil || !reachesStatic(root, m.extract, 3) {
				return
			}
			n++
			key := engine.FuncName(root)
			c.Analysed(key)
			ok2 := false
			why := "the queue goroutine has no deferred ReleasePeerMemory(mq.p) installed at entry"
			for _, in := range root.Blocks[0].Instrs {
				d, isD := in.(*ssa.Defer)
				if !isD {
					continue
				}
				fn := resolveFuncValue(d.Call.Value)
				if fn == nil {
					continue
				}
				isRel := func(in ssa.Instruction) bool {
					ci, ok := in.(*ssa.Call)
					return ok && ci.Call.IsInvoke() && ci.Call.Method.Name() == "ReleasePeerMemory"
				}
				if r, _ := engine.MustReachFromEntry(fn, isRel, nil); r {
					ok2 = true
				} else {
					why = "the deferred exit handler does not release the peer's memory on every path"
				}
				// the peer-wide release must come before the queue announces its own end: once the owner has been told,
				// a successor queue for the same peer may already be reserving memory, which a later peer-wide release would wipe
				if shutF := c.P.Field("messagequeue", "MessageQueue", "onShutdown"); shutF != nil {
					var rel, ann ssa.Instruction
					engine.Instrs(fn, func(in ssa.Instruction) {
						if isRel(in) {
							rel = in
						}
						if cc, ok := in.(*ssa.Call); ok && !cc.Call.IsInvoke() && cc.Call.StaticCallee() == nil && fieldReadOf(cc.Call.Value) == shutF {
							ann = in
						}
					})
					if rel != nil && ann != nil {
						c.Decide(rule, key+"|release-before-announcing-exit", ann.Pos(), engine.Before(rel, ann),
							"the peer's memory is released before the queue tells its owner that it has ended",
							"the queue tells its owner it has ended before releasing the peer's memory: a successor queue for the same peer can reserve memory in between, and the peer-wide release then wipes the successor's reservations (returned twice, accounted memory no longer matches unsent data)")
					}
				}
			}
			// the exit steps may also be separate defers (run last-registered-first): the release must still come first
			if shutF := c.P.Field("messagequeue", "MessageQueue", "onShutdown"); shutF != nil {
				relIdx, annIdx, k := -1, -1, 0
				var annPos token.Pos
				for _, in := range root.Blocks[0].Instrs {
					d, isD := in.(*ssa.Defer)
					if !isD {
						continue
					}
					k++
					if d.Call.IsInvoke() && d.Call.Method.Name() == "ReleasePeerMemory" {
						relIdx = k
					}
					if !d.Call.IsInvoke() && d.Call.StaticCallee() == nil && fieldReadOf(d.Call.Value) == shutF {
						annIdx, annPos = k, d.Pos()
					}
					if fn := resolveFuncValue(d.Call.Value); fn != nil && fn.Blocks != nil {
						engine.Instrs(fn, func(in2 ssa.Instruction) {
							cc, ok := in2.(*ssa.Call)
							if !ok {
								return
							}
							if cc.Call.IsInvoke() && cc.Call.Method.Name() == "ReleasePeerMemory" && relIdx < 0 {
								relIdx = k
							}
							if !cc.Call.IsInvoke() && cc.Call.StaticCallee() == nil && fieldReadOf(cc.Call.Value) == shutF && annIdx < 0 {
								annIdx, annPos = k, cc.Pos()
							}
						})
					}
				}
				if relIdx > 0 && annIdx > 0 && relIdx != annIdx {
					ok2 = true
					c.Decide(rule, key+"|release-before-announcing-exit", annPos, relIdx > annIdx,
						"the peer's memory is released (deferred later, so run earlier) before the queue tells its owner that it has ended",
						"the deferred exit steps run in the wrong order (defers run last-registered-first): the queue tells its owner it has ended before releasing the peer's memory, so a successor queue's reservations can be wiped by the peer-wide release")
				}
			}
			c.Decide(rule, key, root.Pos(), ok2, "deferred ReleasePeerMemory at goroutine entry covers every exit", why)
		})
	}
	if n == 0 {
		c.AnchorMissing(rule, "the queue goroutine (go statement reaching the extract step)")
	}
}

func reachesStatic(f, target *ssa.Function, depth int) bool {
	if f == target {
		return true
	}
	if depth == 0 || f.Blocks == nil {
		return false
	}
	for _, g := range engine.WithClosures(f) {
		for _, ci := range engine.Calls(g) {
			if ci.Static != nil && ci.Static != f && reachesStatic(ci.Static, target, depth-1) {
				return true
			}
		}
	}
	return false
}

// ---- R6

func c15SkipAfterReserve(c *engine.Ctx, rule string) {
	n := 0
	for _, f := range c.P.FuncsIn("responsemanager/responseassembler") {
		for _, ci := range engine.Calls(f) {
			if !ci.Common.IsInvoke() || ci.Common.Method.Name() != "AllocateAndBuildMessage" {
				continue
			}
			// size argument constant zero => nothing reserved
			if k, ok := engine.ConstInt(ci.Common.Args[1]); ok && k == 0 {
				continue
			}
			cl := resolveFuncValue(ci.Common.Args[2])
			if cl == nil {
				c.Undecided(rule, engine.FuncName(f), ci.Instr.Pos(), "the build function is not a function literal")
				n++
				continue
			}
			n++
			// keyed by the named function the build closure is written in (the literal's ordinal shifts with unrelated edits)
			outerFn := cl
			for outerFn.Parent() != nil {
				outerFn = outerFn.Parent()
			}
			key := engine.FuncName(outerFn) + "|build-closure"
			c.Analysed(engine.FuncName(cl))
			applies := func(in ssa.Instruction) bool {
				cc, ok := in.(*ssa.Call)
				if !ok {
					return false
				}
				if cc.Call.IsInvoke() && cc.Call.Method.Name() == "build" {
					return true
				}
				// the range loop over the operations starts by taking len() of the captured slice
				if b, ok := cc.Call.Value.(*ssa.Builtin); ok && b.Name() == "len" {
					if sl, ok := cc.Call.Args[0].Type().Underlying().(*types.Slice); ok {
						if nt, ok := sl.Elem().(*types.Named); ok && nt.Obj().Name() == "responseOperation" {
							return true
						}
					}
				}
				return false
			}
			ok, ret := engine.MustReachFromEntry(cl, applies, nil)
			why := ""
			if !ok && ret != nil {
				why = "the build closure can return at " + c.P.Pos(ret.Pos()) + " without applying its operations although memory was reserved for them (reserve-then-skip): the reservation is never released"
			}
			c.Decide(rule, key, cl.Pos(), ok, "every path of the build closure applies the operations", why)
		}
	}
	if n == 0 {
		c.AnchorMissing(rule, "an AllocateAndBuildMessage call with a non-constant size in responseassembler")
	}
}
