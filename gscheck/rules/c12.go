package rules

import (
	"fmt"
	"go/token"
	"go/types"
	"strings"

	"golang.org/x/tools/go/ssa"

	"gscheck/engine"
)

func init() {
	register(&Property{
		Meta: engine.PropMeta{
			ID:    "C12",
			Title: "Hostile bytes never crash a node or yield unverified blocks",
			Explanation: "Decides four structural clauses: (R1) every libp2p stream handler installs, before decoding anything, a deferred recover that resets the stream and reports a receive error, and the decode-error path (other than EOF) resets and reports and never delivers; " +
				"(R2) every decoded block is keyed by the CID computed by Prefix.Sum over that block's own bytes with the error checked; " +
				"(R3) non-zero RequestID values are constructed only in NewRequestID and, after a successful uuid.FromBytes on the same bytes, in ParseRequestID, and every ID the decoder hands to a message constructor is a checked ParseRequestID result; " +
				"(R4a) every dereference of an optional (pointer-typed) wire field in the decoder is dominated by its nil test; (R4b) the interface values that can be nil after decoding (a request's selector, an extension's payload) never reach an unguarded method call in module code they are passed to. " +
				"Not decided: absence of panics inside third-party decoders for all byte strings (R1 confines them to a recovered goroutine); index/slice panics beyond nil flows; what user hooks do with nil payloads.",
			Assumptions: append([]string{"bindnode/dag-cbor decoding runs inside the stream handler goroutine (so R1's recover covers it)", "functions without loaded source are assumed not to dereference their arguments in the quick tier (whole-program source in thorough)"}, commonTrust...),
			Technique:   "defer/recover dominance, value provenance through SSA, nil-guard dominance with interprocedural dereference summaries",
		},
		Run: runC12,
	})
}

func runC12(c *engine.Ctx) {
	r1 := c.Rule("R1", "stream handlers: deferred recover (reset + ReceiveError) installed before any decode; decode error (not EOF) resets, reports, and is never delivered", 2)
	r2 := c.Rule("R2", "decoded blocks are keyed by Prefix.Sum of their own bytes (error checked)", 1)
	r3 := c.Rule("R3", "non-zero RequestIDs only from NewRequestID / checked ParseRequestID; decoder passes only checked ParseRequestID results to message constructors", 2)
	r4a := c.Rule("R4a", "every dereference of an optional wire field in the decoder is dominated by its nil test", 4)
	r4b := c.Rule("R4b", "wire-nullable interface values (request selector, extension payload) never reach an unguarded method call in module functions they are passed to", 2)

	c12Handlers(c, r1)
	checkHashBinding(c, r2)
	c12RequestIDs(c, r3)
	c12OptionalFields(c, r4a)
	c12NilFlows(c, r4b)
	r5 := c.Rule("R5", "the decoder never indexes or slices a wire-supplied byte string or list at a fixed position without a dominating length test", 0)
	c12FixedIndex(c, r5)
}

// c12FixedIndex: constant-position Index/IndexAddr/Slice on slices in decode-side functions need a length guard.
func c12FixedIndex(c *engine.Ctx, rule string) {
	fromR := c.P.Func("message/v2", "MessageHandler", "FromMsgReader")
	if fromR == nil {
		c.AnchorMissing(rule, "message/v2.MessageHandler.FromMsgReader")
		return
	}
	fns := reachableIn(fromR, "message/v2", "message/ipldbind", "message")
	if p := c.P.Func("", "", "ParseRequestID"); p != nil {
		fns = append(fns, p)
	}
	n := 0
	for _, f := range fns {
		engine.Instrs(f, func(in ssa.Instruction) {
			var base, idx ssa.Value
			switch x := in.(type) {
			case *ssa.IndexAddr:
				base, idx = x.X, x.Index
			case *ssa.Index:
				base, idx = x.X, x.Index
			case *ssa.Slice:
				if x.Low != nil {
					base, idx = x.X, x.Low
				} else if x.High != nil {
					base, idx = x.X, x.High
				}
			}
			if base == nil {
				return
			}
			if _, isSlice := base.Type().Underlying().(*types.Slice); !isSlice {
				if _, isStr := base.Type().Underlying().(*types.Basic); !isStr {
					return
				}
			}
			k, isConst := engine.ConstInt(idx)
			if !isConst {
				return // loop-variable indexing is bounded by the range/len loop
			}
			// locally built slices (varargs arrays) are not wire data
			if sl, ok := base.(*ssa.Slice); ok {
				if _, isAlloc := sl.X.(*ssa.Alloc); isAlloc {
					return
				}
			}
			n++
			guarded := false
			for _, cd := range engine.InstrConds(in) {
				if b, ok := cd.V.(*ssa.BinOp); ok {
					if call, ok := b.X.(*ssa.Call); ok {
						if bi, ok := call.Call.Value.(*ssa.Builtin); ok && bi.Name() == "len" && engine.SameValue(call.Call.Args[0], base) {
							guarded = true
						}
					}
				}
			}
			c.Decide(rule, fmt.Sprintf("%s|index %d", engine.FuncName(f), k), in.Pos(), guarded, "fixed-position access dominated by a length test of the same slice",
				"the decoder reads a wire-supplied slice at a fixed position without checking its length: a short field panics")
		})
	}
	c.Note("fixed-position accesses in decode-side functions: %d", n)
}

// ---- R1

func c12Handlers(c *engine.Ctx, rule string) {
	var handlers []*ssa.Function
	for _, f := range c.P.FuncsIn("network") {
		for _, ci := range engine.Calls(f) {
			if !ci.Common.IsInvoke() || ci.Common.Method.Name() != "SetStreamHandler" {
				continue
			}
			h := resolveFuncValue(ci.Common.Args[len(ci.Common.Args)-1])
			if h == nil {
				c.Undecided(rule, engine.FuncName(f)+"|SetStreamHandler", ci.Instr.Pos(), "cannot resolve the function installed as stream handler")
				continue
			}
			handlers = append(handlers, h)
		}
	}
	if len(handlers) == 0 {
		c.AnchorMissing(rule, "a SetStreamHandler call in package network")
		return
	}
	seen := map[*ssa.Function]bool{}
	for _, h := range handlers {
		if seen[h] {
			continue
		}
		seen[h] = true
		c.Analysed(engine.FuncName(h))
		key := engine.FuncName(h)
		// decode calls
		var decodes []*ssa.Call
		var delivers []ssa.Instruction
		for _, ci := range engine.Calls(h) {
			if ci.Common.IsInvoke() && (ci.Common.Method.Name() == "FromMsgReader" || ci.Common.Method.Name() == "FromNet") {
				if call := ci.Value(); call != nil {
					decodes = append(decodes, call)
				}
			}
			if ci.Common.IsInvoke() && ci.Common.Method.Name() == "ReceiveMessage" {
				delivers = append(delivers, ci.Instr)
			}
		}
		if len(decodes) == 0 {
			c.Undecided(rule, key+"|decode", h.Pos(), "stream handler has no FromMsgReader/FromNet call: cannot locate the decode step")
			continue
		}
		// (a) recovering defer before decode
		var rec *ssa.Defer
		recWhy := "no deferred function that calls recover()"
		for _, b := range h.Blocks {
			for _, in := range b.Instrs {
				d, ok := in.(*ssa.Defer)
				if !ok {
					continue
				}
				fn := resolveFuncValue(d.Call.Value)
				if fn == nil || len(engine.BuiltinCalls(fn, "recover")) == 0 {
					continue
				}
				// recovered path must reset the stream and report
				hasReset, hasReport := false, false
				for _, g := range engine.WithClosures(fn) {
					for _, ci := range engine.Calls(g) {
						if ci.Common.IsInvoke() && ci.Common.Method.Name() == "Reset" {
							hasReset = true
						}
						if ci.Common.IsInvoke() && ci.Common.Method.Name() == "ReceiveError" {
							hasReport = true
						}
					}
				}
				if !hasReset || !hasReport {
					recWhy = fmt.Sprintf("the recovering defer does not both reset the stream (%v) and report ReceiveError (%v)", hasReset, hasReport)
					continue
				}
				rec = d
			}
		}
		okA := rec != nil
		if okA {
			for _, dc := range decodes {
				if !engine.Before(rec, dc) {
					okA = false
					recWhy = "a decode call is not dominated by the recovering defer"
				}
			}
		}
		c.Decide(rule, key+"|recover-before-decode", h.Pos(), okA, "deferred recover (stream reset + ReceiveError) dominates every decode call", recWhy)
		// (b) error path
		for _, dc := range decodes {
			errOK, why := decodeErrorPath(h, dc)
			c.Decide(rule, key+"|decode-error-path", dc.Pos(), errOK, "on a decode error other than EOF every path resets the stream and reports ReceiveError before returning", why)
			// (c) deliver only on success
			for _, dv := range delivers {
				c.Decide(rule, key+"|deliver-on-success", dv.Pos(), errNilDominates(dv, dc), "ReceiveMessage dominated by decode err == nil", "a message is delivered on a path where decoding failed")
			}
		}
	}
}

func decodeErrorPath(h *ssa.Function, dc *ssa.Call) (bool, string) {
	// find If on err != io.EOF (either polarity) where err is dc's error
	for _, b := range h.Blocks {
		ifi, ok := b.Instrs[len(b.Instrs)-1].(*ssa.If)
		if !ok {
			continue
		}
		bo, ok := ifi.Cond.(*ssa.BinOp)
		if !ok || (bo.Op != token.NEQ && bo.Op != token.EQL) {
			continue
		}
		isErr := func(v ssa.Value) bool {
			ex, ok := engine.LocalValue(v).(*ssa.Extract)
			return ok && ex.Tuple == dc
		}
		isEOF := func(v ssa.Value) bool {
			u, ok := engine.Strip(v).(*ssa.UnOp)
			if !ok || u.Op != token.MUL {
				return false
			}
			g, ok := u.X.(*ssa.Global)
			return ok && g.Name() == "EOF" && g.Pkg != nil && g.Pkg.Pkg.Path() == "io"
		}
		if !((isErr(bo.X) && isEOF(bo.Y)) || (isErr(bo.Y) && isEOF(bo.X))) {
			continue
		}
		notEOF := b.Succs[0]
		if bo.Op == token.EQL {
			notEOF = b.Succs[1]
		}
		isReset := func(in ssa.Instruction) bool {
			ci, ok := in.(*ssa.Call)
			return ok && ci.Call.IsInvoke() && ci.Call.Method.Name() == "Reset"
		}
		isReport := func(in ssa.Instruction) bool {
			ci, ok := in.(ssa.CallInstruction)
			return ok && ci.Common().IsInvoke() && ci.Common().Method.Name() == "ReceiveError"
		}
		if ok1, _ := engine.MustReachFromBlock(notEOF, isReset, nil); !ok1 {
			return false, "a path after a non-EOF decode error returns without resetting the stream"
		}
		if ok2, _ := engine.MustReachFromBlock(notEOF, isReport, nil); !ok2 {
			return false, "a path after a non-EOF decode error returns without reporting ReceiveError"
		}
		return true, ""
	}
	return false, "no test of the decode error against io.EOF found: cannot identify the malformed-message path"
}

// resolveFuncValue resolves a function value to the function it denotes:
// function literals, named functions, and bound-method closures.
func resolveFuncValue(v ssa.Value) *ssa.Function {
	v = stripConv(v)
	switch x := v.(type) {
	case *ssa.Function:
		return unwrapBound(x)
	case *ssa.MakeClosure:
		if f, ok := x.Fn.(*ssa.Function); ok {
			return unwrapBound(f)
		}
	}
	return nil
}

func unwrapBound(f *ssa.Function) *ssa.Function {
	if f.Synthetic == "" || f.Blocks == nil {
		return f
	}
	// bound method wrapper / thunk: single call to the real method
	for _, ci := range engine.Calls(f) {
		if ci.Static != nil && ci.Static.Synthetic == "" {
			return ci.Static
		}
	}
	return f
}

// ---- R3

func c12RequestIDs(c *engine.Ctx, rule string) {
	rid := c.P.NamedType("", "RequestID")
	if rid == nil {
		c.AnchorMissing(rule, "graphsync.RequestID")
		return
	}
	st, _ := rid.Underlying().(*types.Struct)
	if st == nil || st.NumFields() != 1 {
		c.Undecided(rule, "graphsync.RequestID", rid.Obj().Pos(), "RequestID is no longer a single-field struct; construction sites cannot be enumerated by field store")
		return
	}
	if st.Field(0).Exported() {
		c.Violate(rule, "graphsync.RequestID|field-exported", rid.Obj().Pos(), "RequestID's field is exported: any package can construct an unvalidated ID")
	}
	fld := st.Field(0)
	root := c.P.Pkg("")
	var fns []*ssa.Function
	for _, f := range c.P.SrcFuncs() {
		if f.Pkg == root || (f.Parent() != nil && engine.FuncPkgPath(f) == engine.Module) {
			fns = append(fns, f)
		}
	}
	n := 0
	for _, s := range engine.StoresTo(fns, fld) {
		n++
		fn := s.Parent()
		key := engine.FuncName(fn) + "|construct"
		if str, ok := engine.ConstString(s.Val); ok && str == "" {
			c.Hold(rule, key+"-zero", s.Pos(), "zero ID")
			continue
		}
		switch fn.Name() {
		case "NewRequestID":
			// value is string(u[:]) of uuid.New()
			hasNew := len(engine.CallsTo(fn, false, "github.com/google/uuid.New")) > 0
			c.Decide(rule, key, s.Pos(), hasNew, "fresh UUID", "NewRequestID no longer derives the ID from uuid.New")
		case "ParseRequestID":
			calls := engine.CallsTo(fn, false, "github.com/google/uuid.FromBytes")
			ok := false
			why := "ParseRequestID does not validate with uuid.FromBytes"
			for _, ci := range calls {
				call := ci.Value()
				if call == nil {
					continue
				}
				guard := errNilDominates(s, call)
				// same bytes: the stored string converts the parameter that FromBytes validated
				same := false
				if cv, ok := engine.LocalValue(s.Val).(*ssa.Convert); ok && engine.Strip(cv.X) == engine.Strip(ci.Arg(0)) {
					same = true
				}
				if guard && same {
					ok = true
				} else {
					why = fmt.Sprintf("ID built from bytes without a dominating successful uuid.FromBytes on the same bytes (error checked: %v, same bytes: %v)", guard, same)
				}
			}
			c.Decide(rule, key, s.Pos(), ok, "built from bytes only after uuid.FromBytes(b) succeeded on the same b", why)
		default:
			c.Violate(rule, key, s.Pos(), "a non-zero RequestID is constructed outside NewRequestID/ParseRequestID")
		}
	}
	if n == 0 {
		c.AnchorMissing(rule, "a construction of graphsync.RequestID in the root package")
	}
	// decoder: ids given to message constructors
	parse := c.P.Func("", "", "ParseRequestID")
	ctors := map[string]bool{"NewRequest": true, "NewCancelRequest": true, "NewUpdateRequest": true, "NewResponse": true}
	m := 0
	for _, f := range c.P.FuncsIn("message/v2") {
		for _, ci := range engine.Calls(f) {
			if ci.Static == nil || engine.FuncPkgPath(ci.Static) != engine.Module+"/message" || !ctors[ci.Static.Name()] {
				continue
			}
			m++
			id := engine.LocalValue(ci.Arg(0))
			key := engine.FuncName(f) + "|" + ci.Static.Name()
			ex, ok := id.(*ssa.Extract)
			var call *ssa.Call
			if ok {
				call, _ = ex.Tuple.(*ssa.Call)
			}
			if call == nil || call.Call.StaticCallee() != parse {
				c.Violate(rule, key, ci.Instr.Pos(), "the request ID handed to the message constructor is not a ParseRequestID result")
				continue
			}
			c.Decide(rule, key, ci.Instr.Pos(), errNilDominates(ci.Instr, call), "ID is a ParseRequestID result with its error checked", "the ParseRequestID error is not checked before the ID is used")
		}
	}
	if m == 0 {
		c.AnchorMissing(rule, "message constructor calls in message/v2")
	}
}

// ---- R4a

func c12OptionalFields(c *engine.Ctx, rule string) {
	bindPkg := engine.Module + "/message/ipldbind"
	isBindStructField := func(f *types.Var) bool {
		return f != nil && f.Pkg() != nil && f.Pkg().Path() == bindPkg
	}
	fns := append(c.P.FuncsIn("message/v2"), c.P.FuncsIn("message/ipldbind")...)
	n := 0
	for _, f := range fns {
		// only decode-side functions: those reachable with wire structs as input.  The
		// encoder builds the structs itself; its derefs are of values it just created.
		engine.Instrs(f, func(in ssa.Instruction) {
			var ptr ssa.Value
			switch x := in.(type) {
			case *ssa.UnOp:
				if x.Op != token.MUL {
					return
				}
				ptr = x.X
			case *ssa.FieldAddr:
				ptr = x.X
			default:
				return
			}
			// ptr must itself be a loaded pointer-typed optional wire value
			src := ""
			if fl, _ := engine.LoadedField(ptr); isBindStructField(fl) {
				if _, isPtr := fl.Type().Underlying().(*types.Pointer); isPtr {
					src = fl.Name()
				}
			}
			if src == "" {
				// range value of a map with pointer elements (extension values)
				if ex, ok := ptr.(*ssa.Extract); ok && ex.Index == 2 {
					if nx, ok := ex.Tuple.(*ssa.Next); ok {
						if rg, ok := nx.Iter.(*ssa.Range); ok {
							if mt, ok := rg.X.Type().Underlying().(*types.Map); ok {
								if _, isPtr := mt.Elem().Underlying().(*types.Pointer); isPtr {
									if fl, _ := engine.LoadedField(rg.X); isBindStructField(fl) {
										src = fl.Name() + "[...]"
									}
								}
							}
						}
					}
				}
			}
			if src == "" {
				return
			}
			n++
			key := fmt.Sprintf("%s|deref %s", engine.FuncName(f), src)
			c.Decide(rule, key, in.Pos(), engine.KnownNonNil(engine.InstrConds(in), ptr),
				"dominated by a != nil test of the same pointer", "optional wire field "+src+" is dereferenced without a dominating nil test: an absent field crashes the decoder")
		})
	}
	if n == 0 {
		c.AnchorMissing(rule, "dereferences of optional ipldbind fields in message/v2 or message/ipldbind")
	}
}

// ---- R4b

var nodeIface = "github.com/ipld/go-ipld-prime/datamodel.Node"

func isNodeType(t types.Type) bool {
	return types.TypeString(types.Unalias(t), nil) == nodeIface
}

// derefSummary: does f use parameter idx as the receiver of a method call (or hand it to
// a callee that does) at a point not dominated by a != nil test of it?
type derefSum struct {
	memo map[string]*derefHit
}
type derefHit struct {
	pos  token.Pos
	what string
}

func (d *derefSum) derefs(f *ssa.Function, idx int, depth int) *derefHit {
	if f == nil || f.Blocks == nil || idx >= len(f.Params) || depth > 5 {
		return nil
	}
	k := fmt.Sprintf("%s#%d", f.String(), idx)
	if h, ok := d.memo[k]; ok {
		return h
	}
	d.memo[k] = nil
	p := f.Params[idx]
	hit := d.derefsValue(f, p, depth)
	d.memo[k] = hit
	return hit
}

// derefsValue looks at every use of v (and its trivial wrappers) inside f.
func (d *derefSum) derefsValue(f *ssa.Function, v ssa.Value, depth int) *derefHit {
	aliases := map[ssa.Value]bool{v: true}
	// parameters captured/spilled: loads of an alloc initialised from v
	changed := true
	for changed {
		changed = false
		engine.Instrs(f, func(in ssa.Instruction) {
			switch x := in.(type) {
			case *ssa.Store:
				if aliases[x.Val] {
					if al, ok := x.Addr.(*ssa.Alloc); ok && !aliases[al] {
						// may-alias: the local may hold the value
						aliases[al] = true
						changed = true
					}
				}
			case *ssa.UnOp:
				if x.Op == token.MUL && aliases[x.X] && !aliases[x] {
					if _, ok := x.X.(*ssa.Alloc); ok {
						aliases[x] = true
						changed = true
					}
				}
			case *ssa.Phi:
				if !aliases[x] {
					for _, e := range x.Edges {
						if aliases[e] {
							aliases[x] = true
							changed = true
						}
					}
				}
			case *ssa.ChangeInterface:
				if aliases[x.X] && !aliases[x] {
					aliases[x] = true
					changed = true
				}
			case *ssa.ChangeType:
				if aliases[x.X] && !aliases[x] {
					aliases[x] = true
					changed = true
				}
			}
		})
	}
	guarded := func(in ssa.Instruction) bool {
		conds := engine.InstrConds(in)
		for a := range aliases {
			if _, isAlloc := a.(*ssa.Alloc); isAlloc {
				continue
			}
			if engine.KnownNonNil(conds, a) {
				return true
			}
		}
		return false
	}
	var hit *derefHit
	engine.Instrs(f, func(in ssa.Instruction) {
		if hit != nil {
			return
		}
		ci, ok := in.(ssa.CallInstruction)
		if !ok {
			return
		}
		cc := ci.Common()
		if cc.IsInvoke() && aliases[cc.Value] {
			if !guarded(in) {
				hit = &derefHit{in.Pos(), fmt.Sprintf("%s calls %s on it", engine.FuncName(f), cc.Method.Name())}
			}
			return
		}
		callee := cc.StaticCallee()
		if callee == nil {
			return
		}
		for i, a := range cc.Args {
			if !aliases[a] {
				continue
			}
			if guarded(in) {
				continue
			}
			if h := d.derefs(callee, i, depth+1); h != nil {
				hit = &derefHit{in.Pos(), fmt.Sprintf("%s passes it to %s, where %s", engine.FuncName(f), engine.FuncName(callee), h.what)}
			}
		}
	})
	return hit
}

func c12NilFlows(c *engine.Ctx, rule string) {
	ds := &derefSum{memo: map[string]*derefHit{}}
	n := 0
	for _, f := range c.P.SrcFuncs() {
		pk := engine.FuncPkgPath(f)
		if strings.HasSuffix(pk, "/message/v2") || strings.HasSuffix(pk, "/message/ipldbind") || strings.HasSuffix(pk, "/message") {
			continue // codec layer: handled by R4a / encodes nil explicitly
		}
		for _, ci := range engine.Calls(f) {
			call := ci.Value()
			if call == nil {
				continue
			}
			name := ""
			if ci.Common.IsInvoke() {
				name = ci.Common.Method.Name()
			} else if ci.Static != nil && ci.Static.Signature.Recv() != nil {
				name = ci.Static.Name()
			}
			var src ssa.Value
			switch name {
			case "Extension":
				tup, ok := call.Type().(*types.Tuple)
				if !ok || tup.Len() != 2 || !isNodeType(tup.At(0).Type()) {
					continue
				}
				for _, r := range *call.Referrers() {
					if ex, ok := r.(*ssa.Extract); ok && ex.Index == 0 {
						src = ex
					}
				}
			case "Selector":
				if !isNodeType(call.Type()) {
					continue
				}
				src = call
			default:
				continue
			}
			if src == nil {
				continue
			}
			n++
			key := fmt.Sprintf("%s|%s()", engine.FuncName(f), name)
			if h := ds.derefsValue(f, src, 0); h != nil {
				c.Violate(rule, key, h.pos, "the value of "+name+"() can be nil for a decoded message (absent selector / null extension payload) and is used without a nil test: "+h.what)
			} else {
				c.Hold(rule, key, call.Pos(), "no unguarded method call reachable through module functions the value is passed to")
			}
		}
	}
	if n == 0 {
		c.AnchorMissing(rule, "calls of Extension()/Selector() accessors outside the codec packages")
	}
}
