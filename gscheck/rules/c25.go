package rules

import (
	"fmt"
	"go/token"
	"go/types"
	"sort"
	"strings"

	"golang.org/x/tools/go/ssa"

	"gscheck/engine"
)

func init() {
	register(&Property{
		Meta: engine.PropMeta{
			ID:    "C25",
			Title: "A stalled peer cannot block service to other peers",
			Explanation: "Decides that shared event-loop goroutines never reach an operation that waits on one peer: (R1) every response transaction issued from code reachable from a manager's run loop uses only builder methods whose appended operations all have a constant-zero size(), " +
				"so the per-peer memory reservation behind it cannot block (size domain Zero | MaybePositive, derived from each responseOperation's size()); messages the requestor's loop sends reserve a literal 0; " +
				"(R2) network operations (SendMsg, NewMessageSender, ConnectTo, stream Reset/Close, SendMessage) are not reachable from the managers' run loops; (R3) a zero-size build never goes through the allocator. " +
				"Not decided: worker-pool exhaustion by one peer's blocked executors (quantitative); slow-peer effects inside libp2p.",
			Assumptions: append([]string{"the allocator may make even a zero-size request wait behind a peer's pending allocations (read from AllocateBlockMemory); R3 therefore requires the queue to skip the allocator for size 0"}, commonTrust...),
			Technique:   "goroutine-root reachability with call-site binding of transaction literals; abstract size domain over responseOperation implementations",
		},
		Run: runC25,
	})
}

// positiveOps: names of responseOperation implementations whose size() can be positive.
func positiveOps(c *engine.Ctx) (map[string]bool, bool) {
	iface := c.P.NamedType("responsemanager/responseassembler", "responseOperation")
	if iface == nil {
		return nil, false
	}
	it := iface.Underlying().(*types.Interface)
	tp := c.P.TypesPkg("responsemanager/responseassembler")
	out := map[string]bool{}
	for _, n := range tp.Scope().Names() {
		tn, ok := tp.Scope().Lookup(n).(*types.TypeName)
		if !ok {
			continue
		}
		if _, isI := tn.Type().Underlying().(*types.Interface); isI {
			continue
		}
		if !types.Implements(tn.Type(), it) && !types.Implements(types.NewPointer(tn.Type()), it) {
			continue
		}
		sz := c.P.Func("responsemanager/responseassembler", n, "size")
		pos := sz == nil
		if sz != nil {
			for _, r := range engine.Returns(sz) {
				if k, ok := engine.ConstInt(engine.ReturnValue(r, 0)); !ok || k != 0 {
					pos = true
				}
			}
		}
		out[n] = pos
	}
	return out, true
}

// builderMethodOps: for each method of *responseBuilder, the operation types it may append (transitively).
func builderMethodOps(c *engine.Ctx) map[string]map[string]bool {
	out := map[string]map[string]bool{}
	rb := c.P.NamedType("responsemanager/responseassembler", "responseBuilder")
	if rb == nil {
		return out
	}
	ops := c.P.Field("responsemanager/responseassembler", "responseBuilder", "operations")
	ms := c.P.Prog.MethodSets.MethodSet(types.NewPointer(rb))
	var methods []*ssa.Function
	for i := 0; i < ms.Len(); i++ {
		if f := c.P.Prog.MethodValue(ms.At(i)); f != nil && f.Blocks != nil {
			methods = append(methods, f)
		}
	}
	var collect func(f *ssa.Function, acc map[string]bool, depth int)
	collect = func(f *ssa.Function, acc map[string]bool, depth int) {
		if depth > 3 {
			return
		}
		for _, st := range engine.StoresTo([]*ssa.Function{f}, ops) {
			call, ok := st.Val.(*ssa.Call)
			if !ok {
				continue
			}
			for _, a := range call.Call.Args[1:] {
				for _, t := range appendedTypes(a) {
					acc[t] = true
				}
			}
		}
		for _, ci := range engine.Calls(f) {
			if ci.Static != nil && ci.Static.Signature.Recv() != nil && engine.IsNamed(ci.Static.Signature.Recv().Type(), "~/responsemanager/responseassembler", "responseBuilder") {
				collect(ci.Static, acc, depth+1)
			}
		}
	}
	for _, m := range methods {
		acc := map[string]bool{}
		collect(m, acc, 0)
		out[m.Name()] = acc
	}
	return out
}

// appendedTypes: dynamic types of the interface values in a variadic slice argument.
func appendedTypes(a ssa.Value) []string {
	var out []string
	name := func(v ssa.Value) {
		if mi, ok := v.(*ssa.MakeInterface); ok {
			t := mi.X.Type()
			if p, ok := t.(*types.Pointer); ok {
				t = p.Elem()
			}
			if n, ok := t.(*types.Named); ok {
				out = append(out, n.Obj().Name())
			}
		}
	}
	if sl, ok := a.(*ssa.Slice); ok {
		if al, ok := sl.X.(*ssa.Alloc); ok {
			for _, r := range *al.Referrers() {
				if ia, ok := r.(*ssa.IndexAddr); ok {
					for _, rr := range *ia.Referrers() {
						if st, ok := rr.(*ssa.Store); ok {
							name(st.Val)
						}
					}
				}
			}
		}
	}
	name(a)
	return out
}

func runC25(c *engine.Ctx) {
	r1 := c.Rule("R1", "transactions and sends issued from a manager's run loop reserve nothing (only zero-size operations / literal 0)", 3)
	r2 := c.Rule("R2", "network operations are not reachable from the managers' run loops", 1)

	pos, ok := positiveOps(c)
	if !ok {
		c.AnchorMissing(r1, "responseassembler.responseOperation")
		return
	}
	mops := builderMethodOps(c)
	if len(mops) == 0 {
		c.AnchorMissing(r1, "responseassembler.responseBuilder methods")
		return
	}
	methodPositive := func(name string) (bool, []string) {
		var why []string
		for t := range mops[name] {
			if pos[t] {
				why = append(why, t)
			}
		}
		sort.Strings(why)
		return len(why) > 0, why
	}
	var posNames []string
	for t, p := range pos {
		if p {
			posNames = append(posNames, t)
		}
	}
	sort.Strings(posNames)
	c.Note("operations with possibly-positive size(): %v; builder methods -> appended operations: %v", posNames, mops)

	g := engine.BuildRootGraph(c.P)
	// the shared loops: go roots in the manager packages that range over the message channel
	var loops []*ssa.Function
	for root := range g.GoRoots {
		pk := engine.FuncPkgPath(root)
		if (pk == engine.Module+"/responsemanager" || pk == engine.Module+"/requestmanager") && root.Name() == "run" {
			loops = append(loops, root)
		}
	}
	sort.Slice(loops, func(i, j int) bool { return loops[i].String() < loops[j].String() })
	if len(loops) < 2 {
		c.AnchorMissing(r1, "the managers' run loops (go rm.run())")
		return
	}
	for _, loop := range loops {
		reach := g.ReachableFrom(loop)
		var fns []*ssa.Function
		for f := range reach {
			fns = append(fns, f)
		}
		sort.Slice(fns, func(i, j int) bool { return fns[i].String() < fns[j].String() })
		for _, f := range fns {
			for _, ci := range engine.Calls(f) {
				if _, isGo := ci.Instr.(*ssa.Go); isGo {
					continue
				}
				cc := ci.Common
				// transactions
				if cc.IsInvoke() && cc.Method.Name() == "Transaction" && engine.IsNamed(cc.Value.Type(), "~/responsemanager/responseassembler", "ResponseStream") {
					c.Analysed(engine.FuncName(f))
					lit := resolveFuncValue(cc.Args[0])
					if lit == nil || lit.Parent() == nil {
						c.Undecided(r1, engine.FuncName(f)+"|Transaction", ci.Instr.Pos(), "the transaction is not a function literal: the operations it queues cannot be bound at the call site")
						continue
					}
					var bad []string
					for _, g2 := range engine.WithClosures(lit) {
						for _, cj := range engine.Calls(g2) {
							if cj.Common.IsInvoke() && engine.IsNamed(cj.Common.Value.Type(), "~/responsemanager/responseassembler", "ResponseBuilder") {
								if p, ops := methodPositive(cj.Common.Method.Name()); p {
									bad = append(bad, fmt.Sprintf("%s (queues %s)", cj.Common.Method.Name(), strings.Join(ops, ",")))
								}
							}
						}
					}
					// keyed by the loop, the named function the transaction is written in and the positive-size builder
					// methods it uses (not by the literal's ordinal, which shifts when an unrelated literal is added)
					outer := lit
					for outer.Parent() != nil {
						outer = outer.Parent()
					}
					sort.Strings(bad)
					var ms []string
					for _, b := range bad {
						ms = append(ms, strings.SplitN(b, " ", 2)[0])
					}
					key := fmt.Sprintf("%s|%s|transaction", engine.FuncName(loop), engine.FuncName(outer))
					if len(ms) > 0 {
						key += " using " + strings.Join(ms, ",")
					} else {
						key += "@" + engine.FuncName(lit)
					}
					c.Decide(r1, key, ci.Instr.Pos(), len(bad) == 0,
						"the transaction queues only zero-size operations: its reservation cannot wait",
						fmt.Sprintf("a transaction on the shared loop %s calls %s, whose size can be positive: the loop blocks in AllocateBlockMemory until that one peer's allowance frees, stalling every other peer (path: %s)",
							engine.FuncName(loop), strings.Join(bad, "; "), strings.Join(g.Path(loop, f), " -> ")))
				}
				// direct reservations
				if cc.IsInvoke() && cc.Method.Name() == "AllocateAndBuildMessage" && len(cc.Args) == 3 {
					c.Analysed(engine.FuncName(f))
					k, isC := engine.ConstInt(cc.Args[1])
					// the assembler's own execute() is judged through its transactions above
					if engine.FuncPkgPath(f) == engine.Module+"/responsemanager/responseassembler" {
						continue
					}
					c.Decide(r1, fmt.Sprintf("%s|%s|AllocateAndBuildMessage", engine.FuncName(loop), engine.FuncName(f)), ci.Instr.Pos(), isC && k == 0,
						"reserves a literal 0: never waits", "a message is built from the shared loop with a non-zero reservation: the loop can block on one peer's memory allowance")
				}
				// R2 network operations
				if cc.IsInvoke() {
					n := cc.Method.Name()
					isNet := false
					switch n {
					case "SendMsg", "NewMessageSender", "ConnectTo", "SendMessage":
						isNet = true
					case "Reset", "Close":
						isNet = engine.IsNamed(cc.Value.Type(), "~/network", "MessageSender") || strings.Contains(types.TypeString(cc.Value.Type(), nil), "libp2p/core/network.Stream")
					}
					if isNet {
						c.Violate(r2, fmt.Sprintf("%s|%s|%s", engine.FuncName(loop), engine.FuncName(f), n), ci.Instr.Pos(),
							fmt.Sprintf("network operation %s is reachable from the shared loop %s (path: %s): a slow peer stalls the loop", n, engine.FuncName(loop), strings.Join(g.Path(loop, f), " -> ")))
					}
				}
			}
		}
	}
	// R3: a zero-size build never touches the allocator (otherwise it queues behind the peer's waiting allocations)
	r3 := c.Rule("R3", "a message built with size 0 never goes through the memory allocator", 1)
	// the shared executors are the other resource a stalled peer can exhaust: its requests park in the memory
	// reservation, one executor each; the per-peer maximum is what leaves executors for everybody else
	r4 := c.Rule("R4", "the configured per-peer maximum of concurrent responses is installed on the response queue with its own value (C21.R3)", 2)
	c21PerPeer(c, r4)
	r5 := c.Rule("R5", "the response manager signals a running executor without waiting for it (non-blocking sends on the pause/update/error signal channels)", 2)
	c25Signals(c, r5)
	nAlloc := 0
	for _, f := range c.P.FuncsIn("messagequeue") {
		for _, ci := range engine.Calls(f) {
			if !ci.Common.IsInvoke() || ci.Common.Method.Name() != "AllocateBlockMemory" {
				continue
			}
			nAlloc++
			size := engine.Strip(ci.Common.Args[1])
			guard := c.P.GuardedHereOrAtCallers(ci.Instr, size, func(cd engine.Cond, target ssa.Value) bool {
				if b, ok := cd.V.(*ssa.BinOp); ok && cd.R(b.X) == target {
					if k, ok := engine.ConstInt(b.Y); ok && k == 0 && ((b.Op == token.GTR && cd.Pol) || (b.Op == token.NEQ && cd.Pol) || (b.Op == token.EQL && !cd.Pol)) {
						return true
					}
				}
				return false
			})
			c.Decide(r3, engine.FuncName(f)+"|AllocateBlockMemory", ci.Instr.Pos(), guard,
				"the allocator is consulted only for size > 0",
				"the allocator is consulted even for size 0: the allocator grants at once only when the peer has nothing waiting, so a zero-size message built on a manager loop for a stalled, full peer waits behind that peer's pending allocation and stalls the loop for every peer")
		}
	}
	if nAlloc == 0 {
		c.AnchorMissing(r3, "a call of Allocator.AllocateBlockMemory in messagequeue")
	}

	// R2 positive side: where the network operations do live
	n := 0
	for _, f := range c.P.SrcFuncs() {
		if !engine.IsShipped(engine.FuncPkgPath(f)) {
			continue
		}
		for _, ci := range engine.Calls(f) {
			if ci.Common.IsInvoke() {
				switch ci.Common.Method.Name() {
				case "SendMsg", "NewMessageSender", "ConnectTo":
					n++
					roots, _ := g.RootsReaching(f)
					var rn []string
					for _, r := range roots {
						rn = append(rn, engine.FuncName(r))
					}
					c.Hold(r2, fmt.Sprintf("site|%s|%s", engine.FuncName(f), ci.Common.Method.Name()), ci.Instr.Pos(), "reached only from "+strings.Join(rn, ", ")+" (per-peer goroutines), not from a manager loop")
				}
			}
		}
	}
	if n == 0 {
		c.AnchorMissing(r2, "network send/connect call sites")
	}
	_ = token.NoPos
}

// c25Signals (R5): the executor of a response may be parked behind its peer (memory reservation, a send); the
// manager's loop must never wait for it.  Every send on a ResponseSignals channel from the response manager is a
// select with a default case.
func c25Signals(c *engine.Ctx, rule string) {
	sigT := c.P.NamedType("responsemanager/queryexecutor", "ResponseSignals")
	if sigT == nil {
		c.AnchorMissing(rule, "queryexecutor.ResponseSignals")
		return
	}
	st, _ := sigT.Underlying().(*types.Struct)
	isSignal := func(v ssa.Value) (string, bool) {
		fl := fieldReadOf(v)
		if fl == nil || st == nil {
			return "", false
		}
		for i := 0; i < st.NumFields(); i++ {
			if st.Field(i) == fl {
				return fl.Name(), true
			}
		}
		return "", false
	}
	n := 0
	for _, f := range c.P.FuncsIn("responsemanager") {
		if engine.FuncPkgPath(f) != engine.Module+"/responsemanager" {
			continue
		}
		engine.Instrs(f, func(in ssa.Instruction) {
			switch x := in.(type) {
			case *ssa.Send:
				if name, ok := isSignal(x.Chan); ok {
					n++
					c.Violate(rule, engine.FuncName(f)+"|"+name, x.Pos(), "the manager's loop sends on the executor's "+name+" channel and waits until the send succeeds: when the executor is parked behind a stalled peer and the channel's buffer is full, the loop blocks and no peer is served any more")
				}
			case *ssa.Select:
				for _, s := range x.States {
					if s.Dir != types.SendOnly {
						continue
					}
					if name, ok := isSignal(s.Chan); ok {
						n++
						c.Decide(rule, engine.FuncName(f)+"|"+name, x.Pos(), !x.Blocking,
							"non-blocking send (select with default) on "+name,
							"the select sending on the executor's "+name+" channel has no default case: the manager's loop can wait behind a parked executor")
					}
				}
			}
		})
	}
	if n == 0 {
		c.AnchorMissing(rule, "a send on a queryexecutor.ResponseSignals channel in responsemanager")
	}
}
