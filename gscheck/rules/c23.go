package rules

import (
	"fmt"
	"go/token"
	"go/types"

	"golang.org/x/tools/go/ssa"

	"gscheck/engine"
)

func init() {
	register(&Property{
		Meta: engine.PropMeta{
			ID:    "C23",
			Title: "Reported request state agrees with the work queue when quiescent",
			Explanation: "Decides the per-handler atomic pairing of state writes and queue operations (both managers run handlers on one loop goroutine): (R1) every PushTask goes with state = Queued for the same handler path and vice versa; " +
				"(R2) state = Running is written only on the task-start path that hands out a non-empty task; (R3) every TaskDone in a finish/release handler is followed on every path by the entry leaving Running (Paused, CompletingSend, or deletion, or the entry is absent), and the empty-task TaskDone happens only for an empty task; " +
				"(R4) Paused is written only where the task has just been released (pause error from the executor) or at creation without queuing; every state write stores one of the four defined states; the peer-state report pairs the state table with the queue's own topics under the queue's lock. " +
				"Not decided: allocator/queue statistics after all requests end (depends on C15); stale queued tasks of requests cancelled while Queued.",
			Assumptions: append([]string{"handlers run one at a time on the manager's loop goroutine (single consumer of the message channel)"}, commonTrust...),
			Technique:   "pairing by dominance and must-reach on the CFG, constant classification of state stores",
		},
		Run: runC23,
	})
}

func runC23(c *engine.Ctx) {
	r1 := c.Rule("R1", "PushTask <=> state = Queued on the same handler path", 2)
	r2 := c.Rule("R2", "state = Running only on the non-empty task-start path", 1)
	r3 := c.Rule("R3", "TaskDone in a finish handler is followed by the entry leaving Running on every path; empty-task TaskDone only for empty tasks", 2)
	r4 := c.Rule("R4", "Paused only after a pause error released the task or at unqueued creation; only defined states are stored; peer-state report reads table and queue together", 2)
	// a task that was popped is released exactly once on every path of its execution (C21.R4): otherwise the
	// queue reports an active task for a request that no longer has any state
	r5 := c.Rule("R5", "every popped task is released exactly once, whatever became of its request (C21.R4)", 2)
	c21Release(c, r5, c.P.FuncsIn("taskqueue"))
	r6 := c.Rule("R6", "the task marked done is the very task that was popped (the queue matches active tasks by pointer)", 2)
	checkTaskIdentity(c, r6)

	for _, rel := range []string{"requestmanager", "responsemanager"} {
		m := loadMgr(c, r1, rel)
		if m == nil {
			continue
		}
		stores := m.stateStores()
		pushes := m.queueCalls("PushTask")
		isPush := func(in ssa.Instruction) bool {
			for _, p := range pushes {
				if p.Instr == in {
					return true
				}
			}
			return false
		}
		isQueuedStore := func(in ssa.Instruction) bool {
			for _, s := range stores {
				if s.name == "Queued" && ssa.Instruction(s.st) == in {
					return true
				}
			}
			return false
		}
		// the state chosen into a variable, stored, and the push made under "the stored state is Queued"
		// (`x.state = choose(...); switch x.state { case Queued: push }`): the guard found on a push
		queuedGuard := func(p engine.CallInfo, s stateStore) (engine.Cond, bool) {
			if s.name != "(one of the defined states)" || s.st.Parent() != p.Instr.Parent() || !engine.Before(s.st, p.Instr) {
				return engine.Cond{}, false
			}
			for _, cd := range engine.InstrConds(p.Instr) {
				e, isEq := cd.AsEq()
				if !isEq || !e.Equal || cd.If == nil {
					continue
				}
				if k, isK := engine.ConstInt(e.Y); !isK || k != m.states["Queued"] {
					continue
				}
				x := engine.Strip(e.X)
				same := engine.Strip(engine.ForwardedValue(x)) == engine.LocalValue(s.st.Val) || x == engine.LocalValue(s.st.Val)
				if fl, _ := engine.LoadedField(x); fl == m.state {
					if xi, isI := x.(ssa.Instruction); isI && engine.Before(s.st, xi) {
						same = true
					}
				}
				if same {
					return cd, true
				}
			}
			return engine.Cond{}, false
		}
		// R1 both directions
		for _, p := range pushes {
			f := p.Instr.Parent()
			c.Analysed(engine.FuncName(f))
			ok := false
			for _, s := range stores {
				if _, found := queuedGuard(p, s); found {
					ok = true
				}
			}
			for _, s := range stores {
				if s.name != "Queued" || s.st.Parent() != f {
					continue
				}
				if engine.Before(s.st, p.Instr) {
					if r, _ := engine.MustReachBeforeReturn(s.st, isPush, nil); r {
						ok = true
					}
				}
				if engine.Before(p.Instr, s.st) {
					if r, _ := engine.MustReachBeforeReturn(p.Instr, isQueuedStore, nil); r {
						ok = true
					}
				}
			}
			c.Decide(r1, fmt.Sprintf("%s|PushTask", engine.FuncName(f)), p.Instr.Pos(), ok,
				"the entry is marked Queued on exactly the paths that push its task",
				"a task is pushed without the entry being marked Queued on the same path: the reported state disagrees with the queue")
		}
		for _, s := range stores {
			if s.name != "Queued" {
				continue
			}
			f := s.st.Parent()
			ok := false
			for _, p := range pushes {
				if p.Instr.Parent() != f {
					continue
				}
				if engine.Before(s.st, p.Instr) {
					if r, _ := engine.MustReachBeforeReturn(s.st, isPush, nil); r {
						ok = true
					}
				} else if engine.Before(p.Instr, s.st) {
					ok = true
				}
			}
			c.Decide(r1, fmt.Sprintf("%s|state=Queued", engine.FuncName(f)), s.st.Pos(), ok,
				"every path that marks the entry Queued pushes its task",
				"the entry is marked Queued on a path that does not push a task: it is reported queued but will never run")
		}

		for _, s := range stores {
			if s.name != "(one of the defined states)" {
				continue
			}
			hasQ := false
			for _, o := range engine.ValueOutcomes(engine.LocalValue(s.st.Val), s.st.Block()) {
				if k, isK := engine.ConstInt(o.V); isK && k == m.states["Queued"] {
					hasQ = true
				}
			}
			if !hasQ {
				continue
			}
			// every way on from the store tests the stored state, and the Queued side of the test pushes
			f := s.st.Parent()
			ok := false
			for _, p := range pushes {
				cd, found := queuedGuard(p, s)
				if !found {
					continue
				}
				test := cd.If
				tested, _ := engine.MustReachBeforeReturn(s.st, func(in ssa.Instruction) bool { return in == ssa.Instruction(test) }, nil)
				side := test.Block().Succs[1]
				if cd.Pol {
					side = test.Block().Succs[0]
				}
				pushed, _ := engine.MustReachFromBlock(side, isPush, nil)
				if tested && pushed {
					ok = true
				}
			}
			c.Decide(r1, fmt.Sprintf("%s|state=Queued (chosen)", engine.FuncName(f)), s.st.Pos(), ok,
				"every path that marks the entry Queued pushes its task",
				"the entry can be marked Queued (the state is chosen into a variable) on a path that does not push a task: it is reported queued but will never run")
		}

		// R2 Running
		emptyF := taskEmptyField(c, rel)
		for _, s := range stores {
			if s.name != "Running" {
				continue
			}
			f := s.st.Parent()
			c.Analysed(engine.FuncName(f))
			// no return of an Empty task reachable after the store; function returns a task struct
			emptyAfter, _ := engine.CanReach(s.st, func(in ssa.Instruction) bool {
				st, ok := in.(*ssa.Store)
				if !ok {
					return false
				}
				fa, ok := st.Addr.(*ssa.FieldAddr)
				if !ok || engine.FieldOf(fa) != emptyF {
					return false
				}
				b, isC := engine.ConstBool(st.Val)
				return isC && b
			}, nil)
			// the function hands out the executor's task struct (the one carrying the Empty flag)
			returnsTask := false
			if f.Signature.Results().Len() == 1 && emptyF != nil {
				if st, ok := f.Signature.Results().At(0).Type().Underlying().(*types.Struct); ok {
					for i := 0; i < st.NumFields(); i++ {
						if st.Field(i) == emptyF {
							returnsTask = true
						}
					}
				}
			}
			// and the caller marks the task done iff Empty (checked in R3)
			c.Decide(r2, fmt.Sprintf("%s|state=Running", engine.FuncName(f)), s.st.Pos(), returnsTask && !emptyAfter,
				"Running is set only where a non-empty task is handed to the executor",
				"the entry is marked Running on a path that does not hand out a runnable task")
		}

		// R3
		for _, td := range m.queueCalls("TaskDone") {
			f := td.Instr.Parent()
			c.Analysed(engine.FuncName(f))
			uncond, _ := engine.MustReachFromEntry(f, func(in ssa.Instruction) bool { return in == td.Instr }, nil)
			if !uncond {
				okE := false
				for _, cd := range engine.InstrConds(td.Instr) {
					if fl := fieldReadOf(cd.V); fl != nil && fl == emptyF && cd.Pol {
						okE = true
					}
				}
				c.Decide(r3, fmt.Sprintf("%s|TaskDone-empty", engine.FuncName(f)), td.Instr.Pos(), okE,
					"the start handler releases the task only when it is empty (no Running entry was produced)",
					"TaskDone outside a finish handler is not tied to the empty-task result")
				continue
			}
			leaves := func(in ssa.Instruction) bool {
				if m.isTerminateCall(in) {
					return true
				}
				for _, s := range stores {
					if ssa.Instruction(s.st) == in && (s.name == "Paused" || s.name == "CompletingSend" || s.name == "Queued") {
						return true
					}
				}
				return false
			}
			bad := ""
			for _, r := range engine.Returns(f) {
				if reachableFromAvoiding(td.Instr, r, leaves, m.absentEdge) {
					bad = "after TaskDone the handler can return at " + c.P.Pos(r.Pos()) + " with the entry still marked Running (reported running, but no active task)"
				}
			}
			c.Decide(r3, fmt.Sprintf("%s|TaskDone-leaves-Running", engine.FuncName(f)), td.Instr.Pos(), bad == "",
				"after TaskDone every path pauses, completes, terminates the entry, or finds none", bad)
		}

		// R4
		for _, s := range stores {
			f := s.st.Parent()
			key := fmt.Sprintf("%s|state=%s", engine.FuncName(f), s.name)
			if s.name == "" {
				c.Violate(r4, engine.FuncName(f)+"|state=?", s.st.Pos(), "a state field is assigned something other than one of the four defined request states")
				continue
			}
			if s.name != "Paused" {
				continue
			}
			// (a) after a TaskDone in the same function under an ErrPaused type assertion, or (b) no PushTask reachable in this function (unqueued creation)
			a := false
			for _, td := range m.queueCalls("TaskDone") {
				if td.Instr.Parent() == f && engine.Before(td.Instr, s.st) {
					for _, cd := range engine.InstrConds(s.st) {
						if ex, ok := cd.V.(*ssa.Extract); ok && ex.Index == 1 && cd.Pol {
							if ta, ok := ex.Tuple.(*ssa.TypeAssert); ok && isNamedType(ta.AssertedType, "ErrPaused") {
								a = true
							}
						}
					}
				}
			}
			b := false
			if !a {
				reachPush, _ := engine.CanReach(s.st, isPush, nil)
				pushBefore := false
				for _, p := range pushes {
					if p.Instr.Parent() == f && engine.Before(p.Instr, s.st) {
						pushBefore = true
					}
				}
				// only the handler that creates the entry may start it out paused
				creates := len(engine.MapUpdatesOfField([]*ssa.Function{f}, m.table)) > 0
				b = !reachPush && !pushBefore && creates
			}
			c.Decide(r4, key, s.st.Pos(), a || b,
				"Paused is recorded only once the task has been released after a pause error, or for a request that is never queued",
				"the entry is marked Paused while its task may still be queued or active")
		}
		// peer state report
		for _, f := range m.fns {
			for _, ci := range engine.Calls(f) {
				if !ci.Common.IsInvoke() || ci.Common.Method.Name() != "WithPeerTopics" || !isLoadOfField(ci.Common.Value, m.queue) {
					continue
				}
				cl := resolveFuncValue(ci.Common.Args[len(ci.Common.Args)-1])
				ok := false
				if cl != nil {
					engine.Instrs(cl, func(in ssa.Instruction) {
						if fa, isFA := in.(*ssa.FieldAddr); isFA && engine.FieldOf(fa) == m.table {
							ok = true
						}
					})
				}
				c.Decide(r4, engine.FuncName(f)+"|peer-state-snapshot", ci.Instr.Pos(), ok,
					"request states are read inside the queue's WithPeerTopics callback (one consistent snapshot of table and queue)",
					"the peer-state report reads the state table outside the queue's WithPeerTopics callback: states and queue topics come from different moments")
			}
		}
	}
	_ = token.NoPos
}

func isNamedType(t types.Type, name string) bool {
	if p, ok := t.(*types.Pointer); ok {
		t = p.Elem()
	}
	n, ok := t.(*types.Named)
	return ok && n.Obj().Name() == name
}

func taskEmptyField(c *engine.Ctx, rel string) *types.Var {
	switch rel {
	case "requestmanager":
		return c.P.Field("requestmanager/executor", "RequestTask", "Empty")
	case "responsemanager":
		return c.P.Field("responsemanager/queryexecutor", "ResponseTask", "Empty")
	}
	return nil
}

// reachableFromAvoiding: target reachable from just after `from` without executing
// an instruction satisfying avoid and without taking a skipped edge.
func reachableFromAvoiding(from, target ssa.Instruction, avoid func(ssa.Instruction) bool, skipEdge func(a, b *ssa.BasicBlock) bool) bool {
	seen := map[*ssa.BasicBlock]bool{}
	var walk func(b *ssa.BasicBlock, start int) bool
	walk = func(b *ssa.BasicBlock, start int) bool {
		for i := start; i < len(b.Instrs); i++ {
			in := b.Instrs[i]
			if in == target {
				return true
			}
			if avoid(in) {
				return false
			}
		}
		for _, s := range b.Succs {
			if skipEdge != nil && skipEdge(b, s) {
				continue
			}
			if seen[s] {
				continue
			}
			seen[s] = true
			if walk(s, 0) {
				return true
			}
		}
		return false
	}
	idx := 0
	for i, in := range from.Block().Instrs {
		if in == from {
			idx = i + 1
		}
	}
	return walk(from.Block(), idx)
}

// checkTaskIdentity (C23.R6, C21.R5): go-peertaskqueue keeps active tasks by pointer; TaskDone on the address of a
// copy is a no-op and the popped task stays active for ever.  Every TaskDone in the managers is handed a pointer that
// travelled as a pointer (parameter, pointer-typed field), never the address of a local or of a struct field.
func checkTaskIdentity(c *engine.Ctx, rule string) {
	n := 0
	for _, rel := range []string{"requestmanager", "responsemanager"} {
		for _, f := range c.P.FuncsIn(rel) {
			for _, ci := range engine.Calls(f) {
				if !ci.Common.IsInvoke() || ci.Common.Method.Name() != "TaskDone" || len(ci.Common.Args) < 2 {
					continue
				}
				n++
				arg := engine.Strip(ci.Common.Args[1])
				bad := ""
				switch x := arg.(type) {
				case *ssa.Alloc:
					bad = "the address of a local copy"
				case *ssa.FieldAddr:
					bad = "the address of a struct field holding a copy (" + engine.FieldOf(x).Name() + ")"
				}
				// and callers pass the pointer on unchanged
				if p, ok := arg.(*ssa.Parameter); ok && bad == "" {
					idx := -1
					for i, fp := range f.Params {
						if fp == p {
							idx = i
						}
					}
					for _, cs := range c.P.CallSitesOf(f) {
						if idx < 0 || idx >= len(cs.Common().Args) {
							continue
						}
						switch y := engine.Strip(cs.Common().Args[idx]).(type) {
						case *ssa.Alloc:
							bad = "the address of a local copy (at " + c.P.Pos(cs.Pos()) + ")"
						case *ssa.FieldAddr:
							bad = "the address of a struct field holding a copy (" + engine.FieldOf(y).Name() + ", at " + c.P.Pos(cs.Pos()) + ")"
						}
					}
				}
				c.Decide(rule, engine.FuncName(f)+"|TaskDone-same-pointer", ci.Instr.Pos(), bad == "",
					"TaskDone receives the task pointer as it was popped",
					"TaskDone is given "+bad+": the queue matches active tasks by pointer, so the popped task is never released and is reported active for a request that has no state left")
			}
		}
	}
	if n == 0 {
		c.AnchorMissing(rule, "TaskDone calls in the managers")
	}
}
