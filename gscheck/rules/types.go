package rules

import "golang.org/x/tools/go/ssa"

type ssaValue = ssa.Value
