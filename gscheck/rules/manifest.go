package rules

import (
	"encoding/json"
	"sort"
)

// NotApplicable lists the properties not claimed, with the reason.
var NotApplicable = map[string]string{
	"C20": "truth depends on the relative timing of concurrent traversals and lazy store commits (schedule-dependent); its structural mechanisms (responder dedup, requestor local fallback) are decided under C02/C03/C19 and no sound static argument bounds the rest",
}

// AllProps is the fixed list of property ids of /verif/properties.jsonl.
var AllProps = []string{"C01", "C02", "C03", "C04", "C05", "C06", "C07", "C08", "C09", "C10", "C11", "C12", "C13",
	"C14", "C15", "C16", "C17", "C18", "C19", "C20", "C21", "C22", "C23", "C24", "C25"}

// Manifest renders /verif/MANIFEST.json from the registry.
func Manifest() []byte {
	type level struct {
		Category  string `json:"category"`
		Text      string `json:"text"`
		DesignRef string `json:"design_ref"`
	}
	type check struct {
		PropertyID string `json:"property_id"`
		Quick      string `json:"quick_cmd"`
		Thorough   string `json:"thorough_cmd"`
		Evidence   string `json:"evidence_file"`
		Replay     string `json:"replay_cmd_template"`
		Engine     string `json:"engine"`
		Level      level  `json:"level_claimed"`
		Note       string `json:"level_note"`
		Technique  string `json:"technique"`
	}
	type na struct {
		PropertyID string `json:"property_id"`
		Reason     string `json:"reason"`
	}
	var checks []check
	var nas []na
	var served []string
	for _, id := range AllProps {
		p := Get(id)
		if p == nil {
			r, ok := NotApplicable[id]
			if !ok {
				r = "no static rule table built for this property yet; not claimed (see DESIGN.md §4 for the planned structural clauses)"
			}
			nas = append(nas, na{id, r})
			continue
		}
		served = append(served, id)
		note := "Trusted base: "
		for i, a := range p.Meta.Assumptions {
			if i > 0 {
				note += "; "
			}
			note += a
		}
		checks = append(checks, check{
			PropertyID: id,
			Quick:      "/verif/check.sh " + id + " quick",
			Thorough:   "/verif/check.sh " + id + " thorough",
			Evidence:   "/verif/evidence/" + id + ".json",
			Replay:     "/verif/check.sh " + id + " quick   # static: re-analyses /repo; {path} names the violating construct",
			Engine:     "gscheck",
			Level: level{
				Category:  "other",
				Text:      "Static analysis of /repo's current source (type-checked packages, go/ssa, CFG dominance, call graph): decides a structural necessary condition of the property on every path of the anchored code, not the behaviour itself. " + p.Meta.Explanation,
				DesignRef: "DESIGN.md §4 " + id,
			},
			Note:      note,
			Technique: "static analysis: " + p.Meta.Technique,
		})
	}
	sort.Strings(served)
	m := map[string]any{
		"version":   1,
		"setup_cmd": "cd /verif && . ./env.sh && (cd gscheck && go build -o /verif/bin/gscheck ./cmd/gscheck) && (cd /repo && go build ./... )",
		"hooks": map[string]any{
			"guard":            "verif",
			"enable":           "none needed: static analysis reads the source tree; no instrumentation is compiled into /repo",
			"baseline_off_cmd": "/verif/scripts/baseline.sh /repo",
			"source_commits":   []string{},
			"add_only":         true,
		},
		"engines": []map[string]any{{
			"name": "gscheck", "path": "/verif/gscheck", "serves_properties": served,
			"kind_free_text": "repository-specific static analyser (Go; go/packages + go/ssa + call graph): dominance/guard, provenance, taint, pairing, ownership and table-agreement rules per property",
		}},
		"checks":         checks,
		"not_applicable": nas,
		"notes":          "All claims are level 'other': each check decides named structural clauses (DESIGN.md §4) by static analysis of /repo's working tree and reports the violating construct. known_findings.json lists genuine defects recorded rather than repaired, and the fix: commits made.",
	}
	b, _ := json.MarshalIndent(m, "", " ")
	return append(b, '\n')
}
