package rules

import (
	"strings"
	"fmt"
	"go/token"
	"go/types"

	"golang.org/x/tools/go/ssa"

	"gscheck/engine"
)

func init() {
	register(&Property{
		Meta: engine.PropMeta{
			ID:    "C01",
			Title: "Requestor only delivers and stores verified, selector-reachable data",
			Explanation: "Decides the provenance chain from wire bytes to a store write; every link is a necessary condition (cut one and a forged block is stored): " +
				"(R1) the decoder keys each block by Prefix.Sum of its own bytes; (R2) the block map handed to the loader is keyed by each block's own CID; (R3) the loader binds a queued item's bytes to blocks[k] for the very k it records as the item's link, and all other writers store nil; " +
				"(R3b) pooled items never carry stale bytes (every Put is preceded by wiping .block); (R4) every StorageWriteOpener call, every write of bytes into the returned writer, every committer call and every return of remote bytes is dominated by the true edge of head.link == CID(link the traversal asked for), " +
				"the bytes written are that head's block and the committer is given the requested link; (R5) going online installs a verifier over the traversal record, VerifyNext errors are returned, 'remote data usable' is reported only when the verifier is nil or done, and the error reaches AsyncLoadResult.Err; (R6) = C09's peer-routing rule. " +
				"Not decided: correctness of Verifier's replay for every history; pathTracker; go-ipld-prime traversal and hashers (trusted).",
			Assumptions: append([]string{"go-cid Prefix.Sum and go-ipld-prime's traversal are correct; the local traversal only asks for links reachable by the selector"}, commonTrust...),
			Technique:   "value provenance through SSA, guard dominance, field ownership, path reachability",
		},
		Run: runC01,
	})
}

func runC01(c *engine.Ctx) {
	r1 := c.Rule("R1", "decoded blocks are keyed by Prefix.Sum of their own bytes (error checked)", 1)
	r2 := c.Rule("R2", "the block map given to the loader is keyed by each block's own CID", 1)
	r3 := c.Rule("R3", "a queued item's bytes are blocks[k] for the k recorded as the item's link; other writers store nil", 1)
	r3b := c.Rule("R3b", "pooled items never carry stale bytes: every Put is preceded by wiping .block", 1)
	r8 := c.Rule("R8", "the library's own block-store link system hands every write its own buffer, which is the one its committer stores under the committed link", 1)
	c01WriterPerOpen(c, r8)
	r4 := c.Rule("R4", "store open/write/commit and return of remote bytes only after head.link == requested CID; bytes are that head's block; committer gets the requested link", 2)
	r5 := c.Rule("R5", "replay guard: verifier installed on going online; VerifyNext errors returned; usable-remote only when verifier nil/done; error reaches the load result", 2)
	r6 := c.Rule("R6", "responses are routed only to requests sent to the sending peer (C09.R1)", 1)

	checkHashBinding(c, r1)
	c01BlockMap(c, r2)
	c01Ingest(c, r3, r3b)
	c01VerifyBeforeWrite(c, r4, "")
	c01Replay(c, r5)
	c09Rules(c, r6, "")
	r7 := c.Rule("R7", "verifier step: accepted only if the remote link equals the recorded link and the remote does not claim data the local traversal could not load; then advance (into children iff the remote followed the link); the record stores the link and success flag it is given", 2)
	c01VerifierStep(c, r7)
}

func c01VerifierStep(c *engine.Ctx, rule string) {
	tr := "requestmanager/reconciledloader/traversalrecord"
	vn := c.P.Func(tr, "Verifier", "VerifyNext")
	linkF := c.P.Field(tr, "TraversalRecord", "link")
	succF := c.P.Field(tr, "TraversalRecord", "successful")
	rec := c.P.Func(tr, "TraversalRecord", "RecordNextStep")
	if vn == nil || linkF == nil || succF == nil || rec == nil {
		c.AnchorMissing(rule, "traversalrecord.Verifier.VerifyNext / TraversalRecord{link,successful}.RecordNextStep")
		return
	}
	c.Analysed(engine.FuncName(vn), engine.FuncName(rec))
	linkP, succP := vn.Params[1], vn.Params[2]
	// (a) nil return only under Equals(recorded link, remote link)
	okEq, nNil := true, 0
	var advance *ssa.Call
	for _, ci := range engine.Calls(vn) {
		if ci.Static != nil && ci.Static.Name() == "nextLink" {
			advance = ci.Value()
		}
	}
	for _, r := range engine.Returns(vn) {
		if !engine.IsNilConst(engine.ReturnValue(r, 0)) {
			continue
		}
		nNil++
		eq := false
		for _, cd := range engine.InstrConds(r) {
			if call, ok := cd.V.(*ssa.Call); ok && cd.Pol && engine.Resolve(call).Is("github.com/ipfs/go-cid.Cid.Equals") {
				a, b := call.Call.Args[0], call.Call.Args[1]
				recA := derivesFromField(a, linkF, 4)
				recB := derivesFromField(b, linkF, 4)
				if (recA && engine.Strip(b) == ssa.Value(linkP)) || (recB && engine.Strip(a) == ssa.Value(linkP)) {
					eq = true
				}
			}
		}
		if !eq {
			okEq = false
		}
		if advance == nil || !engine.Before(advance, r) {
			okEq = false
		}
	}
	c.Decide(rule, engine.FuncName(vn)+"|link-equality", vn.Pos(), okEq && nNil > 0,
		"a step is accepted only when the recorded link equals the remote's link, and the verifier then advances",
		"the verifier accepts a step without comparing the recorded link with the remote's link (or without advancing): a responder can replay different links over blocks already loaded")
	// (b) an error path exists exactly for (recorded unsuccessful, remote claims success); advance explores children iff remote followed
	okFlag := false
	for _, r := range engine.Returns(vn) {
		if engine.IsNilConst(engine.ReturnValue(r, 0)) {
			continue
		}
		recUnsucc, remSucc := false, false
		for _, cd := range engine.InstrConds(r) {
			if fieldReadOf(cd.V) == succF && !cd.Pol {
				recUnsucc = true
			}
			if engine.Strip(cd.V) == ssa.Value(succP) && cd.Pol {
				remSucc = true
			}
		}
		if recUnsucc && remSucc {
			okFlag = true
		}
	}
	okAdv := advance != nil && engine.Strip(advance.Call.Args[len(advance.Call.Args)-1]) == ssa.Value(succP)
	c.Decide(rule, engine.FuncName(vn)+"|success-flag", vn.Pos(), okFlag && okAdv,
		"a remote claiming data where the local load failed is refused; the verifier descends into children iff the remote followed the link",
		fmt.Sprintf("success-flag handling changed (refuses remote-success over local-failure: %v, advance follows the remote's flag: %v)", okFlag, okAdv))
	// (c) the record stores what it is given at the leaf
	okRec := false
	lp, sp := rec.Params[2], rec.Params[3]
	ls, ss := false, false
	for _, st := range engine.StoresTo([]*ssa.Function{rec}, linkF) {
		if al, ok := st.Val.(*ssa.Alloc); ok {
			for _, r := range *al.Referrers() {
				if s2, ok := r.(*ssa.Store); ok && s2.Addr == ssa.Value(al) && engine.Strip(s2.Val) == ssa.Value(lp) {
					ls = true
				}
			}
		}
	}
	for _, st := range engine.StoresTo([]*ssa.Function{rec}, succF) {
		if engine.Strip(st.Val) == ssa.Value(sp) {
			ss = true
		}
	}
	okRec = ls && ss
	c.Decide(rule, engine.FuncName(rec)+"|records-arguments", rec.Pos(), okRec, "the record stores the link and success flag of the step it is given", "the traversal record does not store the link / success flag it is given")
}

// ---- R2
func c01BlockMap(c *engine.Ctx, rule string) {
	ingest := c.P.Func("requestmanager/reconciledloader", "ReconciledLoader", "IngestResponse")
	if ingest == nil {
		c.AnchorMissing(rule, "reconciledloader.ReconciledLoader.IngestResponse")
		return
	}
	n := 0
	for _, f := range c.P.FuncsIn("requestmanager") {
		for _, ci := range engine.Calls(f) {
			if ci.Static != ingest {
				continue
			}
			n++
			c.Analysed(engine.FuncName(f))
			m := engine.LocalValue(ci.Arg(2))
			key := engine.FuncName(f) + "|blocks-arg"
			mk, ok := m.(*ssa.MakeMap)
			if !ok {
				c.Undecided(rule, key, ci.Instr.Pos(), "the block map passed to IngestResponse is not built in this function")
				continue
			}
			ok2 := true
			why := ""
			updates := 0
			engine.Instrs(f, func(in ssa.Instruction) {
				mu, isMU := in.(*ssa.MapUpdate)
				if !isMU || mu.Map != ssa.Value(mk) {
					return
				}
				updates++
				kc, okK := engine.LocalValue(mu.Key).(*ssa.Call)
				vc, okV := engine.LocalValue(mu.Value).(*ssa.Call)
				if !okK || !okV || !kc.Call.IsInvoke() || !vc.Call.IsInvoke() || kc.Call.Method.Name() != "Cid" || vc.Call.Method.Name() != "RawData" {
					ok2, why = false, "a block map entry is not blk.Cid() -> blk.RawData()"
					return
				}
				if !engine.SameValue(kc.Call.Value, vc.Call.Value) {
					ok2, why = false, "the key's block and the value's block differ: bytes are filed under another block's CID"
				}
			})
			if updates == 0 {
				ok2, why = false, "the block map is never filled"
			}
			c.Decide(rule, key, ci.Instr.Pos(), ok2, "every entry is b.Cid() -> b.RawData() for one and the same b", why)
		}
	}
	if n == 0 {
		c.AnchorMissing(rule, "a call of IngestResponse in requestmanager")
	}
}

// ---- R3 / R3b
func c01Ingest(c *engine.Ctx, rule, ruleB string) {
	blockF := c.P.Field("requestmanager/reconciledloader", "remoteItem", "block")
	linkF := c.P.Field("requestmanager/reconciledloader", "remoteItem", "link")
	if blockF == nil || linkF == nil {
		c.AnchorMissing(rule, "reconciledloader.remoteItem{block,link}")
		return
	}
	fns := c.P.FuncsIn("requestmanager/reconciledloader")
	// writers outside the package?
	for _, f := range c.P.SrcFuncs() {
		if engine.FuncPkgPath(f) == engine.Module+"/requestmanager/reconciledloader" {
			continue
		}
		if len(engine.StoresTo([]*ssa.Function{f}, blockF)) > 0 {
			c.Violate(rule, engine.FuncName(f)+"|foreign-writer", f.Pos(), "remoteItem.block is written outside the reconciled loader package")
		}
	}
	itemBase := func(addr ssa.Value) ssa.Value {
		// &item.remoteItem.block -> item
		fa, ok := addr.(*ssa.FieldAddr)
		if !ok {
			return nil
		}
		b := fa.X
		if fa2, ok := b.(*ssa.FieldAddr); ok {
			b = fa2.X
		}
		return b
	}
	for _, st := range engine.StoresTo(fns, blockF) {
		f := st.Parent()
		c.Analysed(engine.FuncName(f))
		if engine.IsNilConst(st.Val) {
			c.Hold(rule, engine.FuncName(f)+"|block=nil", st.Pos(), "wipes the bytes")
			continue
		}
		key := engine.FuncName(f) + "|block=bytes"
		lk, ok := engine.LocalValue(st.Val).(*ssa.Lookup)
		if !ok {
			c.Violate(rule, key, st.Pos(), "an item's bytes are not taken from the response's block map by key")
			continue
		}
		base := itemBase(st.Addr)
		bound := false
		for _, ls := range engine.StoresTo([]*ssa.Function{f}, linkF) {
			if itemBase(ls.Addr) == base && engine.SameValue(ls.Val, lk.Index) {
				bound = true
			}
		}
		// the map is the function's blocks parameter (possibly captured)
		isBlocksParam := false
		switch m := engine.Strip(lk.X).(type) {
		case *ssa.Parameter:
			isBlocksParam = true
		case *ssa.FreeVar:
			isBlocksParam = true
		case *ssa.UnOp:
			if _, ok := m.X.(*ssa.FreeVar); ok {
				isBlocksParam = true
			}
		}
		c.Decide(rule, key, st.Pos(), bound && isBlocksParam, "item.block = blocks[k] with the same k stored as item.link",
			"an item's bytes are looked up under a key other than the link recorded for that item: bytes of one block can sit under another link and pass the later CID comparison")
	}
	// R3b
	var pool *ssa.Global
	for _, m := range c.P.Pkg("requestmanager/reconciledloader").Members {
		if g, ok := m.(*ssa.Global); ok && engine.IsNamed(g.Type().(*types.Pointer).Elem(), "sync", "Pool") {
			pool = g
		}
	}
	if pool == nil {
		c.AnchorMissing(ruleB, "the sync.Pool of remote items")
		return
	}
	wiped := func(v ssa.Value, at ssa.Instruction) bool {
		f := at.Parent()
		for _, st := range engine.StoresTo([]*ssa.Function{f}, blockF) {
			if !engine.IsNilConst(st.Val) || !engine.Before(st, at) {
				continue
			}
			if b := itemBase(st.Addr); b != nil && engine.SameValue(b, v) {
				return true
			}
		}
		return false
	}
	for _, f := range fns {
		for _, ci := range engine.Calls(f) {
			if !ci.Is("sync.Pool.Put") || ci.Recv() != ssa.Value(pool) {
				continue
			}
			arg := engine.LocalValue(ci.Arg(0))
			key := engine.FuncName(f) + "|Put"
			ok := wiped(arg, ci.Instr)
			how := "the item's block is set to nil before it is returned to the pool"
			if !ok {
				// held in a field: every non-nil store to that field stores an item whose block was wiped
				if fl, _ := engine.LoadedField(arg); fl != nil {
					all := true
					n := 0
					for _, st := range engine.StoresTo(fns, fl) {
						if engine.IsNilConst(st.Val) {
							continue
						}
						n++
						if !wiped(engine.LocalValue(st.Val), st) {
							all = false
						}
					}
					if all && n > 0 {
						ok = true
						how = "the item comes from field " + fl.Name() + ", which only ever holds items whose block was wiped first"
					}
				}
			}
			c.Decide(ruleB, key, ci.Instr.Pos(), ok, how, "an item is returned to the pool while it may still hold block bytes: a recycled item can carry one request's bytes under another link")
		}
	}
}

// ---- R4 (and C02.R1 when ruleStored != "")
func c01VerifyBeforeWrite(c *engine.Ctx, rule, ruleStored string) {
	blockF := c.P.Field("requestmanager/reconciledloader", "remoteItem", "block")
	linkF := c.P.Field("requestmanager/reconciledloader", "remoteItem", "link")
	if blockF == nil || linkF == nil {
		c.AnchorMissing(rule, "reconciledloader.remoteItem{block,link}")
		return
	}
	n := 0
	for _, f := range c.P.FuncsIn("requestmanager") {
		var opens []*ssa.Call
		for _, ci := range engine.Calls(f) {
			if !ci.Common.IsInvoke() && ci.Common.StaticCallee() == nil && isStorageFuncType(ci.Common.Value.Type()) == "linking.BlockWriteOpener" {
				if call := ci.Value(); call != nil {
					opens = append(opens, call)
				}
			}
		}
		if len(opens) == 0 {
			continue
		}
		c.Analysed(engine.FuncName(f))
		// the requested link: the datamodel.Link parameter
		var linkP *ssa.Parameter
		for _, p := range f.Params {
			if types.TypeString(types.Unalias(p.Type()), nil) == "github.com/ipld/go-ipld-prime/datamodel.Link" {
				linkP = p
			}
		}
		// guard: cid.Equals(head.link, link.(cidlink.Link).Cid) true
		guardHead := func(at ssa.Instruction) ssa.Value {
			for _, cd := range engine.InstrConds(at) {
				var x, y ssa.Value
				if call, ok := cd.V.(*ssa.Call); ok && cd.Pol && engine.Resolve(call).Is("github.com/ipfs/go-cid.Cid.Equals") {
					x, y = call.Call.Args[0], call.Call.Args[1]
				} else if e, ok := cd.AsEq(); ok && e.Equal {
					x, y = e.X, e.Y
				} else {
					continue
				}
				for _, pair := range [][2]ssa.Value{{x, y}, {y, x}} {
					fl, base := engine.LoadedField(pair[0])
					if fl != linkF {
						continue
					}
					if linkP != nil && derivesFromParam(pair[1], linkP) {
						return base
					}
				}
			}
			return nil
		}
		for _, open := range opens {
			n++
			key := engine.FuncName(f)
			head := guardHead(open)
			c.Decide(rule, key+"|open-store", open.Pos(), head != nil, "StorageWriteOpener is called only after head.link == CID(requested link)",
				"the store is opened for writing without a dominating comparison of the remote item's CID with the link the traversal asked for: whatever the responder queued next is written under the requested link")
			if head == nil {
				continue
			}
			// writes into the writer
			writer := extractOf(open, 0)
			committer := extractOf(open, 1)
			for _, ci := range engine.Calls(f) {
				if !ci.Common.IsInvoke() || (ci.Common.Method.Name() != "Write" && ci.Common.Method.Name() != "SetBytes") {
					continue
				}
				if !derivesFromValue(ci.Common.Value, writer) {
					continue
				}
				fl, base := engine.LoadedField(ci.Common.Args[0])
				okW := fl == blockF && sameBase(base, head) && sameBase(guardHead(ci.Instr), head)
				c.Decide(rule, key+"|"+ci.Common.Method.Name(), ci.Instr.Pos(), okW, "the bytes written are the verified head's block",
					"bytes written to the store are not the block of the remote item whose CID was compared")
			}
			var commitCall *ssa.Call
			for _, ci := range engine.Calls(f) {
				if ci.Common.IsInvoke() || ci.Common.StaticCallee() != nil || committer == nil || engine.Strip(ci.Common.Value) != committer {
					continue
				}
				commitCall = ci.Value()
				okC := sameBase(guardHead(ci.Instr), head) && linkP != nil && engine.Strip(ci.Common.Args[0]) == ssa.Value(linkP)
				c.Decide(rule, key+"|commit", ci.Instr.Pos(), okC, "the committer is given the requested link, after the comparison",
					"the block is committed under something other than the requested link, or before the CID comparison")
			}
			// returns of remote bytes
			for _, r := range engine.Returns(f) {
				v := engine.ReturnValue(r, 0)
				fl, base := engine.LoadedField(v)
				if fl != blockF {
					continue
				}
				okR := sameBase(base, head) && sameBase(guardHead(r), head)
				c.Decide(rule, key+"|return-bytes", r.Pos(), okR, "remote bytes are handed to the traversal only after the comparison",
					"remote bytes are returned to the traversal without the CID comparison")
				if ruleStored != "" {
					c.Decide(ruleStored, key+"|stored-before-delivered", r.Pos(), commitCall != nil && errNilDominates(r, commitCall),
						"remote bytes are returned only after the committer succeeded (the block is in the local store)",
						"remote bytes are delivered to the traversal before (or without) being committed to the local store")
				}
			}
		}
	}
	if n == 0 {
		c.AnchorMissing(rule, "a call through LinkSystem.StorageWriteOpener in requestmanager/...")
	}
}

// sameBase: two ways of naming the remote item denote the same item (same SSA value, or the same access path
// from a local that is assigned once — `dq.item` read twice).
func sameBase(a, b ssa.Value) bool {
	if a == nil || b == nil {
		return false
	}
	if a == b || engine.SameValue(a, b) || engine.SameValue(engine.LocalValue(a), engine.LocalValue(b)) {
		return true
	}
	pa, pb := engine.CanonPath(a), engine.CanonPath(b)
	return pa == pb && !strings.HasPrefix(pa, "t")
}

func extractOf(call *ssa.Call, idx int) ssa.Value {
	for _, r := range *call.Referrers() {
		if ex, ok := r.(*ssa.Extract); ok && ex.Index == idx {
			return ex
		}
	}
	return nil
}

func derivesFromValue(v, src ssa.Value) bool {
	for i := 0; i < 6 && v != nil; i++ {
		v = engine.Strip(v)
		if v == src {
			return true
		}
		switch x := v.(type) {
		case *ssa.Extract:
			v = x.Tuple
		case *ssa.TypeAssert:
			v = x.X
		default:
			return false
		}
	}
	return false
}

func derivesFromParam(v ssa.Value, p *ssa.Parameter) bool {
	for i := 0; i < 6 && v != nil; i++ {
		v = engine.Strip(v)
		if v == ssa.Value(p) {
			return true
		}
		switch x := v.(type) {
		case *ssa.Field:
			v = x.X
		case *ssa.TypeAssert:
			v = x.X
		case *ssa.Extract:
			v = x.Tuple
		case *ssa.UnOp:
			v = x.X
		case *ssa.FieldAddr:
			v = x.X
		default:
			return false
		}
	}
	return false
}

// ---- R5
func c01Replay(c *engine.Ctx, rule string) {
	verF := c.P.Field("requestmanager/reconciledloader", "ReconciledLoader", "verifier")
	openF := c.P.Field("requestmanager/reconciledloader", "ReconciledLoader", "open")
	recF := c.P.Field("requestmanager/reconciledloader", "ReconciledLoader", "traversalRecord")
	if verF == nil || openF == nil || recF == nil {
		c.AnchorMissing(rule, "ReconciledLoader{verifier,open,traversalRecord}")
		return
	}
	fns := c.P.FuncsIn("requestmanager/reconciledloader")
	// (a)
	installed := false
	for _, st := range engine.StoresTo(fns, verF) {
		if engine.IsNilConst(st.Val) {
			continue
		}
		f := st.Parent()
		key := engine.FuncName(f) + "|install-verifier"
		call, ok := engine.LocalValue(st.Val).(*ssa.Call)
		okV := ok && engine.Resolve(call).Is("~/requestmanager/reconciledloader/traversalrecord.NewVerifier") && isLoadOfField(call.Call.Args[0], recF)
		withOpen := len(engine.StoresTo([]*ssa.Function{f}, openF)) > 0
		// on the path where the loader goes from closed to open
		under := false
		for _, cd := range engine.InstrConds(st) {
			if isLoadOfField(cd.V, openF) && cd.Pol {
				under = true
			}
		}
		if okV && withOpen && under {
			installed = true
		}
		c.Decide(rule, key, st.Pos(), okV && withOpen && under, "going online installs NewVerifier(traversalRecord)",
			fmt.Sprintf("the verifier installed is not a fresh verifier over this loader's traversal record, set when going online (NewVerifier(record): %v, same function sets open: %v, on the now-open path: %v)", okV, withOpen, under))
	}
	if !installed {
		c.Violate(rule, "install-verifier", token.NoPos, "going online never installs a verifier over the traversal record: blocks loaded before going online are not re-checked against the remote's metadata")
	}
	// (b)(c)
	for _, f := range fns {
		for _, ci := range engine.Calls(f) {
			if !ci.Is("~/requestmanager/reconciledloader/traversalrecord.Verifier.VerifyNext") {
				continue
			}
			c.Analysed(engine.FuncName(f))
			call := ci.Value()
			key := engine.FuncName(f)
			// error returned
			retOK := false
			for _, r := range engine.Returns(f) {
				last := len(r.Results) - 1
				if engine.LocalValue(engine.ReturnValue(r, last)) == ssa.Value(call) && engine.KnownNonNil(engine.InstrConds(r), call) {
					retOK = true
				}
			}
			evalErr, evalUsable := c01ReplayEval(f, call, verF)
			if !retOK && evalErr {
				retOK = true // decided by evaluation: the error travels through a result variable
			}
			c.Decide(rule, key+"|VerifyNext-error", ci.Instr.Pos(), retOK, "a VerifyNext error is returned to the caller", "the result of VerifyNext is not returned as an error: a remote whose metadata contradicts what was already loaded is accepted")
			// (c) return (true, nil) only via verifier == nil or Done()
			okC := true
			for _, r := range engine.Returns(f) {
				b, isB := engine.ConstBool(engine.ReturnValue(r, 0))
				if !isB || !b || !engine.IsNilConst(engine.ReturnValue(r, 1)) {
					continue
				}
				skip := func(from, to *ssa.BasicBlock) bool {
					ifi, ok := from.Instrs[len(from.Instrs)-1].(*ssa.If)
					if !ok || from.Succs[0] != to {
						return false
					}
					if bo, ok := ifi.Cond.(*ssa.BinOp); ok && bo.Op == token.EQL && isLoadOfField(bo.X, verF) && engine.IsNilConst(bo.Y) {
						return true
					}
					if dc, ok := ifi.Cond.(*ssa.Call); ok && engine.Resolve(dc).Is("~/requestmanager/reconciledloader/traversalrecord.Verifier.Done") {
						return true
					}
					return false
				}
				if engine.ReachableAvoiding(f, r, nil, skip) {
					okC = false
				}
			}
			if !okC && evalUsable {
				okC = true
			}
			c.Decide(rule, key+"|usable-only-when-verified", ci.Instr.Pos(), okC, "'remote data usable' is reported only when the verifier is nil or done",
				"remote data is reported usable on a path where the replay of earlier loads has not finished")
			// (d) callers propagate
			for _, g := range fns {
				for _, cj := range engine.Calls(g) {
					if cj.Static != f {
						continue
					}
					wcall := cj.Value()
					prop := false
					errF := c.P.Field("requestmanager/types", "AsyncLoadResult", "Err")
					for _, st := range engine.StoresTo([]*ssa.Function{g}, errF) {
						if ex, ok := engine.LocalValue(st.Val).(*ssa.Extract); ok && ex.Tuple == ssa.Value(wcall) {
							prop = true
						}
					}
					// no load happens on the error path
					c.Decide(rule, engine.FuncName(g)+"|error-to-load-result", cj.Instr.Pos(), prop, "the verification error becomes the load result's Err", "the verification error is dropped by the caller: the load proceeds")
				}
			}
		}
	}
}

// c01ReplayEval: the function that replays the responder's metadata against the loads already made is evaluated in
// the finite domain with a replay pending (verifier installed and not done, queue not empty).
//   errReturned: when VerifyNext fails, every return hands that very error on;
//   usableOK:    when VerifyNext succeeds, no path reports "remote data usable" (true, nil) while the replay is pending.
func c01ReplayEval(f *ssa.Function, verify *ssa.Call, verF *types.Var) (errReturned, usableOK bool) {
	run := func(fail bool) (sawReturn, allErr, sawUsable bool) {
		allErr = true
		ev := &engine.Evaluator{MaxVisits: 2}
		ev.Input = func(v ssa.Value) (engine.EVal, bool) {
			switch x := v.(type) {
			case *ssa.BinOp:
				if (x.Op == token.EQL || x.Op == token.NEQ) && engine.IsNilConst(x.Y) {
					if fl, _ := engine.LoadedField(engine.LocalValue(x.X)); fl == verF {
						return engine.EVal{K: engine.EBool, B: x.Op == token.NEQ}, true // the verifier is installed
					}
				}
			case *ssa.Call:
				if x == verify {
					if fail {
						return engine.EVal{K: engine.EPtr, Tok: verify}, true
					}
					return engine.EVal{K: engine.ENil}, true
				}
				ci := engine.Resolve(x)
				if ci.Is("~/requestmanager/reconciledloader/traversalrecord.Verifier.Done") {
					return engine.EVal{K: engine.EBool, B: false}, true
				}
				if sc := x.Call.StaticCallee(); sc != nil && sc.Name() == "empty" && engine.FuncPkgPath(sc) == engine.FuncPkgPath(f) {
					return engine.EVal{K: engine.EBool, B: false}, true
				}
			}
			return engine.EVal{}, false
		}
		ev.Observe = func(in ssa.Instruction, get func(ssa.Value) engine.EVal) {
			r, ok := in.(*ssa.Return)
			if !ok || len(r.Results) < 2 {
				return
			}
			sawReturn = true
			e := get(r.Results[len(r.Results)-1])
			if !(e.K == engine.EPtr && e.Tok == ssa.Value(verify)) {
				allErr = false
			}
			b := get(r.Results[0])
			if b.K == engine.EBool && b.B && e.K == engine.ENil {
				sawUsable = true
			}
		}
		ev.Run(f)
		if ev.Aborted {
			return false, false, true
		}
		return
	}
	saw, allErr, _ := run(true)
	errReturned = saw && allErr
	_, _, usable := run(false)
	usableOK = !usable
	return
}

// c01WriterPerOpen (R8): loadRemote pairs bytes and link as  w, commit := open(); w.SetBytes(block); commit(link).
// The pairing survives concurrent loads only if each open() returns a writer of its own and the committer stores
// that writer's bytes.  (storeutil.LinkSystemForBlockstore is the link system the library builds for its users.)
func c01WriterPerOpen(c *engine.Ctx, rule string) {
	n := 0
	for _, f := range c.P.FuncsIn("storeutil") {
		engine.Instrs(f, func(in ssa.Instruction) {
			st, ok := in.(*ssa.Store)
			if !ok {
				return
			}
			fa, ok := st.Addr.(*ssa.FieldAddr)
			if !ok || engine.FieldOf(fa) == nil || engine.FieldOf(fa).Name() != "StorageWriteOpener" {
				return
			}
			lit := resolveFuncValue(st.Val)
			if lit == nil || lit.Blocks == nil {
				c.Undecided(rule, engine.FuncName(f)+"|write-opener", st.Pos(), "the write opener is not a function literal")
				return
			}
			n++
			c.Analysed(engine.FuncName(lit))
			fresh, committerOwn := true, true
			var buf *ssa.Alloc
			for _, r := range engine.Returns(lit) {
				if len(r.Results) < 2 {
					continue
				}
				w := engine.LocalValue(r.Results[0])
				if engine.IsNilConst(w) {
					continue
				}
				al, isAl := w.(*ssa.Alloc)
				if !isAl || al.Parent() != lit {
					fresh = false
					continue
				}
				buf = al
				// the committer returned alongside captures that very buffer
				if mc, isMC := engine.LocalValue(r.Results[1]).(*ssa.MakeClosure); isMC {
					captures := false
					for _, b := range mc.Bindings {
						if b == ssa.Value(al) {
							captures = true
						}
					}
					if !captures {
						committerOwn = false
					}
				} else if !engine.IsNilConst(engine.LocalValue(r.Results[1])) {
					committerOwn = false
				}
			}
			c.Decide(rule, engine.FuncName(f)+"|write-opener|fresh-writer", st.Pos(), fresh && committerOwn && buf != nil,
				"each open allocates its own buffer; the committer captures that buffer",
				fmt.Sprintf("the write opener does not hand each write its own buffer captured by its own committer (own buffer: %v, committer bound to it: %v): two loads in flight on the same link system store one block's bytes under the other's link", fresh, committerOwn))
		})
	}
	if n == 0 {
		c.AnchorMissing(rule, "the StorageWriteOpener function installed by storeutil")
	}
}
