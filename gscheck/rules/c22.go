package rules

import (
	"fmt"
	"go/token"
	"go/types"
	"strings"

	"golang.org/x/tools/go/ssa"

	"gscheck/engine"
)

func init() {
	register(&Property{
		Meta: engine.PropMeta{
			ID:    "C22",
			Title: "A panic in per-request code fails only that request",
			Explanation: "Decides: (R1) recover coverage — every in-module goroutine (go-statement root) from which a call of a user-supplied storage/codec function is reachable " +
				"(calls through linking.BlockReadOpener / BlockWriteOpener / BlockWriteCommitter / NodeReifier / LinkTargetNodePrototypeChooser values, LinkSystem.Load/Store, traversal Walk*) begins with a deferred recover routed through a panics.PanicHandler; " +
				"(R2) in a recovering root the handler's non-nil result becomes the traversal's completion error and the stop signal still fires on every path; " +
				"(R3) the configured panic callback reaches both managers and from there TraversalBuilder.PanicCallback and panics.MakeHandler. " +
				"Not decided: panics in hooks and listeners (not in the property's list); that every panic inside go-ipld-prime happens on the traversal goroutine (true by construction: the traverser drives it there).",
			Assumptions: append([]string{"calls through plain function values other than the listed storage types are not followed by the reachability (hooks/listeners are outside this property)", "interface calls are resolved by CHA in the quick tier and VTA in thorough"}, commonTrust...),
			Technique:   "goroutine-root reachability over the resolved call graph with defer/recover recognition; call-site wiring",
		},
		Run: runC22,
	})
}

var c22SinkTypes = []string{"BlockReadOpener", "BlockWriteOpener", "BlockWriteCommitter", "NodeReifier"}

func isStorageFuncType(t types.Type) string {
	t = types.Unalias(t)
	n, ok := t.(*types.Named)
	if !ok || n.Obj().Pkg() == nil {
		return ""
	}
	p := n.Obj().Pkg().Path()
	if strings.HasPrefix(p, "github.com/ipld/go-ipld-prime") {
		for _, s := range c22SinkTypes {
			if n.Obj().Name() == s {
				return "linking." + s
			}
		}
		if n.Obj().Name() == "LinkTargetNodePrototypeChooser" {
			return "traversal.LinkTargetNodePrototypeChooser"
		}
	}
	return ""
}

type c22Sink struct {
	fn   *ssa.Function
	pos  token.Pos
	what string
}

func c22Sinks(c *engine.Ctx) []c22Sink {
	var out []c22Sink
	for _, f := range c.P.SrcFuncs() {
		if !engine.IsShipped(engine.FuncPkgPath(f)) {
			continue
		}
		for _, ci := range engine.Calls(f) {
			if _, isGo := ci.Instr.(*ssa.Go); isGo {
				continue
			}
			cc := ci.Common
			if !cc.IsInvoke() && cc.StaticCallee() == nil {
				if s := isStorageFuncType(cc.Value.Type()); s != "" {
					out = append(out, c22Sink{f, ci.Instr.Pos(), "call through " + s})
				}
				continue
			}
			if ci.Static != nil {
				n := ci.Name()
				switch {
				case strings.HasPrefix(n, "github.com/ipld/go-ipld-prime/linking.LinkSystem.") && (strings.HasSuffix(n, ".Load") || strings.HasSuffix(n, ".Store") || strings.HasSuffix(n, ".LoadRaw") || strings.HasSuffix(n, ".Fill")):
					out = append(out, c22Sink{f, ci.Instr.Pos(), n[strings.LastIndex(n, "/")+1:]})
				case strings.HasPrefix(n, "github.com/ipld/go-ipld-prime/traversal.Progress.Walk"):
					out = append(out, c22Sink{f, ci.Instr.Pos(), n[strings.LastIndex(n, "/")+1:]})
				}
			}
		}
	}
	return out
}

// recoveringDefer: root's entry block installs a deferred function that calls recover() and
// feeds it to a panics.PanicHandler value.
func recoveringDefer(root *ssa.Function) (*ssa.Function, bool) {
	if len(root.Blocks) == 0 {
		return nil, false
	}
	for _, in := range root.Blocks[0].Instrs {
		d, ok := in.(*ssa.Defer)
		if !ok {
			// anything that can call out before the defer is installed defeats it
			if ci, isCall := in.(*ssa.Call); isCall {
				if _, isB := ci.Call.Value.(*ssa.Builtin); !isB {
					return nil, false
				}
			}
			continue
		}
		fn := resolveFuncValue(d.Call.Value)
		if fn == nil || len(engine.BuiltinCalls(fn, "recover")) == 0 {
			continue
		}
		handled := false
		for _, ci := range engine.Calls(fn) {
			if !ci.Common.IsInvoke() && ci.Common.StaticCallee() == nil && engine.IsNamed(ci.Common.Value.Type(), "~/panics", "PanicHandler") {
				if len(ci.Common.Args) == 1 {
					if rc, ok := ci.Common.Args[0].(*ssa.Call); ok {
						if b, ok := rc.Call.Value.(*ssa.Builtin); ok && b.Name() == "recover" {
							handled = true
						}
					}
				}
			}
		}
		if handled {
			return fn, true
		}
	}
	return nil, false
}

func runC22(c *engine.Ctx) {
	r1 := c.Rule("R1", "every goroutine root reaching a user storage/codec call begins with a deferred recover routed through panics.PanicHandler", 2)
	r2 := c.Rule("R2", "the recovered panic becomes the traversal's completion error and the stop signal fires on every path", 1)
	r3 := c.Rule("R3", "the configured panic callback reaches both managers, TraversalBuilder.PanicCallback and panics.MakeHandler", 3)
	r4 := c.Rule("R4", "a traversal error that is neither a cancellation nor a pause (a recovered panic included) is delivered on the request's error channel on every path", 1)
	c22ErrorDelivered(c, r4)

	g := engine.BuildRootGraph(c.P)
	sinks := c22Sinks(c)
	if len(sinks) == 0 {
		c.AnchorMissing(r1, "calls through storage function types / LinkSystem.Load / Progress.Walk* in module code")
		return
	}
	seenKey := map[string]bool{}
	recRoots := map[*ssa.Function]*ssa.Function{}
	for _, s := range sinks {
		c.Analysed(engine.FuncName(s.fn))
		roots, _ := g.RootsReaching(s.fn)
		if _, isRoot := g.GoRoots[s.fn]; isRoot {
			// the sink sits directly in a goroutine root
		}
		if len(roots) == 0 {
			// runs only on callers' goroutines (API) — outside the module's goroutines
			c.Hold(r1, "api-only|"+engine.FuncName(s.fn)+"|"+s.what, s.pos, "reached only from exported entry points on the caller's goroutine (no module goroutine runs it)")
			continue
		}
		for _, r := range roots {
			// keyed by goroutine, package and kind of user function (not by the function the call happens to sit
			// in: moving the call into a helper of the same package is the same finding)
			key := fmt.Sprintf("%s|%s|%s", engine.FuncName(r), strings.TrimPrefix(strings.TrimPrefix(engine.FuncPkgPath(s.fn), engine.Module), "/"), s.what)
			if seenKey[key] {
				continue
			}
			seenKey[key] = true
			fn, ok := recoveringDefer(r)
			if ok {
				recRoots[r] = fn
				c.Hold(r1, key, s.pos, s.what+" runs under the root's deferred recover -> PanicHandler")
				continue
			}
			path := g.Path(r, s.fn)
			c.Violate(r1, key, s.pos, fmt.Sprintf("%s in %s runs on goroutine %s, which has no deferred recover: a panic in the user-supplied function kills the process instead of failing the request (path: %s)",
				s.what, engine.FuncName(s.fn), engine.FuncName(r), strings.Join(path, " -> ")))
		}
	}

	// R2
	if len(recRoots) == 0 {
		c.Violate(r2, "recovering-root", token.NoPos, "no goroutine root recovers panics through a PanicHandler")
	}
	for root, dfn := range recRoots {
		key := engine.FuncName(root)
		// handler's result non-nil => passed to a completion function; close(stopped) on every path
		var hcall *ssa.Call
		for _, ci := range engine.Calls(dfn) {
			if engine.IsNamed(ci.Common.Value.Type(), "~/panics", "PanicHandler") {
				hcall = ci.Value()
			}
		}
		conv := false
		if hcall != nil {
			for _, ci := range engine.Calls(dfn) {
				if ci.Static == nil || ci.Value() == hcall {
					continue
				}
				for _, a := range ci.Common.Args {
					if engine.LocalValue(a) == ssa.Value(hcall) && engine.KnownNonNil(engine.InstrConds(ci.Instr), hcall) {
						// the callee stores it as the completion error
						for _, st := range allStores(ci.Static) {
							if fa, ok := st.Addr.(*ssa.FieldAddr); ok && isErrorType(engine.FieldOf(fa).Type()) {
								if p, ok := engine.Strip(st.Val).(*ssa.Parameter); ok && p == ci.Static.Params[len(ci.Static.Params)-1] {
									conv = true
								}
							}
						}
					}
				}
			}
		}
		stop, _ := engine.MustReachFromEntry(dfn, func(in ssa.Instruction) bool {
			cc, ok := in.(*ssa.Call)
			if !ok {
				return false
			}
			b, ok := cc.Call.Value.(*ssa.Builtin)
			return ok && b.Name() == "close"
		}, nil)
		c.Decide(r2, key, dfn.Pos(), conv && stop,
			"a recovered panic is recorded as the completion error and the stopped channel is closed on every path",
			fmt.Sprintf("recovered panic handling incomplete (becomes the completion error: %v, stop signal on every path: %v)", conv, stop))
	}

	// R3 wiring
	implNew := c.P.Func("impl", "", "New")
	cfg := c.P.Field("impl", "graphsyncConfigOptions", "panicCallback")
	tbCB := c.P.Field("ipldutil", "TraversalBuilder", "PanicCallback")
	if implNew == nil || cfg == nil || tbCB == nil {
		c.AnchorMissing(r3, "impl.New / graphsyncConfigOptions.panicCallback / ipldutil.TraversalBuilder.PanicCallback")
		return
	}
	optionSetterWrites(c, r3, "PanicCallback", cfg)
	for _, m := range []struct{ rel, typ string }{{"requestmanager", "RequestManager"}, {"responsemanager", "ResponseManager"}} {
		dst := c.P.Field(m.rel, m.typ, "panicCallback")
		ctor := c.P.Func(m.rel, "", "New")
		if dst == nil || ctor == nil {
			c.AnchorMissing(r3, m.rel+".New / "+m.typ+".panicCallback")
			continue
		}
		configReaches(c, r3, implNew, cfg, ctor, dst)
		// every TraversalBuilder built in this package takes the manager's callback
		n := 0
		for _, f := range c.P.FuncsIn(m.rel) {
			if engine.FuncPkgPath(f) != engine.Module+"/"+m.rel {
				continue
			}
			builds := false
			engine.Instrs(f, func(in ssa.Instruction) {
				if al, ok := in.(*ssa.Alloc); ok && engine.IsNamed(al.Type(), "~/ipldutil", "TraversalBuilder") {
					builds = true
				}
			})
			if !builds {
				continue
			}
			n++
			ok := false
			for _, st := range engine.StoresTo([]*ssa.Function{f}, tbCB) {
				if isLoadOfField(st.Val, dst) {
					ok = true
				}
			}
			c.Decide(r3, engine.FuncName(f)+"|TraversalBuilder.PanicCallback", f.Pos(), ok, "traversals are built with the manager's panic callback", "a traversal is built without the configured panic callback: recovered panics are not reported to the application")
		}
		if n == 0 {
			c.AnchorMissing(r3, "a TraversalBuilder literal in "+m.rel)
		}
	}
	// Start: MakeHandler(tb.PanicCallback) stored as the traverser's handler
	okMH := false
	for _, f := range c.P.FuncsIn("ipldutil") {
		for _, ci := range engine.Calls(f) {
			if ci.Is("~/panics.MakeHandler") && fieldReadOf(ci.Arg(0)) == tbCB {
				okMH = true
				c.Hold(r3, engine.FuncName(f)+"|MakeHandler", ci.Instr.Pos(), "the traverser's panic handler wraps the builder's callback")
			}
		}
	}
	if !okMH {
		c.Violate(r3, "ipldutil|MakeHandler", token.NoPos, "the traverser's panic handler is not built from TraversalBuilder.PanicCallback")
	}
}

func allStores(f *ssa.Function) []*ssa.Store {
	var out []*ssa.Store
	if f == nil {
		return nil
	}
	engine.Instrs(f, func(in ssa.Instruction) {
		if st, ok := in.(*ssa.Store); ok {
			out = append(out, st)
		}
	})
	return out
}

func isErrorType(t types.Type) bool {
	return types.Identical(t, types.Universe.Lookup("error").Type())
}

// c22ErrorDelivered (R4): the requestor's executor is evaluated in the finite domain with the traversal made to fail
// with an error that is neither a context cancellation nor a pause — the shape in which a recovered panic arrives.
// On every path that returns after the traversal, the select that hands the error to the request's error channel
// must have been executed (a request whose panic is swallowed looks like a clean, truncated completion).
func c22ErrorDelivered(c *engine.Ctx, rule string) {
	ex := c.P.Func("requestmanager/executor", "Executor", "ExecuteTask")
	errF := c.P.Field("requestmanager/executor", "RequestTask", "InProgressErr")
	if ex == nil || errF == nil {
		c.AnchorMissing(rule, "executor.Executor.ExecuteTask / RequestTask.InProgressErr")
		return
	}
	c.Analysed(engine.FuncName(ex))
	// the traversal step: the static call to a method of Executor whose result (or last result) is an error and
	// which is handed the request task
	var trav *ssa.Call
	for _, ci := range engine.Calls(ex) {
		if ci.Static == nil || engine.FuncPkgPath(ci.Static) != engine.Module+"/requestmanager/executor" || ci.Static.Signature.Recv() == nil {
			continue
		}
		res := ci.Static.Signature.Results()
		if res.Len() == 0 || res.At(res.Len()-1).Type().String() != "error" {
			continue
		}
		if call := ci.Value(); call != nil {
			trav = call
		}
	}
	// the delivering select
	var deliver *ssa.Select
	engine.Instrs(ex, func(in ssa.Instruction) {
		if sel, ok := in.(*ssa.Select); ok {
			for _, st := range sel.States {
				if st.Dir == types.SendOnly && fieldReadOf(st.Chan) == errF {
					deliver = sel
				}
			}
		}
	})
	if trav == nil || deliver == nil {
		c.Violate(rule, engine.FuncName(ex), ex.Pos(), "the executor no longer hands traversal errors to the request's error channel")
		return
	}
	isTravErr := func(v ssa.Value) bool {
		if v == ssa.Value(trav) && trav.Type().String() == "error" {
			return true
		}
		if e, ok := v.(*ssa.Extract); ok && e.Tuple == ssa.Value(trav) && e.Type().String() == "error" {
			return true
		}
		return false
	}
	missed := false
	var where token.Pos
	ev := &engine.Evaluator{MaxVisits: 2}
	ev.Input = func(v ssa.Value) (engine.EVal, bool) {
		if isTravErr(v) {
			return engine.EVal{K: engine.EPtr, Tok: trav}, true
		}
		// `_, isX := err.(SomeErrType)` on the traversal error (an inlined is-paused / is-cancelled test): not that type
		if e, ok := v.(*ssa.Extract); ok && e.Index == 1 {
			if ta, ok := e.Tuple.(*ssa.TypeAssert); ok && ta.CommaOk && isTravErr(engine.LocalValue(ta.X)) {
				return engine.EVal{K: engine.EBool, B: false}, true
			}
		}
		return engine.EVal{}, false
	}
	ev.Call = func(call *ssa.Call, get func(ssa.Value) engine.EVal) (engine.EVal, bool) {
		if call == trav {
			return engine.EVal{K: engine.EPtr, Tok: trav}, true // executed marker
		}
		if sc := call.Call.StaticCallee(); sc != nil && len(call.Call.Args) == 1 && isTravErr(call.Call.Args[0]) {
			if b, ok := sc.Signature.Results().At(0).Type().Underlying().(*types.Basic); ok && sc.Signature.Results().Len() == 1 && b.Kind() == types.Bool {
				return engine.EVal{K: engine.EBool, B: false}, true // neither a cancellation nor a pause
			}
		}
		return engine.EVal{}, false
	}
	ev.Observe = func(in ssa.Instruction, get func(ssa.Value) engine.EVal) {
		if r, ok := in.(*ssa.Return); ok {
			if engine.Before(trav, r) && get(deliver).K != engine.EPtr {
				missed = true
				where = r.Pos()
			}
		}
	}
	ev.Run(ex)
	if ev.Aborted {
		c.Undecided(rule, engine.FuncName(ex), ex.Pos(), "path bound exceeded while evaluating the executor")
		return
	}
	c.Decide(rule, engine.FuncName(ex), deliver.Pos(), !missed,
		"every path after a failed traversal (not cancelled, not paused) executes the select that delivers the error to the request",
		"after a traversal that failed (not cancelled, not paused) the executor can return at "+c.P.Pos(where)+" without handing the error to the request's error channel: a panic recovered in per-request code then looks like a clean completion of a truncated traversal")
}
