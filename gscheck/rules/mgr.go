package rules

import (
	"go/constant"
	"go/types"

	"golang.org/x/tools/go/ssa"

	"gscheck/engine"
)

// Facts about the two event-loop managers shared by C04, C05, C06, C21, C23, C25.

type mgrFacts struct {
	rel       string // package
	mgrType   string
	entryType string
	table     *types.Var
	state     *types.Var
	queue     *types.Var // TaskQueue field
	fns       []*ssa.Function
	states    map[string]int64 // Queued, Running, Paused, CompletingSend
}

func loadMgr(c *engine.Ctx, rule, rel string) *mgrFacts {
	m := &mgrFacts{rel: rel, states: map[string]int64{}}
	switch rel {
	case "requestmanager":
		m.mgrType, m.entryType = "RequestManager", "inProgressRequestStatus"
		m.table = c.P.Field(rel, m.mgrType, "inProgressRequestStatuses")
		m.queue = c.P.Field(rel, m.mgrType, "requestQueue")
	case "responsemanager":
		m.mgrType, m.entryType = "ResponseManager", "inProgressResponseStatus"
		m.table = c.P.Field(rel, m.mgrType, "inProgressResponses")
		m.queue = c.P.Field(rel, m.mgrType, "responseQueue")
	}
	m.state = c.P.Field(rel, m.entryType, "state")
	if m.table == nil || m.state == nil || m.queue == nil {
		c.AnchorMissing(rule, rel+"."+m.mgrType+" table/queue or "+m.entryType+".state")
		return nil
	}
	root := c.P.TypesPkg("")
	for _, n := range []string{"Queued", "Running", "Paused", "CompletingSend"} {
		k, _ := root.Scope().Lookup(n).(*types.Const)
		if k == nil {
			c.AnchorMissing(rule, "graphsync."+n)
			return nil
		}
		v, _ := constant.Int64Val(k.Val())
		m.states[n] = v
	}
	for _, f := range c.P.FuncsIn(rel) {
		if engine.FuncPkgPath(f) == engine.Module+"/"+rel {
			m.fns = append(m.fns, f)
		}
	}
	return m
}

// stateStores lists stores to the entry's state field with the constant stored ("" if not a known constant).
type stateStore struct {
	st   *ssa.Store
	name string
}

func (m *mgrFacts) stateStores() []stateStore {
	var out []stateStore
	for _, st := range engine.StoresTo(m.fns, m.state) {
		name := ""
		if k, ok := engine.ConstInt(st.Val); ok {
			for n, v := range m.states {
				if v == k {
					name = n
				}
			}
		}
		if name == "" {
			// a state chosen into a variable first: every way it comes about is one of the defined states
			allValid := true
			outs := engine.ValueOutcomes(engine.LocalValue(st.Val), st.Block())
			for _, o := range outs {
				k, ok := engine.ConstInt(o.V)
				valid := false
				if ok {
					for _, v := range m.states {
						if v == k {
							valid = true
						}
					}
				}
				if !valid {
					allValid = false
				}
			}
			if allValid && len(outs) > 1 {
				name = "(one of the defined states)"
			}
		}
		out = append(out, stateStore{st, name})
	}
	return out
}

// queueCalls lists invokes of the named TaskQueue method on the manager's queue field.
func (m *mgrFacts) queueCalls(method string) []engine.CallInfo {
	var out []engine.CallInfo
	for _, f := range m.fns {
		for _, ci := range engine.Calls(f) {
			if ci.Common.IsInvoke() && ci.Common.Method.Name() == method && isLoadOfField(ci.Common.Value, m.queue) {
				out = append(out, ci)
			}
		}
	}
	return out
}

// dispatchHandlers: the functions a public API method's message reaches on the
// event loop: API method allocates message type T and passes it to send; T.handle
// calls the handlers.
func (m *mgrFacts) dispatchHandlers(c *engine.Ctx, api *ssa.Function) []*ssa.Function {
	var out []*ssa.Function
	if api == nil {
		return nil
	}
	engine.Instrs(api, func(in ssa.Instruction) {
		al, ok := in.(*ssa.Alloc)
		if !ok {
			return
		}
		pt, ok := al.Type().(*types.Pointer)
		if !ok {
			return
		}
		nt, ok := pt.Elem().(*types.Named)
		if !ok || nt.Obj().Pkg() == nil || nt.Obj().Pkg().Path() != engine.Module+"/"+m.rel {
			return
		}
		h := c.P.Func(m.rel, nt.Obj().Name(), "handle")
		if h == nil {
			return
		}
		for _, ci := range engine.Calls(h) {
			if ci.Static != nil && engine.FuncPkgPath(ci.Static) == engine.Module+"/"+m.rel {
				out = append(out, ci.Static)
			}
		}
	})
	return out
}

// deletesEntry: f (or a same-package callee, depth 1) deletes from the table.
func (m *mgrFacts) deletesEntry(f *ssa.Function) bool {
	if len(engine.MapDeletesOfField([]*ssa.Function{f}, m.table)) > 0 {
		return true
	}
	return false
}

// isTerminateCall: a call to a same-package function that deletes from the table.
func (m *mgrFacts) isTerminateCall(in ssa.Instruction) bool {
	cc, ok := in.(*ssa.Call)
	if !ok {
		return false
	}
	sc := cc.Call.StaticCallee()
	return sc != nil && sc.Blocks != nil && m.deletesEntry(sc)
}

// absentEdge: the edge taken when a lookup in the table found nothing.
func (m *mgrFacts) absentEdge(from, to *ssa.BasicBlock) bool {
	ifi, ok := from.Instrs[len(from.Instrs)-1].(*ssa.If)
	if !ok {
		return false
	}
	conds := []struct {
		v   ssa.Value
		pol bool
	}{{ifi.Cond, true}}
	v := ifi.Cond
	pol := true
	for {
		u, ok := v.(*ssa.UnOp)
		if !ok || u.Op.String() != "!" {
			break
		}
		v, pol = u.X, !pol
	}
	_ = conds
	ex, ok := v.(*ssa.Extract)
	if !ok || ex.Index != 1 {
		return false
	}
	lk, ok := ex.Tuple.(*ssa.Lookup)
	if !ok || !isLoadOfField(lk.X, m.table) {
		return false
	}
	// edge where ok is false
	if pol {
		return from.Succs[1] == to
	}
	return from.Succs[0] == to
}
