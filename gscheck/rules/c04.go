package rules

import (
	"strings"
	"fmt"
	"go/constant"
	"go/token"
	"go/types"
	"sort"

	"golang.org/x/tools/go/ssa"

	"gscheck/engine"
)

func init() {
	register(&Property{
		Meta: engine.PropMeta{
			ID:    "C04",
			Title: "Every request's result channels terminate with the right outcome",
			Explanation: "Decides close discipline, ordering and the outcome tables, not liveness: (R1) the two result channels of an in-progress request are closed in exactly one function, once each, after the table entry has been deleted; " +
				"(R2) no send after close: in that function the traverser is shut down before the closes (the traverser's visitor is the only sender on the progress channel), and every call of it is either in the executor-release handler or dominated by state != Running (the running executor is the only other sender on the error channel); " +
				"(R3) a pending terminal error is sent before the closes; (R4) cancel protocol: the cancel handler sends a cancel request to the request's own peer before cancelling locally, the public cancel API passes the client-cancelled error, and the response collector reports client-cancelled when the caller's context ends; " +
				"(R5) failure -> error totality: over every defined status code, IsSuccess and IsFailure are disjoint and AsError is nil exactly for success codes (finite evaluation), and a failure status on a response cancels the request with that status's AsError. " +
				"Not decided: 'eventually closed' under every interleaving; absence of duplicate terminal errors.",
			Assumptions: append([]string{"handlers run one at a time on the request manager's loop goroutine"}, commonTrust...),
			Technique:   "who-may-close ownership, dominance ordering, finite-domain evaluation of the status-code predicates",
		},
		Run: runC04,
	})
}

func runC04(c *engine.Ctx) {
	r1 := c.Rule("R1", "result channels are closed in exactly one function, once each, after the table entry is deleted", 1)
	r2 := c.Rule("R2", "traverser shut down before the closes; terminate is only called from the release handler or under state != Running", 1)
	r3 := c.Rule("R3", "a pending terminal error is sent before the channels are closed", 1)
	r4 := c.Rule("R4", "cancel handler sends a cancel request to the request's peer first; cancel API passes client-cancelled; collector reports client-cancelled on context end", 2)
	r5 := c.Rule("R5", "status predicates: success/failure disjoint, AsError nil iff success (all defined codes); failure statuses cancel with Status().AsError()", 2)

	r6 := c.Rule("R6", "every terminal response status takes the request's loader offline (or tears the request down), so the executor stops waiting for remote data", 3)
	r7 := c.Rule("R7", "once a new request is handed to the run loop the caller waits for the loop's reply; only the manager's own shutdown interrupts the wait", 1)
	c04Terminal(c, r6)
	c04NewRequestWait(c, r7)
	r8 := c.Rule("R8", "the loader is taken online before the request goes out (a response arriving at once is not discarded together with its terminal status)", 1)
	c04OnlineBeforeSend(c, r8)

	m := loadMgr(c, r1, "requestmanager")
	if m == nil {
		return
	}
	chanF := c.P.Field("requestmanager", "inProgressRequestStatus", "inProgressChan")
	errF := c.P.Field("requestmanager", "inProgressRequestStatus", "inProgressErr")
	termErrF := c.P.Field("requestmanager", "inProgressRequestStatus", "terminalError")
	peerF := c.P.Field("requestmanager", "inProgressRequestStatus", "p")
	if chanF == nil || errF == nil || termErrF == nil || peerF == nil {
		c.AnchorMissing(r1, "inProgressRequestStatus{inProgressChan,inProgressErr,terminalError,p}")
		return
	}
	// R1
	closers := map[*ssa.Function][]*ssa.Call{}
	for _, f := range c.P.SrcFuncs() {
		if !engine.IsShipped(engine.FuncPkgPath(f)) {
			continue
		}
		for _, cl := range engine.BuiltinCalls(f, "close") {
			fl := fieldReadOf(cl.Call.Args[0])
			if fl == chanF || fl == errF {
				closers[f] = append(closers[f], cl)
			}
		}
	}
	if len(closers) == 0 {
		c.AnchorMissing(r1, "a close of the request's result channels")
		return
	}
	var term *ssa.Function
	for f, cls := range closers {
		term = f
		c.Analysed(engine.FuncName(f))
		seen := map[*types.Var]int{}
		for _, cl := range cls {
			seen[fieldReadOf(cl.Call.Args[0])]++
		}
		once := seen[chanF] == 1 && seen[errF] == 1
		dels := engine.MapDeletesOfField([]*ssa.Function{f}, m.table)
		delFirst := len(dels) > 0
		for _, cl := range cls {
			if len(dels) == 0 || !engine.Before(dels[0], cl) {
				delFirst = false
			}
			if inLoop(cl.Block()) {
				once = false
			}
		}
		c.Decide(r1, engine.FuncName(f)+"|close-once-after-delete", cls[0].Pos(), once && delFirst && len(closers) == 1,
			"both channels closed once each, in the single terminate function, after the entry left the table",
			fmt.Sprintf("close discipline broken (each channel once: %v, entry deleted first: %v, closing functions: %d): a channel can be closed twice or while the request is still addressable", once, delFirst, len(closers)))
	}
	if len(closers) != 1 {
		return
	}
	cls := closers[term]
	// R2a shutdown before closes
	var shut ssa.Instruction
	for _, ci := range engine.Calls(term) {
		if ci.Common.IsInvoke() && ci.Common.Method.Name() == "Shutdown" && engine.IsNamed(ci.Common.Value.Type(), "~/ipldutil", "Traverser") {
			shut = ci.Instr
		}
	}
	okShut := shut != nil
	if shut != nil {
		// on every path to a close on which a traverser exists: the shutdown is under `traverser != nil`;
		// require that no close is reachable from the traverser != nil edge without passing Shutdown
		for _, cd := range engine.InstrConds(shut) {
			if cd.If != nil {
				start := cd.If.Block().Succs[0]
				if !cd.Pol {
					start = cd.If.Block().Succs[1]
				}
				for _, cl := range cls {
					target := ssa.Instruction(cl)
					if r, _ := engine.CanReachFromBlock(start, func(in ssa.Instruction) bool { return in == target }, func(in ssa.Instruction) bool { return in == shut }); r {
						okShut = false
					}
				}
			}
		}
		for _, cl := range cls {
			if r, _ := engine.CanReach(cl, func(in ssa.Instruction) bool { return in == shut }, nil); r {
				okShut = false
			}
		}
	}
	c.Decide(r2, engine.FuncName(term)+"|shutdown-before-close", cls[0].Pos(), okShut,
		"the traverser (only sender on the progress channel) is shut down before the channels are closed",
		"the result channels can be closed while the traverser is still running: its visitor then sends on a closed channel")
	// R2b call sites
	release := map[*ssa.Function]bool{}
	for _, td := range m.queueCalls("TaskDone") {
		h := td.Instr.Parent()
		if ok, _ := engine.MustReachFromEntry(h, func(in ssa.Instruction) bool { return in == td.Instr }, nil); ok {
			release[h] = true
		}
	}
	for _, f := range m.fns {
		for _, ci := range engine.Calls(f) {
			if ci.Static != term {
				continue
			}
			key := engine.FuncName(f) + "|terminate-site"
			if release[f] {
				c.Hold(r2, key, ci.Instr.Pos(), "called from the executor-release handler: the executor has returned")
				continue
			}
			notRunning := false
			for _, cd := range engine.InstrConds(ci.Instr) {
				if e, ok := cd.AsEq(); ok && !e.Equal && fieldReadOf(e.X) == m.state {
					if k, ok := engine.ConstInt(e.Y); ok && k == m.states["Running"] {
						notRunning = true
					}
				}
			}
			c.Decide(r2, key, ci.Instr.Pos(), notRunning, "terminate is called only when the request is not Running (no executor can be sending on the error channel)",
				"the request is terminated (channels closed) while its executor may be running: the executor then sends on a closed channel")
		}
	}
	// R2c: the guard relies on state == Running meaning "an executor holds this request": Running is written only where the task is handed to the executor
	emptyF := taskEmptyField(c, "requestmanager")
	for _, s := range m.stateStores() {
		if s.name != "Running" {
			continue
		}
		f := s.st.Parent()
		hands := false
		if f.Signature.Results().Len() == 1 && emptyF != nil {
			if st, ok := f.Signature.Results().At(0).Type().Underlying().(*types.Struct); ok {
				for i := 0; i < st.NumFields(); i++ {
					if st.Field(i) == emptyF {
						hands = true
					}
				}
			}
		}
		c.Decide(r2, engine.FuncName(f)+"|Running-means-executing", s.st.Pos(), hands,
			"Running is recorded only where the request's task is handed to an executor",
			"the request is marked Running where no executor takes it: a cancel arriving then waits for an executor that is not running, and the result channels are never closed")
	}

	// R3
	var termSend ssa.Instruction
	engine.Instrs(term, func(in ssa.Instruction) {
		if sel, ok := in.(*ssa.Select); ok {
			for _, st := range sel.States {
				if st.Dir == types.SendOnly && fieldReadOf(st.Chan) == errF && fieldReadOf(st.Send) == termErrF {
					termSend = in
				}
			}
		}
		if s, ok := in.(*ssa.Send); ok && fieldReadOf(s.Chan) == errF && fieldReadOf(s.X) == termErrF {
			termSend = in
		}
	})
	okTE := termSend != nil
	if termSend != nil {
		for _, cl := range cls {
			// the send is conditional (terminalError != nil) so it does not dominate; require: no path from a close back to it, and it precedes
			if r, _ := engine.CanReach(cl, func(in ssa.Instruction) bool { return in == termSend }, nil); r {
				okTE = false
			}
			if r, _ := engine.CanReach(termSend, func(in ssa.Instruction) bool { return in == ssa.Instruction(cl) }, nil); !r {
				okTE = false
			}
		}
		guard := false
		for _, cd := range engine.InstrConds(termSend) {
			if e, ok := cd.AsEq(); ok && !e.Equal && fieldReadOf(e.X) == termErrF && engine.IsNilConst(e.Y) {
				guard = true
			}
		}
		okTE = okTE && guard
	}
	c.Decide(r3, engine.FuncName(term)+"|terminal-error-first", term.Pos(), okTE, "a non-nil terminal error is sent on the error channel before the channels are closed",
		"the terminal error is not delivered before the channels are closed: the caller sees the channels close without the reason")

	// R4 cancel handler
	cancelReqT := c.P.NamedType("requestmanager", "cancelRequestMessage")
	clientErrT := c.P.NamedType("", "RequestClientCancelledErr")
	if cancelReqT == nil || clientErrT == nil {
		c.AnchorMissing(r4, "requestmanager.cancelRequestMessage / graphsync.RequestClientCancelledErr")
	} else {
		h := c.P.Func("requestmanager", "cancelRequestMessage", "handle")
		var handler *ssa.Function
		if h != nil {
			for _, ci := range engine.Calls(h) {
				if ci.Static != nil && engine.FuncPkgPath(ci.Static) == engine.Module+"/requestmanager" {
					handler = ci.Static
				}
			}
		}
		if handler == nil {
			c.AnchorMissing(r4, "the cancel message's loop handler")
		} else {
			c.Analysed(engine.FuncName(handler))
			// the local-cancel step: call passing the entry and the terminal error onwards
			var local, send ssa.Instruction
			for _, ci := range engine.Calls(handler) {
				if ci.Static != nil && engine.FuncPkgPath(ci.Static) == engine.Module+"/requestmanager" && reachesStatic(ci.Static, term, 2) {
					local = ci.Instr
				}
				if ci.Static != nil && ci.Static.Name() == "SendRequest" {
					okPeer := fieldReadOf(ci.Arg(0)) == peerF
					okMsg := false
					if call, ok := engine.LocalValue(ci.Arg(1)).(*ssa.Call); ok && engine.Resolve(call).Is("~/message.NewCancelRequest") {
						okMsg = true
					}
					if okPeer && okMsg {
						send = ci.Instr
					}
				}
			}
			c.Decide(r4, engine.FuncName(handler)+"|cancel-message-first", handler.Pos(), local != nil && send != nil && engine.Before(send, local),
				"a cancel request for this ID is sent to the request's own peer before the request is cancelled locally",
				"cancelling a request does not first send a cancel message to the peer the request was sent to: the responder keeps serving it")
		}
		// public API passes client-cancelled
		api := c.P.Func("requestmanager", "RequestManager", "CancelRequest")
		okAPI := false
		if api != nil {
			tf := c.P.Field("requestmanager", "cancelRequestMessage", "terminalError")
			for _, st := range engine.StoresTo([]*ssa.Function{api}, tf) {
				if types.Identical(engine.LocalValue(st.Val).Type(), clientErrT) {
					okAPI = true
				}
			}
		}
		c.Decide(r4, "CancelRequest|client-cancelled", posOf(api), okAPI, "the cancel API terminates the request with RequestClientCancelledErr", "the cancel API does not pass RequestClientCancelledErr as the terminal error")
		// collector
		okColl := false
		var collPos token.Pos
		for _, f := range m.fns {
			engine.Instrs(f, func(in ssa.Instruction) {
				sel, ok := in.(*ssa.Select)
				if !ok {
					return
				}
				for _, st := range sel.States {
					if st.Dir == types.SendOnly && st.Send != nil && types.Identical(engine.LocalValue(st.Send).Type(), clientErrT) {
						// dominated by the requestCtx.Done() case of an enclosing select
						for _, cd := range engine.InstrConds(in) {
							if bo, ok := cd.V.(*ssa.BinOp); ok {
								if e, ok := bo.X.(*ssa.Extract); ok {
									if outer, ok := e.Tuple.(*ssa.Select); ok && outer != sel {
										okColl = true
										collPos = in.Pos()
									}
								}
							}
						}
					}
				}
			})
		}
		c.Decide(r4, "collector|client-cancelled-on-context-end", collPos, okColl, "when the caller's context ends the collector reports RequestClientCancelledErr on the returned error channel", "the response collector no longer reports client-cancelled when the caller's context ends")
	}

	// R5 finite evaluation over all defined status codes
	codeT := c.P.NamedType("", "ResponseStatusCode")
	isS := c.P.Func("", "ResponseStatusCode", "IsSuccess")
	isF := c.P.Func("", "ResponseStatusCode", "IsFailure")
	asE := c.P.Func("", "ResponseStatusCode", "AsError")
	if codeT == nil || isS == nil || isF == nil || asE == nil {
		c.AnchorMissing(r5, "graphsync.ResponseStatusCode predicates")
		return
	}
	var codes []int64
	names := map[int64]string{}
	sc := c.P.TypesPkg("").Scope()
	for _, n := range sc.Names() {
		if k, ok := sc.Lookup(n).(*types.Const); ok && types.Identical(k.Type(), codeT) {
			v, _ := constant.Int64Val(k.Val())
			codes = append(codes, v)
			names[v] = n
		}
	}
	sort.Slice(codes, func(i, j int) bool { return codes[i] < codes[j] })
	bad := ""
	nFail := 0
	for _, code := range codes {
		arg := []engine.EVal{{K: engine.EInt, I: code}}
		s := engine.EvalPure(isS, arg, 0)
		f := engine.EvalPure(isF, arg, 0)
		e := engine.EvalPure(asE, arg, 0)
		if len(s) != 1 || len(f) != 1 || s[0].K != engine.EBool || f[0].K != engine.EBool || len(e) != 1 || (e[0].K != engine.ENil && e[0].K != engine.EPtr) {
			bad = fmt.Sprintf("cannot evaluate the predicates for %s", names[code])
			break
		}
		if s[0].B && f[0].B {
			bad = fmt.Sprintf("%s is both success and failure", names[code])
		}
		if (e[0].K == engine.ENil) != s[0].B {
			bad = fmt.Sprintf("AsError(%s) is nil: %v but IsSuccess is %v", names[code], e[0].K == engine.ENil, s[0].B)
		}
		if f[0].B {
			nFail++
		}
	}
	// writer/reader agreement: every status the responder terminates a request with is a failure (resp. terminal) for the requestor
	for _, f := range c.P.SrcFuncs() {
		if !engine.IsShipped(engine.FuncPkgPath(f)) {
			continue
		}
		for _, ci := range engine.Calls(f) {
			if !ci.Common.IsInvoke() || ci.Common.Method.Name() != "FinishWithError" {
				continue
			}
			k, ok := engine.ConstInt(ci.Common.Args[0])
			if !ok {
				continue // forwarded parameter
			}
			arg := []engine.EVal{{K: engine.EInt, I: k}}
			fv := engine.EvalPure(isF, arg, 0)
			ev := engine.EvalPure(asE, arg, 0)
			if len(fv) != 1 || fv[0].K != engine.EBool || !fv[0].B || len(ev) != 1 || ev[0].K != engine.EPtr {
				bad = fmt.Sprintf("the responder terminates requests with %s (in %s) but the requestor does not treat it as a failure with an error", names[k], engine.FuncName(f))
			}
		}
	}
	c.Decide(r5, "status-predicates", asE.Pos(), bad == "" && nFail >= 5, fmt.Sprintf("over %d defined codes: success/failure disjoint, %d failure codes, AsError nil exactly for success codes", len(codes), nFail), bad)
	// failure -> cancel with AsError of the same response
	okCancel := false
	var at token.Pos
	for _, f := range m.fns {
		for _, ci := range engine.Calls(f) {
			if ci.Static == nil || !reachesStatic(ci.Static, term, 1) || ci.Static == term {
				continue
			}
			// argument: Status().AsError(); dominated by Status().IsFailure()
			var asErrCall *ssa.Call
			for _, a := range ci.Common.Args {
				if call, ok := engine.LocalValue(a).(*ssa.Call); ok && call.Call.StaticCallee() == asE {
					asErrCall = call
				}
			}
			if asErrCall == nil {
				continue
			}
			at = ci.Instr.Pos()
			underFailure := false
			for _, cd := range engine.InstrConds(ci.Instr) {
				if call, ok := cd.V.(*ssa.Call); ok && cd.Pol && call.Call.StaticCallee() == isF {
					// same response: both receivers are Status() of the same value
					if sameStatusSource(call.Call.Args[0], asErrCall.Call.Args[0]) {
						underFailure = true
					}
				}
			}
			if underFailure {
				okCancel = true
			}
		}
	}
	c.Decide(r5, "failure-status=>terminal-error", at, okCancel, "a response with a failure status cancels the request with that status's AsError()", "a failure status no longer cancels the request with the error for that same status")
}

func posOf(f *ssa.Function) token.Pos {
	if f == nil {
		return token.NoPos
	}
	return f.Pos()
}

// sameStatusSource: both values are x.Status() for the same x.
func sameStatusSource(a, b ssa.Value) bool {
	ca, ok1 := engine.LocalValue(a).(*ssa.Call)
	cb, ok2 := engine.LocalValue(b).(*ssa.Call)
	if !ok1 || !ok2 || ca.Call.StaticCallee() == nil || ca.Call.StaticCallee() != cb.Call.StaticCallee() {
		return false
	}
	return len(ca.Call.Args) > 0 && len(cb.Call.Args) > 0 && engine.SameValue(ca.Call.Args[0], cb.Call.Args[0])
}

// c04Terminal (R6): for every defined status code that IsTerminal, the handler of incoming terminal statuses has a
// path that takes the loader offline or terminates the request.  The handler is evaluated in the finite domain with
// response.Status() fixed to the code (status predicates evaluated on that code, everything else unknown).
func c04Terminal(c *engine.Ctx, rule string) {
	codeT := c.P.NamedType("", "ResponseStatusCode")
	isT := c.P.Func("", "ResponseStatusCode", "IsTerminal")
	term := c.P.Func("requestmanager", "RequestManager", "terminateRequest")
	if codeT == nil || isT == nil || term == nil {
		c.AnchorMissing(rule, "graphsync.ResponseStatusCode.IsTerminal / requestmanager.terminateRequest")
		return
	}
	isOffline := func(in ssa.Instruction) bool {
		cc, ok := in.(*ssa.Call)
		if !ok {
			return false
		}
		name := ""
		if cc.Call.IsInvoke() {
			name = cc.Call.Method.Name()
		} else if sc := cc.Call.StaticCallee(); sc != nil {
			name = sc.Name()
		}
		if name != "SetRemoteOnline" {
			return false
		}
		b, ok := engine.ConstBool(cc.Call.Args[len(cc.Call.Args)-1])
		return ok && !b
	}
	// the handler: the requestmanager function that calls SetRemoteOnline(false) under a test of the response's status
	var handlers []*ssa.Function
	for _, f := range c.P.FuncsIn("requestmanager") {
		if engine.FuncPkgPath(f) != engine.Module+"/requestmanager" {
			continue
		}
		hasOff, hasStatus := false, false
		engine.Instrs(f, func(in ssa.Instruction) {
			if isOffline(in) {
				hasOff = true
			}
			if cc, ok := in.(*ssa.Call); ok {
				if sc := cc.Call.StaticCallee(); sc != nil && sc.Name() == "Status" && strings.HasSuffix(engine.FuncPkgPath(sc), "/message") {
					hasStatus = true
				}
			}
		})
		if hasOff && hasStatus {
			handlers = append(handlers, f)
		}
	}
	if len(handlers) == 0 {
		c.AnchorMissing(rule, "a requestmanager function that takes the loader offline according to the response's status")
		return
	}
	var codes []int64
	names := map[int64]string{}
	sc := c.P.TypesPkg("").Scope()
	for _, n := range sc.Names() {
		if k, ok := sc.Lookup(n).(*types.Const); ok && types.Identical(k.Type(), codeT) {
			v, _ := constant.Int64Val(k.Val())
			codes = append(codes, v)
			names[v] = n
		}
	}
	sort.Slice(codes, func(i, j int) bool { return codes[i] < codes[j] })
	liftedOff := engine.LiftMay(func(in ssa.Instruction) bool {
		if isOffline(in) {
			return true
		}
		cc, ok := in.(*ssa.Call)
		return ok && cc.Call.StaticCallee() == term
	})
	for _, f := range handlers {
		c.Analysed(engine.FuncName(f))
		for _, code := range codes {
			tv := engine.EvalPure(isT, []engine.EVal{{K: engine.EInt, I: code}}, 0)
			if len(tv) != 1 || tv[0].K != engine.EBool {
				c.Undecided(rule, engine.FuncName(f)+"|"+names[code], f.Pos(), "cannot evaluate IsTerminal for "+names[code])
				continue
			}
			if !tv[0].B {
				continue
			}
			reached := false
			ev := &engine.Evaluator{MaxVisits: 2}
			ev.Input = func(v ssa.Value) (engine.EVal, bool) {
				if cc, ok := v.(*ssa.Call); ok {
					if sc := cc.Call.StaticCallee(); sc != nil && sc.Name() == "Status" && strings.HasSuffix(engine.FuncPkgPath(sc), "/message") {
						return engine.EVal{K: engine.EInt, I: code}, true
					}
				}
				return engine.EVal{}, false
			}
			ev.Call = func(call *ssa.Call, get func(ssa.Value) engine.EVal) (engine.EVal, bool) {
				sc := call.Call.StaticCallee()
				if sc == nil || sc.Blocks == nil || len(call.Call.Args) != 1 {
					return engine.EVal{}, false
				}
				if rt := sc.Signature.Recv(); rt == nil || !types.Identical(rt.Type(), codeT) {
					return engine.EVal{}, false
				}
				a := get(call.Call.Args[0])
				if a.K != engine.EInt {
					return engine.EVal{}, false
				}
				rs := engine.EvalPure(sc, []engine.EVal{a}, 0)
				if len(rs) == 1 {
					return rs[0], true
				}
				return engine.EVal{}, false
			}
			ev.Observe = func(in ssa.Instruction, get func(ssa.Value) engine.EVal) {
				if liftedOff(in) {
					reached = true
				}
			}
			ev.Run(f)
			if ev.Aborted {
				c.Undecided(rule, engine.FuncName(f)+"|"+names[code], f.Pos(), "path bound exceeded while evaluating the terminal-status handler")
				continue
			}
			c.Decide(rule, engine.FuncName(f)+"|"+names[code], f.Pos(), reached,
				"a response carrying "+names[code]+" takes the request's loader offline (or terminates the request)",
				"a response carrying the terminal status "+names[code]+" leaves the request's loader online: if the responder sent less than the traversal needs, the executor waits for remote data forever and the result channels never close")
		}
	}
}

// c04NewRequestWait (R7): the select in which NewRequest awaits the run loop's reply has no way out other than the
// reply itself and the manager's own context.  (If the caller's context could end the wait, a request the loop has
// already registered would run with nobody collecting its results, sending cancels or reporting the cancellation.)
func c04NewRequestWait(c *engine.Ctx, rule string) {
	f := c.P.Func("requestmanager", "RequestManager", "NewRequest")
	ctxF := c.P.Field("requestmanager", "RequestManager", "ctx")
	if f == nil || ctxF == nil {
		c.AnchorMissing(rule, "requestmanager.RequestManager.NewRequest / RequestManager.ctx")
		return
	}
	c.Analysed(engine.FuncName(f))
	n := 0
	engine.Instrs(f, func(in ssa.Instruction) {
		sel, ok := in.(*ssa.Select)
		if !ok {
			return
		}
		// the reply: a receive from a channel made in this function
		reply := -1
		for i, st := range sel.States {
			if st.Dir == types.RecvOnly {
				if _, isMk := engine.LocalValue(st.Chan).(*ssa.MakeChan); isMk {
					reply = i
				}
			}
		}
		if reply < 0 {
			return
		}
		n++
		bad := ""
		if !sel.Blocking {
			bad = "the wait for the run loop's reply has a default case"
		}
		for i, st := range sel.States {
			if i == reply {
				continue
			}
			okCase := false
			if st.Dir == types.RecvOnly {
				if call, isCall := engine.LocalValue(st.Chan).(*ssa.Call); isCall && call.Call.IsInvoke() && call.Call.Method.Name() == "Done" {
					if fl, _ := engine.LoadedField(call.Call.Value); fl == ctxF {
						okCase = true
					}
				}
			}
			if !okCase {
				bad = "the wait for the run loop's reply can be abandoned by something other than the manager's own shutdown (e.g. the caller's context): the loop has already registered the request, which then runs with nobody collecting its results or cancelling it"
			}
		}
		c.Decide(rule, engine.FuncName(f)+"|awaits-reply", sel.Pos(), bad == "", "the caller waits for the run loop's reply; only rm.ctx.Done() interrupts", bad)
	})
	if n == 0 {
		c.AnchorMissing(rule, "the select in NewRequest that receives the run loop's reply")
	}
}

// c04OnlineBeforeSend (R8): responses are ingested, and a terminal status takes the loader offline, only while the
// loader is online.  If the request is sent first, a response processed before the executor goes online is dropped
// with its terminal status, and the executor then waits for remote data forever: the channels never close.
func c04OnlineBeforeSend(c *engine.Ctx, rule string) {
	ex := "requestmanager/executor"
	reqF := c.P.Field(ex, "RequestTask", "Request")
	if reqF == nil {
		c.AnchorMissing(rule, "executor.RequestTask.Request")
		return
	}
	var starter *ssa.Function
	for _, f := range c.P.FuncsIn(ex) {
		for _, ci := range engine.Calls(f) {
			if ci.Common.IsInvoke() && ci.Common.Method.Name() == "SendRequest" && derivesFromField(ci.Common.Args[1], reqF, 6) {
				starter = f
			}
		}
	}
	if starter == nil {
		c.AnchorMissing(rule, "the SendRequest call that sends the task's own request")
		return
	}
	n := 0
	for _, f := range c.P.FuncsIn(ex) {
		for _, ci := range engine.Calls(f) {
			if ci.Static != starter {
				continue
			}
			n++
			online := false
			for _, cj := range engine.Calls(f) {
				if cj.Common.IsInvoke() && cj.Common.Method.Name() == "SetRemoteOnline" {
					if b, ok := engine.ConstBool(cj.Common.Args[0]); ok && b && engine.Before(cj.Instr, ci.Instr) {
						online = true
					}
				}
			}
			c.Decide(rule, engine.FuncName(f)+"|online-before-send", ci.Instr.Pos(), online,
				"SetRemoteOnline(true) precedes the sending of the request",
				"the request is sent before the loader is taken online: a response (and its terminal status) processed in between is discarded, and the executor then waits for remote data that will never come — the result channels never close")
		}
	}
	if n == 0 {
		c.AnchorMissing(rule, "a call of the function that sends the task's request")
	}
}
