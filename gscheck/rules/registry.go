// Package rules holds one rule table per property (cNN.go).
package rules

import (
	"sort"

	"gscheck/engine"
)

// Property couples a property's metadata with its rule table.
type Property struct {
	Meta engine.PropMeta
	Run  func(c *engine.Ctx)
}

var table = map[string]*Property{}

func register(p *Property) { table[p.Meta.ID] = p }

// Get returns the property's rule table.
func Get(id string) *Property { return table[id] }

// IDs lists the registered property ids.
func IDs() []string {
	var out []string
	for k := range table {
		out = append(out, k)
	}
	sort.Strings(out)
	return out
}

var commonTrust = []string{
	"Go type checker and golang.org/x/tools v0.29.0 go/packages + go/ssa construction",
	"the analysed tree is /repo's working tree, non-test files, default build tags (linux/amd64)",
}
