package rules

import (
	"fmt"
	"go/token"
	"go/types"

	"golang.org/x/tools/go/ssa"

	"gscheck/engine"
)

func init() {
	register(&Property{
		Meta: engine.PropMeta{
			ID:    "C13",
			Title: "Allocator never exceeds its limits and accounts memory exactly",
			Explanation: "Decides that every mutation site of the allocator's counters is guarded and paired: (R1) every increase of the global or a per-peer counter is dominated by both limit tests (total+amount <= max total, peer+amount <= max per peer) on the same amount; " +
				"(R2) every grant and every release changes the global and the peer counter in the same function, by the same amount; (R3) every decrease is dominated by counter >= amount (or assigns zero on the other branch), and the amount applied to the global counter is the clamped one; " +
				"(R4) releasing a peer subtracts its total from the global counter and removes it from both the map and the heap; (R5) every access to the counters, the peer map, the heap and the per-peer fields holds the allocator lock; (R6) the peer map and the heap change together. " +
				"Not decided: the numeric invariants over all operation sequences (a model-checking job); uint64 overflow of the sums.",
			Assumptions: append([]string{"the heap comparator runs only inside heap operations (go-ipfs-pq), all of which are checked to run under the lock"}, commonTrust...),
			Technique:   "guard dominance and same-value provenance on SSA stores; lock-set analysis with caller summaries",
		},
		Run: runC13,
	})
}

type allocFacts struct {
	total, maxTotal, maxPeer, peerTotal, pending, lk, statuses, heap *types.Var
	fns                                                                []*ssa.Function
}

func loadAlloc(c *engine.Ctx, rule string) *allocFacts {
	a := &allocFacts{
		total:     c.P.Field("allocator", "Allocator", "totalAllocatedAllPeers"),
		maxTotal:  c.P.Field("allocator", "Allocator", "maxAllowedAllocatedTotal"),
		maxPeer:   c.P.Field("allocator", "Allocator", "maxAllowedAllocatedPerPeer"),
		lk:        c.P.Field("allocator", "Allocator", "allocLk"),
		statuses:  c.P.Field("allocator", "Allocator", "peerStatuses"),
		heap:      c.P.Field("allocator", "Allocator", "peerStatusQueue"),
		peerTotal: c.P.Field("allocator", "peerStatus", "totalAllocated"),
		pending:   c.P.Field("allocator", "peerStatus", "pendingAllocations"),
	}
	for _, f := range []*types.Var{a.total, a.maxTotal, a.maxPeer, a.lk, a.statuses, a.heap, a.peerTotal, a.pending} {
		if f == nil {
			c.AnchorMissing(rule, "allocator.Allocator / allocator.peerStatus fields")
			return nil
		}
	}
	a.fns = c.P.FuncsIn("allocator")
	return a
}

// counterChange classifies a store to a counter field.
type counterChange struct {
	st     *ssa.Store
	field  *types.Var
	kind   string // "inc", "dec", "zero", "other"
	amount ssa.Value
}

func (a *allocFacts) changes(f *ssa.Function) []counterChange {
	var out []counterChange
	for _, fld := range []*types.Var{a.total, a.peerTotal} {
		for _, st := range engine.StoresTo([]*ssa.Function{f}, fld) {
			if _, isAlloc := st.Addr.(*ssa.FieldAddr).X.(*ssa.Alloc); isAlloc {
				continue // constructor literal
			}
			ch := counterChange{st: st, field: fld, kind: "other"}
			if b, ok := st.Val.(*ssa.BinOp); ok && (b.Op == token.ADD || b.Op == token.SUB) {
				switch {
				case isLoadOfField(b.X, fld):
					ch.amount = b.Y
				case b.Op == token.ADD && isLoadOfField(b.Y, fld):
					ch.amount = b.X
				}
				if ch.amount != nil {
					if b.Op == token.ADD {
						ch.kind = "inc"
					} else {
						ch.kind = "dec"
					}
				}
			} else if k, ok := engine.ConstInt(st.Val); ok && k == 0 {
				ch.kind = "zero"
			}
			out = append(out, ch)
		}
	}
	return out
}

// limitGuard: conds establish  load(counter)+amount <= load(max).
func limitGuard(conds []engine.Cond, counter, max *types.Var, amount ssa.Value) bool {
	for _, cd := range conds {
		b, ok := cd.V.(*ssa.BinOp)
		if !ok {
			continue
		}
		var sum, lim ssa.Value
		switch {
		case b.Op == token.LEQ && cd.Pol, b.Op == token.GTR && !cd.Pol:
			sum, lim = b.X, b.Y
		case b.Op == token.GEQ && cd.Pol, b.Op == token.LSS && !cd.Pol:
			sum, lim = b.Y, b.X
		default:
			continue
		}
		if !isLoadOfField(lim, max) {
			continue
		}
		s, ok := sum.(*ssa.BinOp)
		if !ok || s.Op != token.ADD {
			continue
		}
		if (isLoadOfField(s.X, counter) && engine.SameValue(cd.R(s.Y), amount)) || (isLoadOfField(s.Y, counter) && engine.SameValue(cd.R(s.X), amount)) {
			return true
		}
	}
	return false
}

func runC13(c *engine.Ctx) {
	r1 := c.Rule("R1", "every counter increase is dominated by both limit tests on the same amount", 2)
	r2 := c.Rule("R2", "global and per-peer counters change together, by the same amount", 1)
	r3 := c.Rule("R3", "every decrease is clamped (counter >= amount, else zero); the global counter is reduced by the clamped amount", 2)
	r4 := c.Rule("R4", "peer release subtracts the peer's total from the global total and removes the peer from map and heap", 1)
	r5 := c.Rule("R5", "every access to allocator state holds allocLk", 8)
	r7 := c.Rule("R7", "the pending total reported by Stats is the sum over the pending lists, or a counter updated wherever pending allocations are added or dropped", 1)
	c13PendingTotal(c, r7)
	r8 := c.Rule("R8", "the configured limits are the limits enforced: each option stores its argument, nothing else rewrites it, and it reaches the allocator's own limit field", 4)
	c13LimitWiring(c, r8)
	a := loadAlloc(c, r1)
	if a == nil {
		return
	}
	for _, f := range a.fns {
		chs := a.changes(f)
		if len(chs) == 0 {
			continue
		}
		c.Analysed(engine.FuncName(f))
		var incs, decs []counterChange
		for _, ch := range chs {
			key := fmt.Sprintf("%s|%s %s", engine.FuncName(f), ch.kind, ch.field.Name())
			switch ch.kind {
			case "inc":
				incs = append(incs, ch)
				conds := engine.InstrConds(ch.st)
				g := limitGuard(conds, a.total, a.maxTotal, ch.amount)
				p := limitGuard(conds, a.peerTotal, a.maxPeer, ch.amount)
				c.Decide(r1, key, ch.st.Pos(), g && p, "dominated by total+amount <= max total and peer+amount <= max per peer, same amount",
					fmt.Sprintf("memory is granted without a dominating limit test on the same amount (total limit tested: %v, per-peer limit tested: %v)", g, p))
			case "dec":
				decs = append(decs, ch)
				ok := false
				for _, cd := range engine.InstrConds(ch.st) {
					b, isB := cd.V.(*ssa.BinOp)
					if !isB {
						continue
					}
					if ((b.Op == token.GEQ && cd.Pol) || (b.Op == token.LSS && !cd.Pol)) && isLoadOfField(b.X, ch.field) && engine.SameValue(b.Y, ch.amount) {
						ok = true
					}
					if ((b.Op == token.LEQ && cd.Pol) || (b.Op == token.GTR && !cd.Pol)) && isLoadOfField(b.Y, ch.field) && engine.SameValue(b.X, ch.amount) {
						ok = true
					}
				}
				c.Decide(r3, key, ch.st.Pos(), ok, "decrease dominated by counter >= amount", "a counter is decreased without a dominating counter >= amount test: it can wrap below zero")
			case "zero":
				// allowed only as the clamp branch: dominated by counter < amount
				ok := false
				for _, cd := range engine.InstrConds(ch.st) {
					if b, isB := cd.V.(*ssa.BinOp); isB && isLoadOfField(b.X, ch.field) && ((b.Op == token.GEQ && !cd.Pol) || (b.Op == token.LSS && cd.Pol)) {
						ok = true
					}
					// the same test written the other way round: amount <= counter is false / amount > counter is true
					if b, isB := cd.V.(*ssa.BinOp); isB && isLoadOfField(b.Y, ch.field) && ((b.Op == token.LEQ && !cd.Pol) || (b.Op == token.GTR && cd.Pol)) {
						ok = true
					}
				}
				c.Decide(r3, key, ch.st.Pos(), ok, "zeroed only on the counter < amount branch (clamp)", "a counter is reset to zero outside the clamp branch")
			default:
				c.Violate(r2, key, ch.st.Pos(), "a counter is assigned a value that is neither counter±amount nor the clamp's zero")
			}
		}
		// R2 pairing
		pair := func(list []counterChange, what string) {
			var g, p []counterChange
			for _, ch := range list {
				if ch.field == a.total {
					g = append(g, ch)
				} else {
					p = append(p, ch)
				}
			}
			if len(g) == 0 && len(p) == 0 {
				return
			}
			key := fmt.Sprintf("%s|%s-pair", engine.FuncName(f), what)
			if len(g) != len(p) {
				// a peer release decreases only the global counter (the peer record is dropped): handled by R4
				if what == "dec" && len(p) == 0 && deletesFromMap(f, a.statuses) {
					return
				}
				c.Violate(r2, key, f.Pos(), fmt.Sprintf("%d %s of the global counter but %d of the per-peer counter in the same function: the totals diverge", len(g), what, len(p)))
				return
			}
			ok := true
			why := ""
			for i := range g {
				if !sameAmount(g[i].amount, p[i].amount, a) {
					ok = false
					why = fmt.Sprintf("global counter changes by %s but the peer counter by %s", engine.Path(g[i].amount), engine.Path(p[i].amount))
				}
			}
			c.Decide(r2, key, g[0].st.Pos(), ok, "global and peer counter change by the same amount", why)
		}
		pair(incs, "inc")
		pair(decs, "dec")
	}

	// R3b: in the block-release function the global amount is the clamped one
	for _, f := range a.fns {
		var gdec, pdec *counterChange
		for _, ch := range a.changes(f) {
			ch := ch
			if ch.kind == "dec" && ch.field == a.total {
				gdec = &ch
			}
			if ch.kind == "dec" && ch.field == a.peerTotal {
				pdec = &ch
			}
		}
		if gdec == nil || pdec == nil {
			continue
		}
		key := engine.FuncName(f) + "|clamped-amount"
		ph, isPhi := gdec.amount.(*ssa.Phi)
		ok := false
		why := "the global counter is reduced by the requested amount even when the peer held less (not the clamped amount)"
		if isPhi {
			hasReq, hasClamp := false, false
			for _, e := range ph.Edges {
				if engine.SameValue(e, pdec.amount) {
					hasReq = true
				}
				if isLoadOfField(e, a.peerTotal) {
					hasClamp = true
				}
			}
			ok = hasReq && hasClamp
		}
		c.Decide(r3, key, gdec.st.Pos(), ok, "global counter reduced by amount, or by the peer's whole total when the peer held less", why)
	}

	// R4 peer removal
	found := false
	for _, f := range a.fns {
		dels := engine.MapDeletesOfField([]*ssa.Function{f}, a.statuses)
		if len(dels) == 0 {
			continue
		}
		// the peer-release function is the one that subtracts a *peer total* from the global counter
		for _, ch := range a.changes(f) {
			if ch.kind != "dec" || ch.field != a.total || !isLoadOfField(ch.amount, a.peerTotal) {
				continue
			}
			found = true
			key := engine.FuncName(f)
			heapRemove := false
			for _, ci := range engine.Calls(f) {
				if ci.Common.IsInvoke() && ci.Common.Method.Name() == "Remove" && isLoadOfField(ci.Common.Value, a.heap) {
					heapRemove = true
				}
			}
			okDel, _ := engine.MustReachBeforeReturn(firstInstr(f), func(in ssa.Instruction) bool { return in == ssa.Instruction(dels[0]) }, nil)
			_ = okDel
			c.Decide(r4, key, f.Pos(), heapRemove, "global total reduced by the peer's total; peer removed from the map and the heap",
				"the released peer is not removed from the heap: a dead peer stays at the head of the queue and blocks pending grants")
		}
	}
	if !found {
		c.Violate(r4, "peer-release", token.NoPos, "no function both removes a peer from the status map and subtracts its total from the global counter")
	}

	// R6 the status map and the heap hold the same peers: every map delete goes with a heap Remove/Pop, every insert with a Push
	r6 := c.Rule("R6", "the peer-status map and the peer-status heap change together (insert with Push, delete with Remove/Pop)", 2)
	heapOp := func(in ssa.Instruction, names ...string) bool {
		cc, ok := in.(*ssa.Call)
		if !ok || !cc.Call.IsInvoke() || !isLoadOfField(cc.Call.Value, a.heap) {
			return false
		}
		for _, n := range names {
			if cc.Call.Method.Name() == n {
				return true
			}
		}
		return false
	}
	for _, f := range a.fns {
		for _, d := range engine.MapDeletesOfField([]*ssa.Function{f}, a.statuses) {
			paired := false
			engine.Instrs(f, func(in ssa.Instruction) {
				if heapOp(in, "Remove", "Pop") && sameRegion(in, d) {
					paired = true
				}
			})
			c.Decide(r6, engine.FuncName(f)+"|delete-with-heap-removal", d.Pos(), paired, "a peer leaves the map together with its heap element",
				"a peer is deleted from the status map while its element stays in the heap: a later allocation creates a second status for the peer, and when the stale element is popped the live status is deleted by peer ID — totals, limits and peer release then disagree")
		}
		for _, mu := range engine.MapUpdatesOfField([]*ssa.Function{f}, a.statuses) {
			paired := false
			engine.Instrs(f, func(in ssa.Instruction) {
				if heapOp(in, "Push") && sameRegion(in, mu) {
					paired = true
				}
			})
			c.Decide(r6, engine.FuncName(f)+"|insert-with-push", mu.Pos(), paired, "a peer enters the map together with its heap element", "a peer status is inserted into the map without being pushed onto the heap (its waiting allocations are never considered)")
		}
	}

	// R5 lock discipline
	// the heap comparator: whatever function value the priority queue is constructed with, plus the helpers only it calls
	compSet := map[*ssa.Function]bool{}
	for _, f := range a.fns {
		for _, ci := range engine.Calls(f) {
			if ci.Static == nil || engine.FuncPkgPath(ci.Static) != "github.com/ipfs/go-ipfs-pq" || ci.Static.Name() != "New" || len(ci.Common.Args) == 0 {
				continue
			}
			var add func(v ssa.Value, depth int)
			add = func(v ssa.Value, depth int) {
				if depth > 4 {
					return
				}
				switch x := engine.LocalValue(v).(type) {
				case *ssa.MakeClosure:
					if fn, ok := x.Fn.(*ssa.Function); ok {
						compSet[unwrapBound(fn)] = true
						compSet[fn] = true
					}
				case *ssa.Function:
					compSet[unwrapBound(x)] = true
				case *ssa.Call:
					if sc := x.Call.StaticCallee(); sc != nil && sc.Blocks != nil {
						for _, r := range engine.Returns(sc) {
							if len(r.Results) > 0 {
								add(r.Results[0], depth+1)
							}
						}
					}
				case *ssa.ChangeType:
					add(x.X, depth+1)
				}
			}
			add(ci.Common.Args[0], 0)
		}
	}
	for changed := true; changed; {
		changed = false
		for f := range compSet {
			for _, ci := range engine.Calls(f) {
				g := ci.Static
				if g == nil || g.Blocks == nil || compSet[g] || engine.FuncPkgPath(g) != engine.Module+"/allocator" {
					continue
				}
				only := true
				for _, cs := range c.P.CallSitesOf(g) {
					if !compSet[cs.Parent()] {
						only = false
					}
				}
				if only {
					compSet[g] = true
					changed = true
				}
			}
		}
	}
	lc := engine.NewLockChecker(c.P)
	for _, fld := range []*types.Var{a.total, a.statuses, a.heap, a.peerTotal, a.pending, c.P.Field("allocator", "Allocator", "nextAllocIndex")} {
		if fld == nil {
			continue
		}
		for _, fa := range engine.FieldAccesses(a.fns, fld) {
			f := fa.Parent()
			key := fmt.Sprintf("%s|%s %s", engine.FuncName(f), accessKind(fa), fld.Name())
			// the heap comparator is only run by heap operations
			if compSet[f] || (f.Parent() != nil && f.Parent().Name() == "makePeerStatusCompare") {
				c.Hold(r5, key, fa.Pos(), "heap comparator: invoked only by heap operations, which are checked to hold the lock")
				continue
			}
			ok, why := lc.HeldAtOrByCallers(fa, a.lk, 3)
			c.Decide(r5, key, fa.Pos(), ok, why, "allocator state accessed without allocLk: "+why)
		}
	}
}

func firstInstr(f *ssa.Function) ssa.Instruction { return f.Blocks[0].Instrs[0] }

func deletesFromMap(f *ssa.Function, field *types.Var) bool {
	return len(engine.MapDeletesOfField([]*ssa.Function{f}, field)) > 0
}

func sameAmount(x, y ssa.Value, a *allocFacts) bool {
	if engine.SameValue(x, y) {
		return true
	}
	// clamped: phi(amount, peerTotal) vs amount
	if ph, ok := x.(*ssa.Phi); ok {
		for _, e := range ph.Edges {
			if engine.SameValue(e, y) {
				return true
			}
		}
	}
	if ph, ok := y.(*ssa.Phi); ok {
		for _, e := range ph.Edges {
			if engine.SameValue(e, x) {
				return true
			}
		}
	}
	return false
}

// c13PendingTotal (R7): "once everything is released nothing is reported ... pending".  The reported pending total
// must either be summed from the per-peer pending lists when asked for, or come from a counter that every function
// adding or dropping pending allocations keeps up to date (dropping a peer with allocations still waiting included).
func c13PendingTotal(c *engine.Ctx, rule string) {
	a := loadAlloc(c, rule)
	if a == nil {
		return
	}
	statF := c.P.Field("", "ResponseStats", "TotalPendingAllocations")
	amountF := c.P.Field("allocator", "pendingAllocation", "amount")
	if statF == nil || amountF == nil {
		c.AnchorMissing(rule, "graphsync.ResponseStats.TotalPendingAllocations / allocator.pendingAllocation.amount")
		return
	}
	n := 0
	for _, f := range a.fns {
		for _, st := range engine.StoresTo([]*ssa.Function{f}, statF) {
			n++
			key := engine.FuncName(f) + "|pending-total"
			// leaves of the reported value
			var counters []*types.Var
			fromLists, other := false, ""
			seen := map[ssa.Value]bool{}
			var walk func(v ssa.Value)
			walk = func(v ssa.Value) {
				v = engine.LocalValue(v)
				if seen[v] {
					return
				}
				seen[v] = true
				switch x := v.(type) {
				case *ssa.Phi:
					for _, e := range x.Edges {
						walk(e)
					}
					return
				case *ssa.BinOp:
					if x.Op == token.ADD {
						walk(x.X)
						walk(x.Y)
						return
					}
				case *ssa.Convert:
					walk(x.X)
					return
				case *ssa.Const:
					return
				case *ssa.Call:
					if sc := x.Call.StaticCallee(); sc != nil && sc.Blocks != nil && engine.InModule(engine.FuncPkgPath(sc)) {
						for _, r := range engine.Returns(sc) {
							if len(r.Results) > 0 {
								walk(r.Results[0])
							}
						}
						return
					}
				case *ssa.Extract:
					if call, ok := x.Tuple.(*ssa.Call); ok {
						if sc := call.Call.StaticCallee(); sc != nil && sc.Blocks != nil && engine.InModule(engine.FuncPkgPath(sc)) {
							for _, r := range engine.Returns(sc) {
								if x.Index < len(r.Results) {
									walk(r.Results[x.Index])
								}
							}
							return
						}
					}
				}
				if fl, base := engine.LoadedField(v); fl != nil {
					if fl == amountF {
						fromLists = true
						return
					}
					// a field of a local struct (a tally built up in this function): what was stored into it
					if fa, isFA := base.(*ssa.FieldAddr); isFA {
						base = fa.X
					}
					if al, isAl := base.(*ssa.Alloc); isAl {
						// ... also when the struct reached this local through whole-struct copies of other locals
						found := false
						locals := map[*ssa.Alloc]bool{}
						var gather func(x *ssa.Alloc, d int)
						gather = func(x *ssa.Alloc, d int) {
							if locals[x] || d > 6 {
								return
							}
							locals[x] = true
							for _, r := range *x.Referrers() {
								if ws, ok := r.(*ssa.Store); ok && ws.Addr == ssa.Value(x) {
									if u, ok := engine.Strip(ws.Val).(*ssa.UnOp); ok && u.Op == token.MUL {
										if src, ok := u.X.(*ssa.Alloc); ok {
											gather(src, d+1)
										}
									}
								}
							}
						}
						gather(al, 0)
						for _, st2 := range engine.StoresTo([]*ssa.Function{f}, fl) {
							if root, ok := st2.Addr.(*ssa.FieldAddr).X.(*ssa.Alloc); ok && locals[root] {
								found = true
								walk(st2.Val)
							}
						}
						if !found {
							other = v.String() + " (a local struct field never given a value here)"
						}
						return
					}
					if _, isInt := fl.Type().Underlying().(*types.Basic); isInt {
						counters = append(counters, fl)
						return
					}
				}
				other = v.String()
			}
			walk(st.Val)
			if other != "" {
				c.Undecided(rule, key, st.Pos(), "cannot trace the reported pending total to the pending lists or to a counter field: "+other)
				continue
			}
			if len(counters) == 0 {
				c.Decide(rule, key, st.Pos(), fromLists, "the pending total is summed from the per-peer pending lists", "the reported pending total is not derived from the pending lists")
				continue
			}
			// a separately maintained counter: every function that changes a pending list or drops a peer that may
			// still have allocations waiting must update it
			bad := ""
			for _, ctr := range counters {
				for _, g := range a.fns {
					if len(engine.StoresTo([]*ssa.Function{g}, ctr)) > 0 {
						continue
					}
					touches := ""
					if len(engine.StoresTo([]*ssa.Function{g}, a.pending)) > 0 {
						for _, ps := range engine.StoresTo([]*ssa.Function{g}, a.pending) {
							if _, isAlloc := ps.Addr.(*ssa.FieldAddr).X.(*ssa.Alloc); !isAlloc {
								touches = "changes a pending list"
							}
						}
					}
					for _, del := range engine.MapDeletesOfField([]*ssa.Function{g}, a.statuses) {
						empty := false
						for _, cd := range engine.InstrConds(del) {
							bo, ok := cd.V.(*ssa.BinOp)
							if !ok {
								continue
							}
							lc, ok := bo.X.(*ssa.Call)
							if !ok {
								continue
							}
							if lb, ok := lc.Call.Value.(*ssa.Builtin); !ok || lb.Name() != "len" || !isLoadOfField(lc.Call.Args[0], a.pending) {
								continue
							}
							k, _ := engine.ConstInt(bo.Y)
							if k == 0 && ((bo.Op == token.GTR && !cd.Pol) || (bo.Op == token.EQL && cd.Pol) || (bo.Op == token.NEQ && !cd.Pol) || (bo.Op == token.LEQ && cd.Pol)) {
								empty = true // only peers with nothing waiting are dropped here
							}
						}
						if !empty {
							touches = "drops a peer that may still have allocations waiting"
						}
					}
					if touches != "" {
						bad = fmt.Sprintf("%s %s but does not update the counter %s that Stats reports as the pending total: the total over-reports from then on and is non-zero after everything has been released", engine.FuncName(g), touches, ctr.Name())
					}
				}
			}
			c.Decide(rule, key, st.Pos(), bad == "", "the pending counter is updated by every function that adds or drops pending allocations", bad)
		}
	}
	if n == 0 {
		c.AnchorMissing(rule, "a store to ResponseStats.TotalPendingAllocations in allocator")
	}
}

// c13LimitWiring (R8): "never exceeds the configured total or per-peer limits" is about the values the user
// configured.  MaxMemoryResponder / MaxMemoryPerPeerResponder store their argument in the configuration; apart from
// the constant defaults nothing else assigns those fields; and each reaches allocator.NewAllocator at the position
// stored into the matching limit field.
func c13LimitWiring(c *engine.Ctx, rule string) {
	implNew := c.P.Func("impl", "", "New")
	ctor := c.P.Func("allocator", "", "NewAllocator")
	if implNew == nil || ctor == nil {
		c.AnchorMissing(rule, "impl.New / allocator.NewAllocator")
		return
	}
	for _, w := range []struct{ opt, cfg, dst string }{
		{"MaxMemoryResponder", "totalMaxMemoryResponder", "maxAllowedAllocatedTotal"},
		{"MaxMemoryPerPeerResponder", "maxMemoryPerPeerResponder", "maxAllowedAllocatedPerPeer"},
	} {
		cf := c.P.Field("impl", "graphsyncConfigOptions", w.cfg)
		df := c.P.Field("allocator", "Allocator", w.dst)
		if cf == nil || df == nil {
			c.AnchorMissing(rule, "impl.graphsyncConfigOptions."+w.cfg+" / allocator.Allocator."+w.dst)
			continue
		}
		optionSetterWrites(c, rule, w.opt, cf)
		configReaches(c, rule, implNew, cf, ctor, df)
		// no other writer: every store to the field outside the option's own closure is a constant (the default)
		optFn := c.P.Func("impl", "", w.opt)
		bad := ""
		for _, f := range c.P.FuncsIn("impl") {
			for _, st := range engine.StoresTo([]*ssa.Function{f}, cf) {
				if optFn != nil && f.Parent() == optFn {
					continue
				}
				if _, isConst := engine.Strip(st.Val).(*ssa.Const); isConst {
					continue
				}
				bad = fmt.Sprintf("%s assigns %s a computed value at %s", engine.FuncName(f), w.cfg, c.P.Pos(st.Pos()))
			}
		}
		c.Decide(rule, "impl."+w.cfg+"|only-option-and-default", implNew.Pos(), bad == "",
			"only the option and the constant default assign "+w.cfg,
			"the configured limit is rewritten after the options were applied ("+bad+"): the allocator enforces, and Stats reports, a limit other than the configured one")
	}
}
