package rules

import (
	"gscheck/engine"
)

func init() {
	register(&Property{
		Meta: engine.PropMeta{
			ID:    "C10",
			Title: "Messages from one peer cannot alter a response served to another",
			Explanation: "Decides the structural clause: on the responder's event loop, every effect performed through inProgressResponses[id] for an id taken from a wire request " +
				"(field write, signal send, response-stream call, queue removal, listener call, delete, overwrite of the table slot) is dominated on every path by a test that the entry's peer equals the sending peer, " +
				"or that no entry exists (wire-identity taint, entry mode, interprocedural over the module, same-package boolean guard helpers summarised). " +
				"Not decided: the outcome notifications once the guard holds (C05); local-API callers of the same handlers are not wire-tainted and are exempt by construction.",
			Assumptions: append([]string{"the peer.ID handed to the request handler is the authenticated libp2p sender (network layer trusted)"}, commonTrust...),
			Technique:   "interprocedural taint analysis over go/ssa with dominance-based sanitiser (must-dataflow of peer-equality / absence facts)",
		},
		Run: runC10,
	})
}

func runC10(c *engine.Ctx) {
	r1 := c.Rule("R1", "no effect through inProgressResponses[wireID] (write, send, call, delete, table overwrite) without a dominating entry.peer == sender (or entry absent) test", 1)
	table := c.P.Field("responsemanager", "ResponseManager", "inProgressResponses")
	peerF := c.P.Field("responsemanager", "inProgressResponseStatus", "peer")
	req := c.P.NamedType("message", "GraphSyncRequest")
	if table == nil {
		c.AnchorMissing(r1, "responsemanager.ResponseManager.inProgressResponses")
		return
	}
	if peerF == nil {
		c.AnchorMissing(r1, "responsemanager.inProgressResponseStatus.peer")
		return
	}
	if req == nil {
		c.AnchorMissing(r1, "message.GraphSyncRequest")
		return
	}
	roots := wireSources(c, "responsemanager", req)
	// exclude loads that are not wire entry points: the updates list of an existing response
	updatesF := c.P.Field("responsemanager", "inProgressResponseStatus", "updates")
	n := 0
	cfg := &engine.TaintCfg{P: c.P, Table: table, PeerField: peerF, Observer: logObserver,
		// a response stream (and the subscriber handed to it) acts on the table by request ID alone when its messages
		// are sent or fail: creating one under an ID that may be in use by another peer lets that peer's response be
		// retired by this peer's traffic
		KeyedSink: func(ci engine.CallInfo) (string, bool) {
			if ci.Common.IsInvoke() && ci.Common.Method.Name() == "NewStream" {
				return "creates a response stream under a wire-supplied request ID with no dominating check that the ID is free or belongs to the sending peer: the stream's subscriber retires the table entry of that ID when this peer's message is sent or fails", true
			}
			return "", false
		}}
	for f, srcs := range roots {
		var keep []ssaValue
		for _, s := range srcs {
			if fl, _ := engine.LoadedField(s); fl != nil && fl == updatesF {
				continue
			}
			keep = append(keep, s)
		}
		if len(keep) == 0 {
			continue
		}
		n++
		sum := cfg.AnalyzeRoot(f, keep)
		reportTaint(c, r1, f, sum)
	}
	for fn := range cfg.Analysed {
		c.Analysed(fn)
	}
	if n == 0 {
		c.AnchorMissing(r1, "a load of a []message.GraphSyncRequest field in package responsemanager (wire entry point)")
	}
}
