package rules

import (
	"fmt"
	"go/token"
	"go/types"

	"golang.org/x/tools/go/ssa"

	"gscheck/engine"
)

func init() {
	register(&Property{
		Meta: engine.PropMeta{
			ID:    "C14",
			Title: "Allocator grants waiting memory promptly and in order",
			Explanation: "Decides: (R1) the immediate grant is taken only when the peer has nothing waiting (dominated by len(pending) == 0); (R2) every path on which a counter was reduced reaches the pending-processing loop before returning; " +
				"(R3) heap freshness as a typestate: after any store to a per-peer ordering key (totalAllocated, pendingAllocations) the element is Update/Remove/Pop'ed before the next Peek and before the public operation returns (boolean helper summarised per result); " +
				"(R4) one answer per request: the response channel is buffered, and on every path of the allocate operation exactly one of {answer sent, request appended to the waiting list} happens; a grant from the waiting list answers and dequeues the same head element; " +
				"the waiting list is consumed from the head and appended at the tail; (R5) releasing a peer sends a non-nil error to every waiting request of that peer. " +
				"(R6) the heap comparator agrees with the reference order on every small state (finite-domain evaluation). Not decided: 'as soon as it fits' over all histories.",
			Assumptions: append([]string{"go-ipfs-pq's Update/Remove/Pop/Peek implement a heap over the comparator"}, commonTrust...),
			Technique:   "typestate dataflow with helper summaries, CFG path counting, must-reach on the CFG, guard dominance",
		},
		Run: runC14,
	})
}

func runC14(c *engine.Ctx) {
	r1 := c.Rule("R1", "immediate grant only when the peer has nothing waiting", 1)
	r2 := c.Rule("R2", "every release that reduced a counter reaches the pending-processing loop before returning", 1)
	r3 := c.Rule("R3", "heap freshness: key stores are followed by Update/Remove/Pop before the next Peek and before a public operation returns", 2)
	r4 := c.Rule("R4", "one answer per request: buffered channel; exactly one of {answer, enqueue} on allocate; grant-from-pending answers and dequeues the head; FIFO list", 2)
	r5 := c.Rule("R5", "peer release fails every waiting request of that peer with a non-nil error", 1)
	a := loadAlloc(c, r1)
	if a == nil {
		return
	}
	r6 := c.Rule("R6", "the peer-queue comparator orders: head fits its peer limit (by request index) < head does not fit < nothing waiting (by total) — finite evaluation over all small states", 1)
	r7 := c.Rule("R7", "every grant from the wait queue goes to the peer currently at its head: the queue is re-sorted and its head re-read between any two grants", 1)
	c14HeadOnly(c, r7)
	c14Comparator(c, r6, a)
	respF := c.P.Field("allocator", "pendingAllocation", "response")
	if respF == nil {
		c.AnchorMissing(r4, "allocator.pendingAllocation.response")
		return
	}
	isHeapCall := func(in ssa.Instruction, names ...string) bool {
		cc, ok := in.(*ssa.Call)
		if !ok || !cc.Call.IsInvoke() || !isLoadOfField(cc.Call.Value, a.heap) {
			return false
		}
		for _, n := range names {
			if cc.Call.Method.Name() == n {
				return true
			}
		}
		return false
	}
	// the pending-processing loop: the function that Peeks
	var ppa *ssa.Function
	for _, f := range a.fns {
		engine.Instrs(f, func(in ssa.Instruction) {
			if isHeapCall(in, "Peek") {
				ppa = f
			}
		})
	}
	if ppa == nil {
		c.AnchorMissing(r2, "the function that Peeks the peer-status heap")
		return
	}
	// allocate operation: the function that makes the response channel
	var allocFn *ssa.Function
	var mk *ssa.MakeChan
	for _, f := range a.fns {
		engine.Instrs(f, func(in ssa.Instruction) {
			if m, ok := in.(*ssa.MakeChan); ok {
				allocFn, mk = f, m
			}
		})
	}
	if allocFn == nil {
		c.AnchorMissing(r4, "the allocate operation (creates the response channel)")
		return
	}
	c.Analysed(engine.FuncName(allocFn), engine.FuncName(ppa))

	// R1
	for _, ch := range a.changes(allocFn) {
		if ch.kind != "inc" || ch.field != a.peerTotal {
			continue
		}
		ok := false
		for _, cd := range engine.InstrConds(ch.st) {
			b, isB := cd.V.(*ssa.BinOp)
			if !isB {
				continue
			}
			call, isC := b.X.(*ssa.Call)
			if !isC {
				continue
			}
			bi, isBi := call.Call.Value.(*ssa.Builtin)
			if !isBi || bi.Name() != "len" || !isLoadOfField(call.Call.Args[0], a.pending) {
				continue
			}
			k, _ := engine.ConstInt(b.Y)
			if k == 0 && ((b.Op == token.EQL && cd.Pol) || (b.Op == token.NEQ && !cd.Pol) || (b.Op == token.GTR && !cd.Pol) || (b.Op == token.LEQ && cd.Pol)) {
				ok = true
			}
		}
		c.Decide(r1, engine.FuncName(allocFn)+"|fast-path", ch.st.Pos(), ok, "immediate grant dominated by len(pendingAllocations) == 0",
			"the immediate grant ignores the peer's waiting list: a later request overtakes earlier waiting ones")
	}

	// R2
	for _, f := range a.fns {
		if f == ppa {
			continue
		}
		for _, ch := range a.changes(f) {
			if ch.kind != "dec" && ch.kind != "zero" {
				continue
			}
			isPPA := func(in ssa.Instruction) bool {
				cc, ok := in.(*ssa.Call)
				return ok && cc.Call.StaticCallee() == ppa
			}
			ok, ret := engine.MustReachBeforeReturn(ch.st, isPPA, nil)
			why := ""
			if !ok && ret != nil {
				why = "after reducing " + ch.field.Name() + " the function can return at " + c.P.Pos(ret.Pos()) + " without processing pending allocations: waiting requests that now fit are left waiting"
			}
			c.Decide(r2, fmt.Sprintf("%s|wake-after %s %s", engine.FuncName(f), ch.kind, ch.field.Name()), ch.st.Pos(), ok, "pending allocations are processed before returning", why)
		}
	}

	// R2b: removing a peer from the queue can also unblock others (it may have been the head): same obligation
	for _, f := range a.fns {
		if f == ppa {
			continue
		}
		engine.Instrs(f, func(in ssa.Instruction) {
			if !isHeapCall(in, "Remove", "Pop") {
				return
			}
			isPPA := func(x ssa.Instruction) bool {
				cc, ok := x.(*ssa.Call)
				return ok && cc.Call.StaticCallee() == ppa
			}
			ok, ret := engine.MustReachBeforeReturn(in, isPPA, nil)
			why := ""
			if !ok && ret != nil {
				why = "after removing a peer from the queue the function can return at " + c.P.Pos(ret.Pos()) + " without processing pending allocations: requests that were waiting behind that peer and now fit are left waiting"
			}
			c.Decide(r2, fmt.Sprintf("%s|wake-after queue-removal", engine.FuncName(f)), in.Pos(), ok, "pending allocations are processed after a peer leaves the queue", why)
		})
	}

	// R3 typestate
	var tcfg engine.TSCfg
	memo := map[*ssa.Function][3]engine.TSAction{}
	tcfg = engine.TSCfg{
		Action: func(in ssa.Instruction) engine.TSAction {
			if st, ok := in.(*ssa.Store); ok {
				if fa, ok := st.Addr.(*ssa.FieldAddr); ok {
					if f := engine.FieldOf(fa); f == a.peerTotal || f == a.pending {
						if _, isAlloc := fa.X.(*ssa.Alloc); !isAlloc {
							return engine.TSDirty
						}
					}
				}
			}
			if isHeapCall(in, "Update", "Remove", "Pop", "Push") {
				return engine.TSClean
			}
			if isHeapCall(in, "Peek") {
				return engine.TSCheck
			}
			return engine.TSNone
		},
		Branch: func(call *ssa.Call) (engine.TSAction, engine.TSAction, bool) {
			sc := call.Call.StaticCallee()
			if sc == nil || sc.Blocks == nil || engine.FuncPkgPath(sc) != engine.Module+"/allocator" {
				return 0, 0, false
			}
			if r, ok := memo[sc]; ok {
				return r[0], r[1], r[2] != 0
			}
			memo[sc] = [3]engine.TSAction{}
			t, f, ok := engine.BoolHelperTypestate(sc, tcfg)
			if !ok || (t == engine.TSNone && f == engine.TSNone) {
				return 0, 0, false
			}
			memo[sc] = [3]engine.TSAction{t, f, 1}
			return t, f, true
		},
	}
	for _, f := range a.fns {
		if f.Parent() != nil {
			continue
		}
		touches := false
		engine.Instrs(f, func(in ssa.Instruction) {
			if tcfg.Action(in) != engine.TSNone {
				touches = true
			}
		})
		if !touches {
			continue
		}
		// helpers summarised at their call sites are not required to be clean at return
		isHelper := false
		if _, _, ok := tcfg.Branch(&ssa.Call{}); ok {
			_ = ok
		}
		for _, g := range a.fns {
			for _, ci := range engine.Calls(g) {
				if ci.Static == f {
					if call := ci.Value(); call != nil {
						if _, _, ok := tcfg.Branch(call); ok {
							isHelper = true
						}
					}
				}
			}
		}
		cfg := tcfg
		cfg.CheckAtReturn = !isHelper
		viol, _ := engine.RunTypestate(f, false, cfg)
		key := engine.FuncName(f) + "|heap-fresh"
		if len(viol) == 0 {
			what := "every key store is followed by Update/Remove/Pop before the next Peek and before return"
			if isHelper {
				what = "boolean helper: summarised at its call site (dirty iff it returns true)"
			}
			c.Hold(r3, key, f.Pos(), what)
			continue
		}
		v := viol[0]
		what := "the heap is Peeked"
		if _, isRet := v.At.(*ssa.Return); isRet {
			what = "the operation returns"
		}
		c.Violate(r3, key, v.At.Pos(), "a peer's ordering key (totalAllocated / pendingAllocations) was changed and "+what+" without re-sorting the element (Update/Remove/Pop): the queue head is stale and the wrong peer is served next")
	}

	// R4a buffered channel
	sz, isC := engine.ConstInt(mk.Size)
	c.Decide(r4, engine.FuncName(allocFn)+"|buffered-response", mk.Pos(), isC && sz >= 1, "response channel has capacity >= 1 (answers are sent under the lock)", "the response channel is unbuffered: answering under the lock blocks the allocator")
	// R4b exactly one of {send on it, append to pending}
	stops := engine.CountFrom(mk.Block(), engine.C0, engine.CountCfg{Event: func(in ssa.Instruction) engine.CountSet {
		if s, ok := in.(*ssa.Send); ok && s.Chan == ssa.Value(mk) {
			return engine.C1
		}
		if st, ok := in.(*ssa.Store); ok {
			if fa, ok := st.Addr.(*ssa.FieldAddr); ok && engine.FieldOf(fa) == a.pending {
				if call, ok := st.Val.(*ssa.Call); ok {
					if b, ok := call.Call.Value.(*ssa.Builtin); ok && b.Name() == "append" && isLoadOfField(call.Call.Args[0], a.pending) {
						return engine.C1
					}
				}
			}
		}
		return 0
	}})
	ok := len(stops) > 0
	bad := ""
	for _, s := range stops {
		if s.Count != engine.C1 {
			ok = false
			bad = fmt.Sprintf("%s of {answer sent, request appended at the tail of the waiting list} before %s", s.Count, describeStop(c, s.At))
		}
	}
	c.Decide(r4, engine.FuncName(allocFn)+"|answer-or-enqueue", mk.Pos(), ok, "exactly one of {answer sent, appended at the tail of the waiting list} on every path", bad)
	// the channel stored in the pending record is this channel
	chanStored := false
	for _, st := range engine.StoresTo([]*ssa.Function{allocFn}, respF) {
		if engine.Strip(st.Val) == ssa.Value(mk) {
			chanStored = true
		}
	}
	c.Decide(r4, engine.FuncName(allocFn)+"|pending-holds-channel", mk.Pos(), chanStored, "the waiting record holds the channel returned to the caller", "the waiting record does not hold the channel returned to the caller: the waiter is never answered")
	// R4c grant from pending: send nil on head.response and dequeue head, same function as the pending grant
	for _, f := range a.fns {
		if f == allocFn {
			continue
		}
		var grant *counterChange
		for _, ch := range a.changes(f) {
			ch := ch
			if ch.kind == "inc" && ch.field == a.peerTotal {
				grant = &ch
			}
		}
		if grant == nil {
			continue
		}
		c.Analysed(engine.FuncName(f))
		isAnswer := func(in ssa.Instruction) bool {
			s, ok := in.(*ssa.Send)
			return ok && fieldReadOf(s.Chan) == respF
		}
		isDequeue := func(in ssa.Instruction) bool {
			st, ok := in.(*ssa.Store)
			if !ok {
				return false
			}
			fa, ok := st.Addr.(*ssa.FieldAddr)
			if !ok || engine.FieldOf(fa) != a.pending {
				return false
			}
			sl, ok := st.Val.(*ssa.Slice)
			if !ok || sl.Low == nil || !isLoadOfField(sl.X, a.pending) {
				return false
			}
			k, ok := engine.ConstInt(sl.Low)
			return ok && k == 1
		}
		okA, _ := engine.MustReachBeforeReturn(grant.st, isAnswer, nil)
		okD, _ := engine.MustReachBeforeReturn(grant.st, isDequeue, nil)
		// head element: the granted record is pendingAllocations[0]
		headOK := false
		engine.Instrs(f, func(in ssa.Instruction) {
			if ia, ok := in.(*ssa.IndexAddr); ok && isLoadOfField(ia.X, a.pending) {
				if k, ok := engine.ConstInt(ia.Index); ok && k == 0 {
					headOK = true
				}
			}
		})
		c.Decide(r4, engine.FuncName(f)+"|grant-from-pending", grant.st.Pos(), okA && okD && headOK,
			"a grant from the waiting list takes the head, answers it and removes it",
			fmt.Sprintf("grant from the waiting list: takes head %v, answers %v, dequeues %v", headOK, okA, okD))
	}

	// R5
	found := false
	for _, f := range a.fns {
		if !deletesFromMap(f, a.statuses) {
			continue
		}
		engine.Instrs(f, func(in ssa.Instruction) {
			s, ok := in.(*ssa.Send)
			if !ok || fieldReadOf(s.Chan) != respF || !inLoop(s.Block()) {
				return
			}
			if engine.IsNilConst(s.X) && len(engine.StoresTo([]*ssa.Function{f}, a.peerTotal)) > 0 {
				return // a grant (answer nil and account the memory): R4's business, not the release path
			}
			found = true
			nonNil := false
			switch engine.LocalValue(s.X).(type) {
			case *ssa.Call, *ssa.MakeInterface:
				nonNil = true
			}
			// loop ranges over the peer's pending list
			overPending := false
			engine.Instrs(f, func(in2 ssa.Instruction) {
				if call, ok := in2.(*ssa.Call); ok {
					if b, ok := call.Call.Value.(*ssa.Builtin); ok && b.Name() == "len" && isLoadOfField(call.Call.Args[0], a.pending) {
						overPending = true
					}
				}
			})
			c.Decide(r5, engine.FuncName(f)+"|fail-waiters", s.Pos(), nonNil && overPending && !engine.IsNilConst(s.X),
				"every waiting request of the released peer is sent a non-nil error",
				"releasing a peer does not send an error to each of its waiting requests: they wait forever")
		})
	}
	if !found {
		c.Violate(r5, "fail-waiters", token.NoPos, "no peer-release path answers the peer's waiting requests")
	}
	_ = types.Typ
}

// ---- R6: the heap comparator agrees with the reference order on every small state (finite-domain evaluation)

type cmpState struct {
	pending  bool  // has a waiting allocation
	total    int64 // totalAllocated
	amount   int64 // amount of the head waiting allocation
	allocIdx int64 // request index of the head waiting allocation
}

// refLess: peers whose head waiting allocation fits their own limit come first, in request order;
// then peers whose head does not fit; then peers with nothing waiting, least allocated first.
func refLess(a, b cmpState, maxPerPeer int64) bool {
	class := func(s cmpState) int {
		if !s.pending {
			return 2
		}
		if s.total+s.amount > maxPerPeer {
			return 1
		}
		return 0
	}
	ca, cb := class(a), class(b)
	if ca != cb {
		return ca < cb
	}
	switch ca {
	case 0:
		return a.allocIdx < b.allocIdx
	case 2:
		return a.total < b.total
	}
	return false
}

// c14Trace follows a value back to where it came from across the comparator's own call tree: parameters to the
// arguments bound at the (single, currently evaluated) call, captured variables to what the closure was made with,
// loads of locals to the one value stored, fields of local struct values to the value the field was given.
type c14Trace struct {
	bind     map[*ssa.Parameter]ssa.Value
	closures map[*ssa.Function]*ssa.MakeClosure
}

func (t *c14Trace) val(v ssa.Value, d int) ssa.Value {
	for ; d < 60 && v != nil; d++ {
		switch x := v.(type) {
		case *ssa.ChangeType:
			v = x.X
		case *ssa.Convert:
			v = x.X
		case *ssa.MakeInterface:
			v = x.X
		case *ssa.ChangeInterface:
			v = x.X
		case *ssa.TypeAssert:
			v = x.X
		case *ssa.Extract:
			ta, ok := x.Tuple.(*ssa.TypeAssert)
			if !ok || x.Index != 0 {
				return v
			}
			v = ta.X
		case *ssa.Parameter:
			a, ok := t.bind[x]
			if !ok {
				return v
			}
			v = a
		case *ssa.FreeVar:
			f := x.Parent()
			mc := t.closures[f]
			if mc == nil {
				return v
			}
			var b ssa.Value
			for i, fv := range f.FreeVars {
				if fv == x && i < len(mc.Bindings) {
					b = mc.Bindings[i]
				}
			}
			if b == nil {
				return v
			}
			v = b
		case *ssa.UnOp:
			if x.Op != token.MUL {
				return v
			}
			switch a := t.val(x.X, d+1).(type) {
			case *ssa.Alloc:
				var whole []*ssa.Store
				for _, r := range *a.Referrers() {
					if st, ok := r.(*ssa.Store); ok && st.Addr == a {
						whole = append(whole, st)
					}
				}
				if len(whole) != 1 {
					return v
				}
				v = whole[0].Val
			case *ssa.FieldAddr:
				r := t.field(a.X, a.Field, d+1)
				if r == nil {
					return v
				}
				v = r
			default:
				return v
			}
		case *ssa.Field:
			r := t.fieldOfValue(x.X, x.Field, d+1)
			if r == nil {
				return v
			}
			v = r
		default:
			return v
		}
	}
	return v
}

// field: what field f of the local struct p points to was given (nil if p is not a local struct written once).
func (t *c14Trace) field(p ssa.Value, f int, d int) ssa.Value {
	if d > 60 {
		return nil
	}
	al, ok := t.val(p, d).(*ssa.Alloc)
	if !ok {
		return nil
	}
	var fst, whole []*ssa.Store
	for _, r := range *al.Referrers() {
		switch r := r.(type) {
		case *ssa.FieldAddr:
			if r.Field != f {
				continue
			}
			for _, rr := range *r.Referrers() {
				if st, ok := rr.(*ssa.Store); ok && st.Addr == r {
					fst = append(fst, st)
				}
			}
		case *ssa.Store:
			if r.Addr == al {
				whole = append(whole, r)
			}
		}
	}
	switch {
	case len(fst) == 1 && len(whole) == 0:
		return fst[0].Val
	case len(fst) == 0 && len(whole) == 1:
		return t.fieldOfValue(whole[0].Val, f, d+1)
	}
	return nil
}

func (t *c14Trace) fieldOfValue(sv ssa.Value, f int, d int) ssa.Value {
	if d > 60 {
		return nil
	}
	if u, ok := t.val(sv, d).(*ssa.UnOp); ok && u.Op == token.MUL {
		return t.field(u.X, f, d+1)
	}
	return nil
}

func c14Comparator(c *engine.Ctx, rule string, a *allocFacts) {
	mk := c.P.Func("allocator", "", "makePeerStatusCompare")
	if mk == nil || len(mk.Params) != 1 {
		c.AnchorMissing(rule, "allocator.makePeerStatusCompare")
		return
	}
	tr := &c14Trace{bind: map[*ssa.Parameter]ssa.Value{}, closures: map[*ssa.Function]*ssa.MakeClosure{}}
	var scan func(f *ssa.Function)
	scan = func(f *ssa.Function) {
		engine.Instrs(f, func(in ssa.Instruction) {
			if mc, ok := in.(*ssa.MakeClosure); ok {
				if fn, ok := mc.Fn.(*ssa.Function); ok {
					tr.closures[fn] = mc
				}
			}
		})
		for _, an := range f.AnonFuncs {
			scan(an)
		}
	}
	for _, f := range a.fns {
		scan(f)
	}
	scan(mk)
	// the comparator: the function value the constructor returns (a closure, a bound method, a plain function)
	var cmp *ssa.Function
	same := true
	engine.Instrs(mk, func(in ssa.Instruction) {
		r, ok := in.(*ssa.Return)
		if !ok || len(r.Results) != 1 {
			return
		}
		var fn *ssa.Function
		switch x := tr.val(r.Results[0], 0).(type) {
		case *ssa.MakeClosure:
			fn, _ = x.Fn.(*ssa.Function)
		case *ssa.Function:
			fn = x
		}
		if fn == nil || (cmp != nil && cmp != fn) {
			same = false
		}
		cmp = fn
	})
	if cmp == nil || !same || len(cmp.Params) != 2 || cmp.Blocks == nil {
		c.AnchorMissing(rule, "allocator.makePeerStatusCompare closure")
		return
	}
	c.Analysed(engine.FuncName(cmp))
	amountF := c.P.Field("allocator", "pendingAllocation", "amount")
	idxF := c.P.Field("allocator", "pendingAllocation", "allocIndex")
	if amountF == nil || idxF == nil {
		c.AnchorMissing(rule, "allocator.pendingAllocation{amount,allocIndex}")
		return
	}
	// which of the two compared peers does a value's access path start at?
	side := func(v ssa.Value) int {
		for i := 0; i < 12 && v != nil; i++ {
			v = tr.val(v, 0)
			switch x := v.(type) {
			case *ssa.Parameter:
				for k, p := range cmp.Params {
					if p == x {
						return k
					}
				}
				return -1
			case *ssa.UnOp:
				v = x.X
			case *ssa.FieldAddr:
				v = x.X
			case *ssa.IndexAddr:
				v = x.X
			default:
				return -1
			}
		}
		return -1
	}
	isLimit := func(v ssa.Value) bool {
		b, ok := v.Type().Underlying().(*types.Basic)
		if !ok || b.Info()&types.IsInteger == 0 {
			return false
		}
		switch v.(type) {
		case *ssa.UnOp, *ssa.Field, *ssa.FreeVar, *ssa.Parameter:
			return tr.val(v, 0) == ssa.Value(mk.Params[0])
		}
		return false
	}
	const maxPerPeer = 10
	vals := []cmpState{}
	for _, pend := range []bool{false, true} {
		for _, total := range []int64{0, 4, 8} {
			if !pend {
				vals = append(vals, cmpState{false, total, 0, 0})
				continue
			}
			for _, amount := range []int64{1, 6} {
				for _, idx := range []int64{1, 2} {
					vals = append(vals, cmpState{true, total, amount, idx})
				}
			}
		}
	}
	bad := ""
	n := 0
	for _, sa := range vals {
		for _, sb := range vals {
			st := [2]cmpState{sa, sb}
			input := func(v ssa.Value) (engine.EVal, bool) {
				if isLimit(v) {
					return engine.EVal{K: engine.EInt, I: maxPerPeer}, true
				}
				u, ok := v.(*ssa.UnOp)
				if !ok {
					return engine.EVal{}, false
				}
				fa, ok := u.X.(*ssa.FieldAddr)
				if !ok {
					return engine.EVal{}, false
				}
				k := side(fa.X)
				if k < 0 {
					return engine.EVal{}, false
				}
				switch engine.FieldOf(fa) {
				case a.peerTotal:
					return engine.EVal{K: engine.EInt, I: st[k].total}, true
				case amountF:
					return engine.EVal{K: engine.EInt, I: st[k].amount}, true
				case idxF:
					return engine.EVal{K: engine.EInt, I: st[k].allocIdx}, true
				}
				return engine.EVal{}, false
			}
			aborted := false
			var run func(f *ssa.Function, args []engine.EVal, depth int) []engine.EVal
			run = func(f *ssa.Function, args []engine.EVal, depth int) []engine.EVal {
				var results []engine.EVal
				ev := &engine.Evaluator{MaxVisits: 2}
				ev.Input = func(v ssa.Value) (engine.EVal, bool) {
					if p, ok := v.(*ssa.Parameter); ok && args != nil {
						for i, fp := range f.Params {
							if fp == p && i < len(args) && args[i].K != engine.EUnknown {
								return args[i], true
							}
						}
					}
					return input(v)
				}
				ev.Call = func(call *ssa.Call, get func(ssa.Value) engine.EVal) (engine.EVal, bool) {
					if b, ok := call.Call.Value.(*ssa.Builtin); ok && b.Name() == "len" {
						if fl, base := engine.LoadedField(call.Call.Args[0]); fl == a.pending {
							if k := side(base); k >= 0 {
								if st[k].pending {
									return engine.EVal{K: engine.EInt, I: 1}, true
								}
								return engine.EVal{K: engine.EInt, I: 0}, true
							}
						}
					}
					// the comparison written across helpers of the package: evaluate the helper on the same state
					sc := call.Call.StaticCallee()
					if sc == nil || sc.Blocks == nil || depth >= 4 || engine.FuncPkgPath(sc) != engine.Module+"/allocator" {
						return engine.EVal{}, false
					}
					var as []engine.EVal
					for i, arg := range call.Call.Args {
						as = append(as, get(arg))
						if i < len(sc.Params) {
							tr.bind[sc.Params[i]] = arg
						}
					}
					rs := run(sc, as, depth+1)
					if len(rs) == 1 {
						return rs[0], true
					}
					return engine.EVal{}, false
				}
				ev.Observe = func(in ssa.Instruction, get func(ssa.Value) engine.EVal) {
					if r, ok := in.(*ssa.Return); ok && len(r.Results) > 0 {
						results = append(results, get(r.Results[0]))
					}
				}
				ev.Run(f)
				if ev.Aborted {
					aborted = true
				}
				return results
			}
			results := run(cmp, nil, 0)
			n++
			want := refLess(sa, sb, maxPerPeer)
			if aborted || len(results) != 1 || results[0].K != engine.EBool {
				bad = fmt.Sprintf("cannot evaluate the comparator on state a=%+v b=%+v (it is no longer a pure comparison of totals, head amounts and request indices)", sa, sb)
				break
			}
			if results[0].B != want {
				bad = fmt.Sprintf("comparator(a=%+v, b=%+v) = %v, reference order says %v: waiting peers are not served in request order / fit order", sa, sb, results[0].B, want)
				break
			}
		}
		if bad != "" {
			break
		}
	}
	c.Decide(rule, engine.FuncName(cmp), cmp.Pos(), bad == "",
		fmt.Sprintf("agrees with the reference order (fits-in-request-order < does-not-fit < nothing-waiting-by-total) on all %d state pairs", n), bad)
}

// c14HeadOnly (R7): waiting allocations are granted in request order across peers only if each grant is made to
// whoever heads the priority queue *now*.  Between two grants the granted peer's key has changed, so the queue must
// be re-sorted (Update/Pop/Remove) and its head re-read (Peek); a loop that keeps granting to the same peer serves
// that peer's younger requests ahead of other peers' older ones.
func c14HeadOnly(c *engine.Ctx, rule string) {
	// a grant: the nil answer sent on a waiting request's channel — in the loop itself or in a helper it calls
	respF := c.P.Field("allocator", "pendingAllocation", "response")
	if respF == nil {
		c.AnchorMissing(rule, "allocator.pendingAllocation.response")
		return
	}
	isGrant := engine.LiftMay(func(in ssa.Instruction) bool {
		s, ok := in.(*ssa.Send)
		return ok && fieldReadOf(s.Chan) == respF && engine.IsNilConst(s.X)
	})
	isPeek := func(in ssa.Instruction) bool {
		cc, ok := in.(*ssa.Call)
		return ok && cc.Call.IsInvoke() && cc.Call.Method.Name() == "Peek"
	}
	n := 0
	for _, f := range c.P.FuncsIn("allocator") {
		engine.Instrs(f, func(in ssa.Instruction) {
			if !isGrant(in) {
				return
			}
			n++
			again, at := engine.CanReach(in, isGrant, isPeek)
			where := ""
			if at != nil {
				where = " (next grant at " + c.P.Pos(at.Pos()) + ")"
			}
			c.Decide(rule, engine.FuncName(f)+"|grant", in.Pos(), !again,
				"after a grant the queue head is read again before the next grant",
				"after granting one waiting allocation another grant can follow without the queue head being read again"+where+": the same peer's younger requests are served ahead of other peers' older ones")
		})
	}
	if n == 0 {
		c.AnchorMissing(rule, "a grant (nil answer on a waiting request's channel) in the allocator")
	}
}
