package rules

import (
	"fmt"
	"go/token"
	"go/types"

	"golang.org/x/tools/go/ssa"

	"gscheck/engine"
)

func init() {
	register(&Property{
		Meta: engine.PropMeta{
			ID:    "C06",
			Title: "Pausing and resuming an exchange does not change its result",
			Explanation: "Decides only the sentence 'while a response is paused the responder sends no further block data' and the pause/resume protocol structure: " +
				"(R1) in the query executor every path that queues a pause status returns a non-nil error from the transaction (infeasible nil-branches pruned by type-assertion facts), the transaction returns its closure's error unchanged, and after a non-nil send error the traversal loop exits without another load; " +
				"(R1b) a response paused by its request hooks is not queued; (R2) requestor pause: on a non-context-cancel error the executor sends a cancel for its own request to its own peer and takes the loader offline before releasing the task; " +
				"(R3) resume: both unpause handlers act only on a Paused entry and re-queue it (state and queue together), and the requestor's re-request carries the traversed-block skip count (C24.R2); " +
				"(R4) the requestor's traversal record, against which the responder's metadata is replayed after a resume, receives every finished load attempt whatever its outcome, with that attempt's own success flag. " +
				"Not decided: equality of delivered nodes / errors / stored blocks with the uninterrupted exchange for any pause index and timing (run-time values).",
			Assumptions: append([]string{"ResponseStream.Transaction is implemented by responseStream.Transaction (checked to return the closure's error)"}, commonTrust...),
			Technique:   "feasible-path must-analysis with nil facts from type assertions, guard dominance, ordering by dominance",
		},
		Run: runC06,
	})
}

// nonNilFacts: values known non-nil at instruction `at`: x != nil conditions and successful type assertions on x.
func knownNonNilAt(at ssa.Instruction, v ssa.Value) bool {
	conds := engine.InstrConds(at)
	if engine.KnownNonNil(conds, v) {
		return true
	}
	for _, cd := range conds {
		if ex, ok := cd.V.(*ssa.Extract); ok && ex.Index == 1 && cd.Pol {
			if ta, ok := ex.Tuple.(*ssa.TypeAssert); ok && engine.SameValue(ta.X, v) {
				return true
			}
		}
	}
	return false
}

func runC06(c *engine.Ctx) {
	r1 := c.Rule("R1", "a queued pause status always comes with a non-nil transaction error, which reaches the traversal loop's exit; no load follows", 2)
	r1b := c.Rule("R1b", "a response paused at creation is not queued", 1)
	r2 := c.Rule("R2", "requestor pause: cancel message to the request's peer and loader offline before the task is released", 1)
	r3 := c.Rule("R3", "unpause only from Paused; re-queue with state and queue together", 1)
	r4 := c.Rule("R4", "every finished load attempt (failed ones too) enters the traversal record, with its own outcome, before the next load", 1)
	c06Record(c, r4)
	// responses that arrive while the request is paused are refused and their queue items recycled; a recycled item
	// must not carry the refused block's bytes into the re-request's response (C01.R3/R3b)
	r5 := c.Rule("R5", "queue items keep to their own response: bytes come from the response's block map by link, other writers store nil (C01.R3)", 2)
	r5b := c.Rule("R5b", "items recycled from a refused or cleaned-up response are wiped before they return to the pool (C01.R3b)", 2)
	c01Ingest(c, r5, r5b)

	qe := "responsemanager/queryexecutor"
	n := 0
	for _, f := range c.P.FuncsIn(qe) {
		for _, ci := range engine.Calls(f) {
			if !ci.Common.IsInvoke() || ci.Common.Method.Name() != "PauseRequest" {
				continue
			}
			n++
			c.Analysed(engine.FuncName(f))
			// feasible paths from the pause to returns
			bad := ""
			seen := map[*ssa.BasicBlock]bool{}
			var walk func(b *ssa.BasicBlock, start int)
			walk = func(b *ssa.BasicBlock, start int) {
				for i := start; i < len(b.Instrs); i++ {
					if r, ok := b.Instrs[i].(*ssa.Return); ok {
						v := engine.ReturnValue(r, len(r.Results)-1)
						if engine.IsNilConst(v) {
							bad = "returns nil at " + c.P.Pos(r.Pos())
							return
						}
						if _, isConst := v.(*ssa.Const); isConst {
							return // non-nil constant boxed as error
						}
						if _, isMI := r.Results[len(r.Results)-1].(*ssa.MakeInterface); isMI {
							return
						}
						if knownNonNilAt(r, v) || knownNonNilAt(ci.Instr, v) || provablyNonNilError(v, engine.InstrConds(r)) {
							return
						}
						// phi of non-nil things
						if ph, ok := v.(*ssa.Phi); ok {
							all := true
							for _, e := range ph.Edges {
								if engine.IsNilConst(e) || !(knownNonNilAt(ci.Instr, e) || isBoxedConst(e)) {
									all = false
								}
							}
							if all {
								return
							}
						}
						bad = "may return a nil error at " + c.P.Pos(r.Pos())
						return
					}
				}
				for k, s := range b.Succs {
					// prune edges contradicting nil facts established before the pause
					if ifi, ok := b.Instrs[len(b.Instrs)-1].(*ssa.If); ok {
						if bo, ok := ifi.Cond.(*ssa.BinOp); ok && engine.IsNilConst(bo.Y) && knownNonNilAt(ci.Instr, bo.X) {
							if (bo.Op == token.NEQ && k == 1) || (bo.Op == token.EQL && k == 0) {
								continue
							}
						}
					}
					if !seen[s] {
						seen[s] = true
						walk(s, 0)
					}
				}
			}
			idx := 0
			for i, in := range ci.Instr.Block().Instrs {
				if in == ci.Instr {
					idx = i + 1
				}
			}
			walk(ci.Instr.Block(), idx)
			c.Decide(r1, engine.FuncName(f)+"|pause=>error", ci.Instr.Pos(), bad == "",
				"every feasible path after queuing the pause status returns a non-nil error",
				"after queuing a pause status the transaction "+bad+": the traversal loop continues and sends further blocks while the response is reported paused")
		}
	}
	if n == 0 {
		c.AnchorMissing(r1, "a PauseRequest call in the query executor")
	}
	// callers of a function that may have queued a pause must hand its error on: every return reachable
	// after the call returns that error, a provably non-nil error, or is under "callee error == nil"
	pausers := map[*ssa.Function]bool{}
	for _, f := range c.P.FuncsIn(qe) {
		for _, ci := range engine.Calls(f) {
			if ci.Common.IsInvoke() && ci.Common.Method.Name() == "PauseRequest" && f.Signature.Results().Len() > 0 && isErrorType(f.Signature.Results().At(f.Signature.Results().Len()-1).Type()) {
				pausers[f] = true
			}
		}
	}
	for _, f := range c.P.FuncsIn(qe) {
		for _, ci := range engine.Calls(f) {
			if ci.Static == nil || !pausers[ci.Static] || ci.Static == f {
				continue
			}
			call := ci.Value()
			if call == nil {
				continue
			}
			var errv ssa.Value = call
			if call.Type() != nil {
				if tup, ok := call.Type().(*types.Tuple); ok {
					errv = extractOf(call, tup.Len()-1)
				}
			}
			bad := ""
			for _, r := range engine.Returns(f) {
				if !reachableFromAvoiding(call, r, func(ssa.Instruction) bool { return false }, nil) {
					continue
				}
				v := engine.ReturnValue(r, len(r.Results)-1)
				if errv != nil && engine.LocalValue(v) == engine.LocalValue(errv) {
					continue
				}
				if errv != nil && engine.KnownNil(engine.InstrConds(r), errv) {
					continue
				}
				if !engine.IsNilConst(v) && (provablyNonNilError(v, engine.InstrConds(r)) || knownNonNilAt(r, v)) {
					continue
				}
				bad = "can return at " + c.P.Pos(r.Pos()) + " without handing on the error of " + engine.FuncName(ci.Static) + " (which may have queued a pause status)"
			}
			c.Decide(r1, engine.FuncName(f)+"|hands-on-pause-error", ci.Instr.Pos(), bad == "",
				"after a callee that may have queued a pause status, every return hands its error on (or a non-nil one)",
				"the transaction "+bad+": the response is reported paused but the traversal keeps sending blocks")
		}
	}
	// Transaction returns the closure's error
	tr := c.P.Func("responsemanager/responseassembler", "responseStream", "Transaction")
	if tr == nil {
		c.AnchorMissing(r1, "responseassembler.responseStream.Transaction")
	} else {
		okT := len(engine.Returns(tr)) > 0
		for _, r := range engine.Returns(tr) {
			call, ok := engine.ReturnValue(r, 0).(*ssa.Call)
			if !(ok && !call.Call.IsInvoke() && call.Call.StaticCallee() == nil && len(tr.Params) >= 2 && engine.Strip(call.Call.Value) == ssa.Value(tr.Params[1])) {
				okT = false
			}
		}
		c.Decide(r1, engine.FuncName(tr)+"|returns-closure-error", tr.Pos(), okT, "Transaction returns exactly what the transaction function returned", "Transaction no longer returns the transaction function's error: a pause or hook error is lost on the way to the traversal loop")
	}
	// loop exit: in the function that calls the loader and the send step in a loop
	for _, f := range c.P.FuncsIn(qe) {
		var load, send *ssa.Call
		for _, ci := range engine.Calls(f) {
			if ci.Static == nil || !inLoop(ci.Instr.Block()) {
				continue
			}
			for _, cj := range engine.Calls(ci.Static) {
				if !cj.Common.IsInvoke() && cj.Common.StaticCallee() == nil && isStorageFuncType(cj.Common.Value.Type()) == "linking.BlockReadOpener" {
					load = ci.Value()
				}
				if cj.Common.IsInvoke() && cj.Common.Method.Name() == "Transaction" {
					send = ci.Value()
				}
			}
		}
		if load == nil || send == nil {
			continue
		}
		c.Analysed(engine.FuncName(f))
		// finite-domain evaluation with the send step made to fail: on no path may the loader run after a
		// failed send, and every return after it hands on that very error (however the error is routed
		// through locals on the way)
		reLoad, retOther, sawSend := false, false, false
		ev := &engine.Evaluator{MaxVisits: 2}
		ev.Call = func(call *ssa.Call, get func(ssa.Value) engine.EVal) (engine.EVal, bool) {
			if call == send {
				return engine.EVal{K: engine.EPtr, Tok: send}, true
			}
			return engine.EVal{}, false
		}
		ev.Observe = func(in ssa.Instruction, get func(ssa.Value) engine.EVal) {
			failed := get(send).K == engine.EPtr
			if in == ssa.Instruction(send) {
				sawSend = true
			}
			if !failed {
				return
			}
			if in == ssa.Instruction(load) {
				reLoad = true
			}
			if r, ok := in.(*ssa.Return); ok && len(r.Results) > 0 {
				v := get(r.Results[0])
				if v.K != engine.EPtr || v.Tok != ssa.Value(send) {
					retOther = true
				}
			}
		}
		ev.Run(f)
		okExit := sawSend && !ev.Aborted && !reLoad && !retOther
		c.Decide(r1, engine.FuncName(f)+"|send-error-exits-loop", send.Pos(), okExit,
			"a non-nil error from the send step leaves the traversal loop with that error; no further block is loaded",
			"after the send step reports an error (e.g. paused) the traversal loop can load another block")
	}

	// R1b
	mr := loadMgr(c, r1b, "responsemanager")
	if mr != nil {
		isPausedF := c.P.Field("responsemanager/hooks", "RequestResult", "IsPaused")
		found := false
		for _, p := range mr.queueCalls("PushTask") {
			f := p.Instr.Parent()
			uses := false
			engine.Instrs(f, func(in ssa.Instruction) {
				if fl := fieldReadOf(valueOf(in)); fl != nil && fl == isPausedF {
					uses = true
				}
			})
			if !uses {
				continue
			}
			found = true
			notPaused := false
			for _, cd := range engine.InstrConds(p.Instr) {
				if fieldReadOf(cd.V) == isPausedF && !cd.Pol {
					notPaused = true
				}
			}
			c.Decide(r1b, engine.FuncName(f)+"|PushTask", p.Instr.Pos(), notPaused, "a new response is queued only when its hooks did not pause it", "a response paused by its request hooks is queued anyway: it sends blocks while reported paused")
		}
		if !found {
			c.AnchorMissing(r1b, "the new-request handler consulting RequestResult.IsPaused")
		}
	}

	// R2
	ex := c.P.Func("requestmanager/executor", "Executor", "ExecuteTask")
	reqF := c.P.Field("requestmanager/executor", "RequestTask", "Request")
	peerF := c.P.Field("requestmanager/executor", "RequestTask", "P")
	if ex == nil || reqF == nil || peerF == nil {
		c.AnchorMissing(r2, "executor.Executor.ExecuteTask / RequestTask{Request,P}")
	} else {
		c.Analysed(engine.FuncName(ex))
		var release, cancelSend, offline ssa.Instruction
		for _, ci := range engine.Calls(ex) {
			if !ci.Common.IsInvoke() {
				continue
			}
			switch ci.Common.Method.Name() {
			case "ReleaseRequestTask":
				release = ci.Instr
			case "SendRequest":
				okPeer := fieldReadOf(ci.Common.Args[0]) == peerF
				okMsg := false
				if call, ok := engine.LocalValue(ci.Common.Args[1]).(*ssa.Call); ok && engine.Resolve(call).Is("~/message.NewCancelRequest") && derivesFromField(call.Call.Args[0], reqF, 4) {
					okMsg = true
				}
				if okPeer && okMsg {
					cancelSend = ci.Instr
				}
			case "SetRemoteOnline":
				if b, ok := engine.ConstBool(ci.Common.Args[0]); ok && !b {
					offline = ci.Instr
				}
			}
		}
		ok := release != nil && cancelSend != nil && offline != nil
		why := "the executor does not both send a cancel for its request and take the loader offline"
		if ok {
			// both under err != nil && !IsContextCancelErr(err), and before release on those paths
			for _, in := range []ssa.Instruction{cancelSend, offline} {
				errNN, notCtx := false, false
				for _, cd := range engine.InstrConds(in) {
					if e, isEq := cd.AsEq(); isEq && !e.Equal && engine.IsNilConst(e.Y) && isErrorType(e.X.Type()) {
						errNN = true
					}
					if call, isC := cd.V.(*ssa.Call); isC && !cd.Pol && call.Call.StaticCallee() != nil && call.Call.StaticCallee().Name() == "IsContextCancelErr" {
						notCtx = true
					}
				}
				if !errNN || !notCtx {
					ok = false
					why = "the cancel/offline step is not taken exactly on errors other than context cancellation"
				}
				if r, _ := engine.MustReachBeforeReturn(in, func(x ssa.Instruction) bool { return x == release }, nil); !r {
					ok = false
					why = "the task is not released after the cancel/offline step on every path"
				}
				if r, _ := engine.CanReach(release, func(x ssa.Instruction) bool { return x == in }, nil); r {
					ok = false
					why = "the task is released before the cancel/offline step"
				}
			}
		}
		c.Decide(r2, engine.FuncName(ex), ex.Pos(), ok, "on pause or failure the executor cancels its own request at its own peer and takes the loader offline, then releases the task", why)
	}

	// R3
	for _, rel := range []string{"requestmanager", "responsemanager"} {
		m := loadMgr(c, r3, rel)
		if m == nil {
			continue
		}
		for _, s := range m.stateStores() {
			if s.name != "Queued" {
				continue
			}
			f := s.st.Parent()
			// unpause handlers: read the entry from the table (not creating it)
			if _, isAlloc := s.st.Addr.(*ssa.FieldAddr).X.(*ssa.Alloc); isAlloc {
				continue
			}
			creates := false
			for range engine.MapUpdatesOfField([]*ssa.Function{f}, m.table) {
				creates = true
			}
			if creates {
				continue
			}
			fromPaused := false
			for _, cd := range engine.InstrConds(s.st) {
				if e, ok := cd.AsEq(); ok && fieldReadOf(e.X) == m.state {
					if k, ok := engine.ConstInt(e.Y); ok && k == m.states["Paused"] && e.Equal {
						fromPaused = true
					}
				}
			}
			pushed := false
			for _, p := range m.queueCalls("PushTask") {
				if p.Instr.Parent() == f {
					if r, _ := engine.MustReachBeforeReturn(s.st, func(in ssa.Instruction) bool { return in == p.Instr }, nil); r {
						pushed = true
					}
				}
			}
			c.Decide(r3, engine.FuncName(f)+"|unpause", s.st.Pos(), fromPaused && pushed,
				"resume acts only on a Paused entry and re-queues it",
				fmt.Sprintf("resume handler broken (only from Paused: %v, task pushed on every path: %v): a running request is queued twice, or a resumed one never runs", fromPaused, pushed))
		}
	}
	_ = types.Typ
}

func isBoxedConst(v ssa.Value) bool {
	if mi, ok := v.(*ssa.MakeInterface); ok {
		_, isC := mi.X.(*ssa.Const)
		return isC
	}
	return false
}

func valueOf(in ssa.Instruction) ssa.Value {
	v, _ := in.(ssa.Value)
	return v
}

// c06Record: R4.  A resumed request replays the responder's metadata against the traversal record; a load attempt
// missing from the record (e.g. a failed one) makes the replay refuse an honest response.
func c06Record(c *engine.Ctx, rule string) {
	rl := "requestmanager/reconciledloader"
	rec := c.P.Func(rl+"/traversalrecord", "TraversalRecord", "RecordNextStep")
	empty := c.P.Func(rl, "loadAttempt", "empty")
	succF := c.P.Field(rl, "loadAttempt", "successful")
	attemptF := c.P.Field(rl, "ReconciledLoader", "mostRecentLoadAttempt")
	if rec == nil || empty == nil || succF == nil || attemptF == nil {
		c.AnchorMissing(rule, "traversalrecord.RecordNextStep / reconciledloader.loadAttempt{empty,successful} / ReconciledLoader.mostRecentLoadAttempt")
		return
	}
	isRec := func(in ssa.Instruction) bool {
		cc, ok := in.(*ssa.Call)
		return ok && cc.Call.StaticCallee() == rec
	}
	n := 0
	for _, f := range c.P.FuncsIn(rl) {
		if engine.FuncPkgPath(f) != engine.Module+"/"+rl {
			continue
		}
		var recCall *ssa.Call
		engine.Instrs(f, func(in ssa.Instruction) {
			if isRec(in) {
				recCall = in.(*ssa.Call)
			}
		})
		if recCall == nil {
			continue
		}
		n++
		key := engine.FuncName(f)
		c.Analysed(key)
		// the branch on "is there a finished attempt?"
		var start *ssa.BasicBlock
		for _, b := range f.Blocks {
			ifi, ok := b.Instrs[len(b.Instrs)-1].(*ssa.If)
			if !ok {
				continue
			}
			v, pol := ifi.Cond, true
			for {
				u, ok := v.(*ssa.UnOp)
				if !ok || u.Op != token.NOT {
					break
				}
				v, pol = u.X, !pol
			}
			if call, ok := v.(*ssa.Call); ok && call.Call.StaticCallee() == empty {
				start = engine.CondSucc(ifi, !pol) // empty() == false
			}
		}
		if start == nil {
			c.Undecided(rule, key+"|records-every-attempt", recCall.Pos(), "cannot find the test for a pending load attempt (loadAttempt.empty)")
			continue
		}
		ok, _ := engine.MustReachFromBlock(start, isRec, nil)
		c.Decide(rule, key+"|records-every-attempt", recCall.Pos(), ok,
			"whenever a finished load attempt is pending it is written to the traversal record",
			"a finished load attempt can be dropped without entering the traversal record (extra condition on the way to RecordNextStep): after a pause the responder's replayed metadata no longer matches the record and an honest response is refused")
		flag := recCall.Call.Args[len(recCall.Call.Args)-1]
		fl, base := engine.LoadedField(flag)
		fromAttempt := false
		if fl == succF && base != nil {
			if fa, isFA := base.(*ssa.FieldAddr); isFA && engine.FieldOf(fa) == attemptF {
				fromAttempt = true
			}
			// ... or of a local copy of the pending attempt (`prev := rl.mostRecentLoadAttempt`)
			isAttemptLoad := func(v ssa.Value) bool {
				u, ok := engine.Strip(v).(*ssa.UnOp)
				if !ok || u.Op != token.MUL {
					return false
				}
				fa, ok := u.X.(*ssa.FieldAddr)
				return ok && engine.FieldOf(fa) == attemptF
			}
			if al, isAl := base.(*ssa.Alloc); isAl {
				var stores []*ssa.Store
				for _, r := range *al.Referrers() {
					if st, ok := r.(*ssa.Store); ok && st.Addr == ssa.Value(al) {
						stores = append(stores, st)
					}
				}
				if len(stores) == 1 && isAttemptLoad(stores[0].Val) {
					fromAttempt = true
				}
			}
			if isAttemptLoad(base) {
				fromAttempt = true // field of the struct value read in one piece
			}
		}
		c.Decide(rule, key+"|records-own-outcome", recCall.Pos(), fromAttempt,
			"the recorded success flag is the pending attempt's own",
			"the success flag written to the traversal record is not the pending attempt's own outcome")
	}
	if n == 0 {
		c.AnchorMissing(rule, "a call of TraversalRecord.RecordNextStep in reconciledloader")
	}
}
