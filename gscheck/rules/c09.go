package rules

import (
	"fmt"
	"go/token"
	"go/types"
	"strings"

	"golang.org/x/tools/go/ssa"

	"gscheck/engine"
)

func init() {
	register(&Property{
		Meta: engine.PropMeta{
			ID:    "C09",
			Title: "Responses from other peers cannot affect a request",
			Explanation: "Decides the structural clause: on the requestor's event loop, no response taken from the wire (whose request ID is only a claim) " +
				"reaches a response hook, a message send, a status/last-response update, the reconciled loader or a cancel/terminate step unless, on every path, " +
				"it has first been established that inProgressRequestStatuses[id].p equals the sending peer (wire-identity taint with default-deny escape rule, interprocedural over the module). " +
				"Not decided: behaviour of the hooks/loader once only the addressed peer's responses reach them; that block hooks fire only from the request's own executor.",
			Assumptions: append([]string{"the peer.ID handed to the response handler is the authenticated libp2p sender (network layer trusted)"}, commonTrust...),
			Technique:   "interprocedural taint analysis over go/ssa with dominance-based sanitiser (must-dataflow of peer-equality facts)",
		},
		Run: runC09,
	})
}

// wireSources finds, in package rel, every load of a struct field whose type is
// a slice of the given message element type; the containing function is a root.
func wireSources(c *engine.Ctx, rel string, elem *types.Named) map[*ssa.Function][]ssa.Value {
	out := map[*ssa.Function][]ssa.Value{}
	for _, f := range c.P.FuncsIn(rel) {
		if engine.FuncPkgPath(f) != engine.Module+"/"+rel {
			continue
		}
		engine.Instrs(f, func(in ssa.Instruction) {
			u, ok := in.(*ssa.UnOp)
			if !ok || u.Op != token.MUL {
				return
			}
			if _, ok := u.X.(*ssa.FieldAddr); !ok {
				return
			}
			sl, ok := u.Type().Underlying().(*types.Slice)
			if !ok || !types.Identical(sl.Elem(), elem) {
				return
			}
			out[f] = append(out[f], u)
		})
	}
	return out
}

var c09Allowed = []string{
	"go.opentelemetry.io/", "github.com/ipfs/go-log", "go.uber.org/zap", "fmt.", "strings.", "strconv.",
	"github.com/google/uuid.", "errors.",
}

// accessorPkg: the message package and the root graphsync package hold the value
// types (GraphSyncResponse, RequestID, ResponseStatusCode) whose methods are accessors.
func accessorPkg(f *ssa.Function) bool {
	p := engine.FuncPkgPath(f)
	return p == engine.Module || p == engine.Module+"/message"
}

// logObserver: loggers and formatters only.
func logObserver(ci engine.CallInfo) bool {
	n := ci.Name()
	for _, p := range []string{"github.com/ipfs/go-log", "go.uber.org/zap", "fmt.", "strings.", "strconv."} {
		if strings.HasPrefix(n, p) {
			return true
		}
	}
	return false
}

func allowExternalObserver(ci engine.CallInfo) bool {
	n := ci.Name()
	for _, p := range c09Allowed {
		if strings.HasPrefix(n, p) {
			return true
		}
	}
	return false
}

func runC09(c *engine.Ctx) {
	r1 := c.Rule("R1", "every wire response is established to belong to the sending peer (status.p == p, or no such request) before any effect: hooks, sends, status or loader updates, cancel/terminate (default-deny escape)", 1)
	r2 := c.Rule("R2", "a peer filter exists: some function on the response path returns only elements appended under entry.p == p", 1)
	c09Rules(c, r1, r2)
	r3 := c.Rule("R3", "block hooks are run only by the request's own executor, with that request's peer and its own last response", 1)
	c09BlockHooks(c, r3)
}

// c09BlockHooks: who-may-call ProcessBlockHooks and with what.
func c09BlockHooks(c *engine.Ctx, rule string) {
	lastF := c.P.Field("requestmanager/executor", "RequestTask", "LastResponse")
	peerF := c.P.Field("requestmanager/executor", "RequestTask", "P")
	statusLast := c.P.Field("requestmanager", "inProgressRequestStatus", "lastResponse")
	statusPeer := c.P.Field("requestmanager", "inProgressRequestStatus", "p")
	if lastF == nil || peerF == nil || statusLast == nil || statusPeer == nil {
		c.AnchorMissing(rule, "executor.RequestTask{LastResponse,P} / inProgressRequestStatus{lastResponse,p}")
		return
	}
	n := 0
	for _, f := range c.P.SrcFuncs() {
		if !engine.IsShipped(engine.FuncPkgPath(f)) {
			continue
		}
		for _, ci := range engine.Calls(f) {
			if !ci.Common.IsInvoke() || ci.Common.Method.Name() != "ProcessBlockHooks" || !strings.HasSuffix(engine.FuncPkgPath(f), "/requestmanager/executor") && !strings.Contains(engine.FuncPkgPath(f), "/requestmanager") {
				continue
			}
			if strings.Contains(engine.FuncPkgPath(f), "/responsemanager") {
				continue
			}
			n++
			c.Analysed(engine.FuncName(f))
			inExec := engine.FuncPkgPath(f) == engine.Module+"/requestmanager/executor"
			// follow the (p, response) arguments to the caller that has the task
			okArgs := false
			if inExec {
				// the arguments are parameters of f; every call site of f passes rt.P and rt.LastResponse.Load()
				sites := 0
				okAll := true
				for _, g := range c.P.FuncsIn("requestmanager/executor") {
					for _, cj := range engine.Calls(g) {
						if cj.Static != f {
							continue
						}
						sites++
						pOK := fieldReadOf(cj.Arg(0)) == peerF
						rOK := false
						if ta, ok := engine.LocalValue(cj.Arg(1)).(*ssa.TypeAssert); ok {
							if ld, ok := ta.X.(*ssa.Call); ok && ld.Call.StaticCallee() != nil && ld.Call.StaticCallee().Name() == "Load" && fieldReadOf(ld.Call.Args[0]) == lastF {
								rOK = true
							}
						}
						if !pOK || !rOK {
							okAll = false
						}
					}
				}
				okArgs = sites > 0 && okAll
			}
			c.Decide(rule, engine.FuncName(f)+"|ProcessBlockHooks", ci.Instr.Pos(), inExec && okArgs,
				"block hooks run in the executor with the task's own peer and the task's own last response",
				"block hooks are run outside the request's executor, or with a peer / response that is not the task's own")
		}
	}
	if n == 0 {
		c.AnchorMissing(rule, "a ProcessBlockHooks call on the requestor side")
		return
	}
	// the task's peer and last-response slot come from the same table entry
	okTask := false
	for _, f := range c.P.FuncsIn("requestmanager") {
		var pBase, lBase ssa.Value
		for _, st := range engine.StoresTo([]*ssa.Function{f}, peerF) {
			if fl, b := engine.LoadedField(st.Val); fl == statusPeer {
				pBase = b
			}
		}
		for _, st := range engine.StoresTo([]*ssa.Function{f}, lastF) {
			if fa, ok := st.Val.(*ssa.FieldAddr); ok && engine.FieldOf(fa) == statusLast {
				lBase = fa.X
			}
		}
		if pBase != nil && lBase != nil && engine.SameValue(pBase, lBase) {
			okTask = true
			c.Hold(rule, engine.FuncName(f)+"|task-from-one-entry", f.Pos(), "the task's peer and last-response slot are taken from the same table entry")
		}
	}
	if !okTask {
		c.Violate(rule, "task-from-one-entry", token.NoPos, "the executor task's peer and last-response slot do not come from one table entry")
	}
}

// c09Rules evaluates the requestor-side peer-routing rules (also used as C01.R6).
func c09Rules(c *engine.Ctx, r1, r2 string) {
	table := c.P.Field("requestmanager", "RequestManager", "inProgressRequestStatuses")
	peerF := c.P.Field("requestmanager", "inProgressRequestStatus", "p")
	resp := c.P.NamedType("message", "GraphSyncResponse")
	if table == nil {
		c.AnchorMissing(r1, "requestmanager.RequestManager.inProgressRequestStatuses")
		return
	}
	if peerF == nil {
		c.AnchorMissing(r1, "requestmanager.inProgressRequestStatus.p")
		return
	}
	if resp == nil {
		c.AnchorMissing(r1, "message.GraphSyncResponse")
		return
	}
	roots := wireSources(c, "requestmanager", resp)
	if len(roots) == 0 {
		c.AnchorMissing(r1, "a load of a []message.GraphSyncResponse field in package requestmanager (wire entry point)")
		return
	}
	cfg := &engine.TaintCfg{P: c.P, Table: table, PeerField: peerF, DefaultDeny: true, AllowExternal: allowExternalObserver, Transparent: accessorPkg}
	for f, srcs := range roots {
		sum := cfg.AnalyzeRoot(f, srcs)
		reportTaint(c, r1, f, sum)
	}
	for n := range cfg.Analysed {
		c.Analysed(n)
	}
	if r2 == "" {
		return
	}
	// R2: existence of a sanitising filter reached from the root with tainted input and clean output.
	found := 0
	for _, f := range c.P.FuncsIn("requestmanager") {
		if len(f.Params) == 0 || f.Signature.Results().Len() != 1 {
			continue
		}
		rs, ok := f.Signature.Results().At(0).Type().Underlying().(*types.Slice)
		if !ok || !types.Identical(rs.Elem(), resp) {
			continue
		}
		var srcs []ssa.Value
		for _, p := range f.Params {
			if sl, ok := p.Type().Underlying().(*types.Slice); ok && types.Identical(sl.Elem(), resp) {
				srcs = append(srcs, p)
			}
		}
		if len(srcs) == 0 {
			continue
		}
		fcfg := &engine.TaintCfg{P: c.P, Table: table, PeerField: peerF, DefaultDeny: true, AllowExternal: allowExternalObserver, Transparent: accessorPkg}
		s := fcfg.AnalyzeRoot(f, srcs)
		if !s.RetTainted && len(s.Sinks) == 0 && len(s.Undecided) == 0 && touchesField(f, table) {
			found++
			c.Hold(r2, engine.FuncName(f), f.Pos(), "returns only elements appended under inProgressRequestStatuses[id].p == p (or none); performs no effect on unverified elements")
		}
	}
	if found == 0 {
		c.Violate(r2, "peer-filter", token.NoPos, "no function in requestmanager turns a wire response slice into one containing only responses whose request was sent to the sending peer")
	}
}

func touchesField(f *ssa.Function, field *types.Var) bool {
	found := false
	engine.Instrs(f, func(in ssa.Instruction) {
		if fa, ok := in.(*ssa.FieldAddr); ok && engine.FieldOf(fa) == field {
			found = true
		}
	})
	return found
}

// reportTaint turns a taint summary into instances: one per (function, effect class)
// on the violating side, or a single holds instance for the root.
func reportTaint(c *engine.Ctx, rule string, root *ssa.Function, sum *engine.TaintSummary) {
	if len(sum.Sinks) == 0 && len(sum.Undecided) == 0 {
		c.Hold(rule, engine.FuncName(root), root.Pos(), "no effect is reachable from this wire entry point through an unverified request ID")
		return
	}
	type agg struct {
		first engine.TaintSink
		n     int
		kinds []string
	}
	emit := func(list []engine.TaintSink, undecided bool) {
		groups := map[string]*agg{}
		var order []string
		for _, s := range list {
			class := s.Kind
			if i := strings.Index(class, ":"); i >= 0 {
				class = class[:i]
			}
			switch class {
			case "store-through-entry", "send-through-entry", "call-through-entry", "entry-escapes", "entry-passed", "entry-captured", "close-through-entry":
				class = "effect-through-unverified-entry"
			case "escape", "store-tainted":
				class = "unverified-value-escapes"
			}
			k := engine.FuncName(s.Fn) + "|" + class
			g := groups[k]
			if g == nil {
				g = &agg{first: s}
				groups[k] = g
				order = append(order, k)
			}
			g.n++
			if len(g.kinds) < 6 {
				g.kinds = append(g.kinds, fmt.Sprintf("%s@%s", s.Kind, c.P.Pos(s.Pos)))
			}
		}
		for _, k := range order {
			g := groups[k]
			reason := fmt.Sprintf("%s; %d site(s): %s (path: %s)", g.first.What, g.n, strings.Join(g.kinds, ", "), strings.Join(g.first.Chain, " -> "))
			if undecided {
				c.Undecided(rule, k, g.first.Pos, reason)
			} else {
				c.Violate(rule, k, g.first.Pos, reason)
			}
		}
	}
	emit(sum.Sinks, false)
	emit(sum.Undecided, true)
}
