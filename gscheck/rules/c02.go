package rules

import (
	"sort"
	"fmt"
	"go/token"
	"go/types"

	"golang.org/x/tools/go/ssa"

	"gscheck/engine"
)

func init() {
	register(&Property{
		Meta: engine.PropMeta{
			ID:    "C02",
			Title: "A single request retrieves every block that either peer can supply",
			Explanation: "Decides three structural clauses, not the equality with a reference traversal: (R1) remote bytes are returned to the traversal only after the store committer succeeded; " +
				"(R2) local fallback: whenever the remote load yields nothing (nil, nil) or the traversal is below a link the remote did not follow, or the loader is offline, the local loader is called for the same link before returning; " +
				"(R3) missing-block reporting: every failure of the local loader returns RemoteMissingBlockErr{Link: the requested link}; the executor forwards that error to the caller and lets the traversal skip the link (SkipMe) rather than abort; " +
				"the responder turns a loader error into SkipMe plus a metadata-only response for the link. " +
				"Not decided: order/exactness of delivered nodes over all DAG shapes and store splits; pathTracker's depth logic.",
			Assumptions: append([]string{"go-ipld-prime's traversal treats SkipMe as 'skip this subtree'"}, commonTrust...),
			Technique:   "guard dominance, must-reach on the CFG, value provenance of error constructions",
		},
		Run: runC02,
	})
}

func runC02(c *engine.Ctx) {
	r1 := c.Rule("R1", "remote bytes are delivered only after the committer succeeded", 1)
	r2 := c.Rule("R2", "local fallback on remote-nil, on an unfollowed remote path, and when offline", 1)
	r3 := c.Rule("R3", "local failures become RemoteMissingBlockErr{requested link}; executor reports and skips; responder skips and sends metadata only", 2)

	r5 := c.Rule("R5", "the 'still under a branch the responder did not follow' test is: a branch is recorded and the new path is strictly deeper (all length orderings)", 1)
	c02PathTracker(c, r5)

	// R1 via the C01.R4 walk
	c.Rule("R4aux", "(auxiliary) verify-before-write instances evaluated while deriving R1", 0)
	c01VerifyBeforeWrite(c, "R4aux", r1)

	rlPkg := "requestmanager/reconciledloader"
	// local loader: the function calling through StorageReadOpener
	var loadLocal *ssa.Function
	for _, f := range c.P.FuncsIn(rlPkg) {
		for _, ci := range engine.Calls(f) {
			if !ci.Common.IsInvoke() && ci.Common.StaticCallee() == nil && isStorageFuncType(ci.Common.Value.Type()) == "linking.BlockReadOpener" {
				loadLocal = f
			}
		}
	}
	var loadRemote *ssa.Function
	for _, f := range c.P.FuncsIn(rlPkg) {
		for _, ci := range engine.Calls(f) {
			if !ci.Common.IsInvoke() && ci.Common.StaticCallee() == nil && isStorageFuncType(ci.Common.Value.Type()) == "linking.BlockWriteOpener" {
				loadRemote = f
			}
		}
	}
	if loadLocal == nil || loadRemote == nil {
		c.AnchorMissing(r2, "the local loader (StorageReadOpener caller) / remote loader (StorageWriteOpener caller) in reconciledloader")
		return
	}
	c.Analysed(engine.FuncName(loadLocal), engine.FuncName(loadRemote))
	// the dispatcher: calls both
	for _, f := range c.P.FuncsIn(rlPkg) {
		var rcall *ssa.Call
		for _, ci := range engine.Calls(f) {
			if ci.Static == loadRemote {
				rcall = ci.Value()
			}
		}
		if rcall == nil {
			continue
		}
		c.Analysed(engine.FuncName(f))
		key := engine.FuncName(f)
		// same link handed to both
		sameLink := true
		for _, ci := range engine.Calls(f) {
			if ci.Static == loadLocal {
				if !engine.SameValue(ci.Arg(1), rcall.Call.Args[2]) {
					sameLink = false
				}
			}
		}
		// finite-domain evaluation of the dispatcher: the outcome of the wait for remote data, of the "still under a
		// branch the responder skipped" test and of the remote load are fixed in turn to every combination; whenever
		// the combination means "nothing usable came from the responder" every path must have called the local loader
		var waitCall, pathCall *ssa.Call
		var localCalls []*ssa.Call
		for _, ci := range engine.Calls(f) {
			call := ci.Value()
			if call == nil || ci.Static == nil {
				continue
			}
			if ci.Static == loadLocal {
				localCalls = append(localCalls, call)
				continue
			}
			res := ci.Static.Signature.Results()
			if res.Len() == 2 && res.At(0).Type().String() == "bool" && res.At(1).Type().String() == "error" && engine.FuncPkgPath(ci.Static) == engine.FuncPkgPath(f) {
				waitCall = call
			}
			if res.Len() == 1 && res.At(0).Type().String() == "bool" && engine.FuncPkgPath(ci.Static) == engine.FuncPkgPath(f) && ci.Static != loadRemote {
				pathCall = call
			}
		}
		if waitCall == nil || pathCall == nil || len(localCalls) == 0 {
			c.Undecided(r2, key+"|dispatch", f.Pos(), "cannot identify the wait-for-remote step, the unfollowed-branch test and the local load in the dispatcher")
			continue
		}
		isExtractOf := func(v ssa.Value, call *ssa.Call, idx int) bool {
			e, ok := v.(*ssa.Extract)
			return ok && e.Tuple == ssa.Value(call) && e.Index == idx
		}
		nilOrPtr := func(isNil bool, tok ssa.Value) engine.EVal {
			if isNil {
				return engine.EVal{K: engine.ENil}
			}
			return engine.EVal{K: engine.EPtr, Tok: tok}
		}
		bad := map[string]string{}
		nEval := 0
		for _, hasRemote := range []bool{true, false} {
			for _, unfollowed := range []bool{true, false} {
				for _, dataNil := range []bool{true, false} {
					for _, errNil := range []bool{true, false} {
						needLocal, label := false, ""
						switch {
						case !hasRemote:
							needLocal, label = true, "offline"
						case unfollowed:
							needLocal, label = true, "unfollowed-path"
						case dataNil && errNil:
							needLocal, label = true, "remote-nil"
						}
						if !needLocal {
							continue
						}
						nEval++
						missed := false
						ev := &engine.Evaluator{MaxVisits: 2}
						ev.Input = func(v ssa.Value) (engine.EVal, bool) {
							switch {
							case isExtractOf(v, waitCall, 0):
								return engine.EVal{K: engine.EBool, B: hasRemote}, true
							case isExtractOf(v, waitCall, 1):
								return engine.EVal{K: engine.ENil}, true
							case v == ssa.Value(pathCall):
								return engine.EVal{K: engine.EBool, B: unfollowed}, true
							case isExtractOf(v, rcall, 0):
								return nilOrPtr(dataNil, rcall), true
							case isExtractOf(v, rcall, 1):
								return nilOrPtr(errNil, rcall), true
							}
							return engine.EVal{}, false
						}
						ev.Call = func(call *ssa.Call, get func(ssa.Value) engine.EVal) (engine.EVal, bool) {
							for _, lc := range localCalls {
								if call == lc {
									return engine.EVal{K: engine.EPtr, Tok: lc}, true // executed marker
								}
							}
							return engine.EVal{}, false
						}
						ev.Observe = func(in ssa.Instruction, get func(ssa.Value) engine.EVal) {
							if _, ok := in.(*ssa.Return); ok {
								done := false
								for _, lc := range localCalls {
									if get(lc).K == engine.EPtr {
										done = true
									}
								}
								if !done {
									missed = true
								}
							}
						}
						ev.Run(f)
						if ev.Aborted || missed {
							bad[label] = fmt.Sprintf("with usable-remote=%v, under-a-skipped-branch=%v, remote data nil=%v, remote error nil=%v a path returns without consulting the local store", hasRemote, unfollowed, dataNil, errNil)
						}
					}
				}
			}
		}
		c.Decide(r2, key+"|remote-nil", rcall.Pos(), bad["remote-nil"] == "" && sameLink, "a remote load yielding (nil, nil) falls through to the local loader for the same link", "after a remote load that yielded neither data nor an error the local store is not tried: "+bad["remote-nil"])
		c.Decide(r2, key+"|unfollowed-path", rcall.Pos(), bad["unfollowed-path"] == "", "below a link the remote did not follow, the local loader is used", "when the path tracker says the remote did not follow this branch, the local store is not consulted: "+bad["unfollowed-path"])
		c.Decide(r2, key+"|offline", f.Pos(), bad["offline"] == "", "without usable remote data the local loader is used", "when no remote data is usable the local store is not consulted: "+bad["offline"])
	}

	// R3 (a) loadLocal failures
	errF := c.P.Field("requestmanager/types", "AsyncLoadResult", "Err")
	missT := c.P.NamedType("", "RemoteMissingBlockErr")
	if errF == nil || missT == nil {
		c.AnchorMissing(r3, "types.AsyncLoadResult.Err / graphsync.RemoteMissingBlockErr")
		return
	}
	var linkP *ssa.Parameter
	for _, p := range loadLocal.Params {
		if types.TypeString(types.Unalias(p.Type()), nil) == "github.com/ipld/go-ipld-prime/datamodel.Link" {
			linkP = p
		}
	}
	nErr := 0
	okErr := true
	for _, st := range engine.StoresTo([]*ssa.Function{loadLocal}, errF) {
		if engine.IsNilConst(st.Val) {
			continue
		}
		nErr++
		ev := engine.LocalValue(st.Val)
		if !types.Identical(ev.Type(), missT) {
			okErr = false
			continue
		}
		// Link field of the struct literal = link param
		lk := false
		if u, ok := ev.(*ssa.UnOp); ok {
			if al, ok := u.X.(*ssa.Alloc); ok {
				for _, r := range *al.Referrers() {
					if fa, ok := r.(*ssa.FieldAddr); ok && engine.FieldOf(fa).Name() == "Link" {
						for _, rr := range *fa.Referrers() {
							if s2, ok := rr.(*ssa.Store); ok && linkP != nil && engine.Strip(s2.Val) == ssa.Value(linkP) {
								lk = true
							}
						}
					}
				}
			}
		}
		if !lk {
			okErr = false
		}
	}
	// every failure branch (err != nil of a callee) ends in such a return
	failOK := true
	for _, b := range loadLocal.Blocks {
		ifi, ok := b.Instrs[len(b.Instrs)-1].(*ssa.If)
		if !ok {
			continue
		}
		bo, ok := ifi.Cond.(*ssa.BinOp)
		if !ok || bo.Op != token.NEQ || !engine.IsNilConst(bo.Y) || !isErrorType(bo.X.Type()) {
			continue
		}
		reach, _ := engine.MustReachFromBlock(b.Succs[0], func(in ssa.Instruction) bool {
			st, ok := in.(*ssa.Store)
			if !ok {
				return false
			}
			fa, ok := st.Addr.(*ssa.FieldAddr)
			return ok && engine.FieldOf(fa) == errF && !engine.IsNilConst(st.Val)
		}, nil)
		if !reach {
			failOK = false
		}
	}
	c.Decide(r3, engine.FuncName(loadLocal)+"|missing-block-error", loadLocal.Pos(), okErr && failOK && nErr >= 1,
		fmt.Sprintf("all %d failure results carry RemoteMissingBlockErr{Link: requested link}", nErr),
		"a local load failure is not reported as RemoteMissingBlockErr for the requested link (the requestor would abort or mis-report which block is missing)")

	// R3 (b) executor
	skipT := "github.com/ipld/go-ipld-prime/traversal.SkipMe"
	for _, f := range c.P.FuncsIn("requestmanager/executor") {
		for _, b := range f.Blocks {
			ifi, ok := b.Instrs[len(b.Instrs)-1].(*ssa.If)
			if !ok {
				continue
			}
			ex, ok := ifi.Cond.(*ssa.Extract)
			if !ok || ex.Index != 1 {
				continue
			}
			ta, ok := ex.Tuple.(*ssa.TypeAssert)
			if !ok || !types.Identical(ta.AssertedType, missT) {
				continue
			}
			// in the branch: Traverser.Error(SkipMe{})
			var errCall *ssa.Call
			for _, in := range b.Succs[0].Instrs {
				if cc, ok := in.(*ssa.Call); ok && cc.Call.IsInvoke() && cc.Call.Method.Name() == "Error" {
					errCall = cc
				}
			}
			if errCall == nil {
				continue // the other use of the assertion (deciding to go online)
			}
			c.Analysed(engine.FuncName(f))
			isSkip := false
			if types.TypeString(engine.LocalValue(errCall.Call.Args[0]).Type(), nil) == skipT {
				isSkip = true
			}
			c.Decide(r3, engine.FuncName(f)+"|missing=>SkipMe", errCall.Pos(), isSkip, "a missing block makes the traversal skip the link, not fail", "a missing block is not turned into traversal.SkipMe: the traversal aborts instead of continuing past the missing subtree")
			// the error was sent to the caller before: dominated by a select case sending the error
			sent := false
			for _, cd := range engine.BlockConds(b) {
				if bo, ok := cd.V.(*ssa.BinOp); ok {
					if e, ok := bo.X.(*ssa.Extract); ok {
						if sel, ok := e.Tuple.(*ssa.Select); ok {
							k, _ := engine.ConstInt(bo.Y)
							if int(k) < len(sel.States) && sel.States[k].Dir == types.SendOnly && cd.Pol == (bo.Op == token.EQL) {
								if fl := fieldReadOf(sel.States[k].Send); fl == errF {
									sent = true
								}
							}
						}
					}
				}
			}
			c.Decide(r3, engine.FuncName(f)+"|missing=>reported", errCall.Pos(), sent, "the missing-block error is sent on the caller's error channel first", "the missing-block error is not delivered to the caller before the traversal moves on")
		}
	}
	// R3 (c) responder
	qe := c.P.FuncsIn("responsemanager/queryexecutor")
	for _, f := range qe {
		for _, ci := range engine.Calls(f) {
			if ci.Common.IsInvoke() || ci.Common.StaticCallee() != nil || isStorageFuncType(ci.Common.Value.Type()) != "linking.BlockReadOpener" {
				continue
			}
			c.Analysed(engine.FuncName(f))
			call := ci.Value()
			errv := extractOf(call, 1)
			okSkip, okNil := false, false
			for _, b := range f.Blocks {
				if !engine.KnownNonNil(engine.BlockConds(b), errv) {
					continue
				}
				for _, in := range b.Instrs {
					if cc, ok := in.(*ssa.Call); ok && cc.Call.IsInvoke() && cc.Call.Method.Name() == "Error" {
						if types.TypeString(engine.LocalValue(cc.Call.Args[0]).Type(), nil) == skipT {
							okSkip = true
						}
					}
					if r, ok := in.(*ssa.Return); ok {
						if engine.IsNilConst(engine.ReturnValue(r, 0)) && engine.IsNilConst(engine.ReturnValue(r, 1)) {
							okNil = true
						}
					}
				}
			}
			c.Decide(r3, engine.FuncName(f)+"|responder-missing", ci.Instr.Pos(), okSkip && okNil,
				"a block the responder cannot load is skipped (SkipMe) and reported as (nil data, nil error) to the send step",
				fmt.Sprintf("responder load failure handling changed (SkipMe: %v, nil data with nil error: %v): the traversal aborts or the link is not reported missing", okSkip, okNil))
			// the caller sends a response for the same link with that data
			for _, g := range qe {
				for _, cj := range engine.Calls(g) {
					if cj.Static != f {
						continue
					}
					lcall := cj.Value()
					data := extractOf(lcall, 0)
					sends := false
					for _, ck := range engine.Calls(g) {
						if ck.Static == nil || ck.Static == f || !engine.Before(lcall, ck.Instr) {
							continue
						}
						hasData, hasLink := false, false
						for _, a := range ck.Common.Args {
							if data != nil && engine.Strip(a) == data {
								hasData = true
							}
							if engine.SameValue(a, lcall.Call.Args[3]) {
								hasLink = true
							}
						}
						if hasData && hasLink && errNilDominates(ck.Instr, lcall) {
							sends = true
						}
					}
					c.Decide(r3, engine.FuncName(g)+"|send-after-load", cj.Instr.Pos(), sends, "every load (present or missing) is followed by the send step for the same link and data", "a loaded/missing link is not handed to the send step with its data: the response's metadata would skip it")
				}
			}
		}
	}
}

// c02PathTracker (R5): whether the next link is looked for in the responder's stream or only locally is decided by
// pathTracker.stillOnUnfollowedRemotePath.  Selector traversal is depth-first, so "still under the branch the
// responder skipped" is exactly "deeper than the recorded path"; the function is evaluated in the finite domain
// with the two path lengths as inputs, and must be that function of them (anything computed from other sources —
// string forms, segment text — is unknown to the evaluator and so is refused).
func c02PathTracker(c *engine.Ctx, rule string) {
	rl := "requestmanager/reconciledloader"
	f := c.P.Func(rl, "pathTracker", "stillOnUnfollowedRemotePath")
	lastF := c.P.Field(rl, "pathTracker", "lastUnfollowedRemotePath")
	if f == nil || lastF == nil || len(f.Params) < 2 {
		c.AnchorMissing(rule, "reconciledloader.pathTracker.stillOnUnfollowedRemotePath / lastUnfollowedRemotePath")
		return
	}
	c.Analysed(engine.FuncName(f))
	newP := f.Params[1]
	lenOf := func(v ssa.Value) string { // "last" / "new" when v is <path>.Len()
		cc, ok := v.(*ssa.Call)
		if !ok {
			return ""
		}
		// len(path.Segments()) is the same quantity
		if bi, isB := cc.Call.Value.(*ssa.Builtin); isB && bi.Name() == "len" && len(cc.Call.Args) == 1 {
			if inner, isC := engine.LocalValue(cc.Call.Args[0]).(*ssa.Call); isC {
				if isc := inner.Call.StaticCallee(); isc != nil && isc.Name() == "Segments" && len(inner.Call.Args) == 1 {
					cc = inner
				}
			}
		}
		sc := cc.Call.StaticCallee()
		if sc == nil || (sc.Name() != "Len" && sc.Name() != "Segments") || len(cc.Call.Args) != 1 {
			return ""
		}
		recv := engine.LocalValue(cc.Call.Args[0])
		if fl, _ := engine.LoadedField(recv); fl == lastF {
			return "last"
		}
		if engine.Strip(recv) == ssa.Value(newP) {
			return "new"
		}
		return ""
	}
	bad := ""
	n := 0
	for last := int64(0); last <= 2 && bad == ""; last++ {
		for nw := int64(0); nw <= 3 && bad == ""; nw++ {
			results := map[string]bool{}
			ev := &engine.Evaluator{MaxVisits: 2}
			ev.Input = func(v ssa.Value) (engine.EVal, bool) {
				switch lenOf(v) {
				case "last":
					return engine.EVal{K: engine.EInt, I: last}, true
				case "new":
					return engine.EVal{K: engine.EInt, I: nw}, true
				}
				return engine.EVal{}, false
			}
			ev.Observe = func(in ssa.Instruction, get func(ssa.Value) engine.EVal) {
				if r, ok := in.(*ssa.Return); ok && len(r.Results) == 1 {
					v := get(r.Results[0])
					if v.K == engine.EBool {
						results[fmt.Sprint(v.B)] = true
					} else {
						results["unknown"] = true
					}
				}
			}
			ev.Run(f)
			n++
			want := fmt.Sprint(last != 0 && nw > last)
			if ev.Aborted || len(results) != 1 || !results[want] {
				var got []string
				for k := range results {
					got = append(got, k)
				}
				sort.Strings(got)
				bad = fmt.Sprintf("with a recorded path of length %d and a new path of length %d the test yields %v, expected %s (it must be: a branch is recorded and the new path is strictly deeper)", last, nw, got, want)
			}
		}
	}
	c.Decide(rule, engine.FuncName(f), f.Pos(), bad == "",
		fmt.Sprintf("over %d length pairs the test is exactly: recorded path non-empty and new path strictly deeper", n),
		"the test that keeps the requestor off the responder's stream while under a skipped branch is not a function of path depth alone: "+bad+" — siblings of the skipped branch can be mistaken for its descendants (their blocks are then never taken from the responder)")
}
