package rules

import (
	"fmt"
	"go/token"
	"go/types"

	"golang.org/x/tools/go/ssa"

	"gscheck/engine"
)

func init() {
	register(&Property{
		Meta: engine.PropMeta{
			ID:    "C05",
			Title: "Every incoming request is eventually fully retired by the responder",
			Explanation: "Decides the cleanup and notification structure, not exactly-once over histories: (R1) entries leave the response table in exactly one function, which also releases the connection protection for the entry's peer and the request's tag, cancels the response's context and ends its span, on every path past the lookup; " +
				"(R2) every Protect is followed on all paths by storing the new response under the same request ID with the same peer (so R1 can undo it); " +
				"(R3) one outcome per terminate site: each call of the retire function from a handler that has the executor's error is under 'context-cancel' (paired with the cancelled listeners, which are notified nowhere else) or under 'network error' (whose listener lives in the subscriber); " +
				"(R4) the message subscriber terminates the request exactly when the message's response code is terminal, on both the Sent and the Error event, always closes with a network error on Error, and notifies completed listeners only on Sent+terminal; " +
				"(R5) a new response is stored only where no live entry exists for its ID. Not decided: eventual retirement and exactly-once notification under races between executor, loop and queue notifications.",
			Assumptions: append([]string{"handlers run one at a time on the response manager's loop goroutine"}, commonTrust...),
			Technique:   "who-may-delete ownership, must-reach pairing, guard dominance per call site",
		},
		Run: runC05,
	})
}

func runC05(c *engine.Ctx) {
	r1 := c.Rule("R1", "single retire function: deletes the entry, unprotects (entry.peer, id.Tag()), cancels the context, ends the span", 1)
	r2 := c.Rule("R2", "every Protect is followed on all paths by storing the response under the same ID and peer", 1)
	r3 := c.Rule("R3", "each retire call in an executor-error handler is under context-cancel (with the cancelled listeners) or network-error; cancelled listeners only there", 2)
	r4 := c.Rule("R4", "subscriber: terminate iff terminal code (Sent and Error); CloseWithNetworkError on every Error; completed listeners on Sent+terminal", 2)
	r5 := c.Rule("R5", "a response is stored only where no live entry exists for its ID", 1)
	// the subscriber (R4) retires a request when the message carrying its final status is reported sent or failed:
	// that report must exist for every message taken off a queue (the per-message obligation of C15.R3 / C16.R1)
	r8 := c.Rule("R8", "every popped task is released exactly once, whatever became of its request (C21.R4): a leaked active task keeps the retired request in the peer's reported state and starves the peer", 2)
	c21Release(c, r8, c.P.FuncsIn("taskqueue"))
	r7 := c.Rule("R7", "a handler that queues a final status for a response it holds marks the response CompletingSend (so nothing else is done with it while the status goes out)", 1)
	c05FinalStatusMarks(c, r7)
	r6 := c.Rule("R6", "every message taken off a peer's queue is reported sent or failed exactly once (the event R4's retirement waits for)", 2)
	if m := loadMQ(c, r6); m.ok {
		c15Reports(c, r6, m)
	}

	m := loadMgr(c, r1, "responsemanager")
	if m == nil {
		return
	}
	peerF := c.P.Field("responsemanager", "inProgressResponseStatus", "peer")
	cancelF := c.P.Field("responsemanager", "inProgressResponseStatus", "cancelFn")
	spanF := c.P.Field("responsemanager", "inProgressResponseStatus", "span")
	if peerF == nil || cancelF == nil || spanF == nil {
		c.AnchorMissing(r1, "inProgressResponseStatus{peer,cancelFn,span}")
		return
	}
	// R1
	var retire *ssa.Function
	nDel := 0
	for _, f := range m.fns {
		dels := engine.MapDeletesOfField([]*ssa.Function{f}, m.table)
		if len(dels) == 0 {
			continue
		}
		nDel++
		retire = f
		c.Analysed(engine.FuncName(f))
		del := dels[0]
		var unprot, cancel, end bool
		for _, ci := range engine.Calls(f) {
			switch {
			case ci.Common.IsInvoke() && ci.Common.Method.Name() == "Unprotect":
				okPeer := fieldReadOf(ci.Common.Args[0]) == peerF
				okTag := false
				if tc, ok := engine.LocalValue(ci.Common.Args[1]).(*ssa.Call); ok && tc.Call.StaticCallee() != nil && tc.Call.StaticCallee().Name() == "Tag" && engine.SameValue(tc.Call.Args[0], del.Call.Args[1]) {
					okTag = true
				}
				if okPeer && okTag && sameRegion(ci.Instr, del) {
					unprot = true
				}
			case !ci.Common.IsInvoke() && ci.Static == nil && fieldReadOf(ci.Common.Value) == cancelF:
				if sameRegion(ci.Instr, del) {
					cancel = true
				}
			case ci.Common.IsInvoke() && ci.Common.Method.Name() == "End" && fieldReadOf(ci.Common.Value) == spanF:
				if sameRegion(ci.Instr, del) {
					end = true
				}
			}
		}
		c.Decide(r1, engine.FuncName(f), del.Pos(), unprot && cancel && end,
			"retiring an entry deletes it, unprotects (entry.peer, id.Tag()), cancels its context and ends its span",
			fmt.Sprintf("the retire function does not do all of: Unprotect(entry.peer, id.Tag()) %v, cancelFn() %v, span.End() %v — connection protection or per-response resources outlive the response", unprot, cancel, end))
	}
	if nDel != 1 {
		c.Violate(r1, "who-may-delete", token.NoPos, fmt.Sprintf("%d functions delete from the response table (expected exactly one retire function)", nDel))
		return
	}

	// R2
	for _, f := range m.fns {
		for _, ci := range engine.Calls(f) {
			if !ci.Common.IsInvoke() || ci.Common.Method.Name() != "Protect" {
				continue
			}
			c.Analysed(engine.FuncName(f))
			p := ci.Common.Args[0]
			var idv ssa.Value
			if tc, ok := engine.LocalValue(ci.Common.Args[1]).(*ssa.Call); ok && tc.Call.StaticCallee() != nil && tc.Call.StaticCallee().Name() == "Tag" {
				idv = tc.Call.Args[0]
			}
			stored := false
			samePeer := false
			for _, mu := range engine.MapUpdatesOfField([]*ssa.Function{f}, m.table) {
				if idv == nil || !sameIDExpr(mu.Key, idv) {
					continue
				}
				if r, _ := engine.MustReachBeforeReturn(ci.Instr, func(in ssa.Instruction) bool { return in == ssa.Instruction(mu) }, nil); r {
					stored = true
				}
				// the stored entry's peer field is p
				if al, ok := engine.Strip(mu.Value).(*ssa.Alloc); ok {
					for _, st := range engine.StoresTo([]*ssa.Function{f}, peerF) {
						if st.Addr.(*ssa.FieldAddr).X == ssa.Value(al) && engine.SameValue(st.Val, p) {
							samePeer = true
						}
					}
				}
			}
			c.Decide(r2, engine.FuncName(f)+"|Protect", ci.Instr.Pos(), stored && samePeer,
				"Protect(p, id.Tag()) is always followed by inProgressResponses[id] = response{peer: p}",
				fmt.Sprintf("a connection is protected without the response being recorded under the same ID and peer on every path (stored: %v, same peer: %v): the protection is never released", stored, samePeer))
		}
	}

	// R3
	isCtxCancel := func(cd engine.Cond) bool {
		call, ok := cd.V.(*ssa.Call)
		return ok && cd.Pol && call.Call.StaticCallee() != nil && call.Call.StaticCallee().Name() == "IsContextCancelErr"
	}
	netErrK, _ := c.P.TypesPkg("responsemanager/queryexecutor").Scope().Lookup("ErrNetworkError").(*types.Const)
	isNetErr := func(cd engine.Cond) bool {
		e, ok := cd.AsEq()
		if !ok || !e.Equal || netErrK == nil {
			return false
		}
		for _, s := range []ssa.Value{e.X, e.Y} {
			if k, ok := engine.Strip(s).(*ssa.Const); ok && k.Value != nil && k.Value.Kind() == netErrK.Val().Kind() && types.Identical(k.Type(), netErrK.Type()) && k.Value.ExactString() == netErrK.Val().ExactString() {
				return true
			}
		}
		return false
	}
	// the same question put to the evaluator (used when the dominance form below does not recognise the shape): with
	// "cancelled by the requestor" and "network error" fixed to each combination, every path that retires the response
	// is a cancel path that also notifies the cancelled listeners, or a network-error path that does not; and the
	// listeners are never notified otherwise
	retireEval := func(f *ssa.Function) bool {
		var errP *ssa.Parameter
		for _, p := range f.Params {
			if isErrorType(p.Type()) {
				errP = p
			}
		}
		if errP == nil || netErrK == nil {
			return false
		}
		var retires, notifies []*ssa.Call
		for _, ci := range engine.Calls(f) {
			if call := ci.Value(); call != nil {
				if ci.Static == retire {
					retires = append(retires, call)
				}
				if ci.Common.IsInvoke() && ci.Common.Method.Name() == "NotifyCancelledListeners" {
					notifies = append(notifies, call)
				}
			}
		}
		isNetConst := func(v ssa.Value) bool {
			k, ok := engine.Strip(v).(*ssa.Const)
			return ok && k.Value != nil && k.Value.Kind() == netErrK.Val().Kind() && types.Identical(k.Type(), netErrK.Type()) && k.Value.ExactString() == netErrK.Val().ExactString()
		}
		okAll := true
		for _, cancelled := range []bool{true, false} {
			for _, netErr := range []bool{true, false} {
				if cancelled && netErr {
					continue
				}
				ev := &engine.Evaluator{MaxVisits: 2}
				ev.Input = func(v ssa.Value) (engine.EVal, bool) {
					switch x := v.(type) {
					case *ssa.Call:
						if sc := x.Call.StaticCallee(); sc != nil {
							if sc.Name() == "IsContextCancelErr" && len(x.Call.Args) == 1 && engine.Strip(x.Call.Args[0]) == ssa.Value(errP) {
								return engine.EVal{K: engine.EBool, B: cancelled}, true
							}
							if sc.Name() == "Is" && len(x.Call.Args) == 2 && engine.Strip(x.Call.Args[0]) == ssa.Value(errP) && isNetConst(x.Call.Args[1]) {
								return engine.EVal{K: engine.EBool, B: netErr}, true
							}
						}
					case *ssa.BinOp:
						if (x.Op == token.EQL || x.Op == token.NEQ) && ((engine.Strip(x.X) == ssa.Value(errP) && isNetConst(x.Y)) || (engine.Strip(x.Y) == ssa.Value(errP) && isNetConst(x.X))) {
							return engine.EVal{K: engine.EBool, B: netErr == (x.Op == token.EQL)}, true
						}
					}
					return engine.EVal{}, false
				}
				ev.Call = func(call *ssa.Call, get func(ssa.Value) engine.EVal) (engine.EVal, bool) {
					for _, r := range append(append([]*ssa.Call{}, retires...), notifies...) {
						if call == r {
							return engine.EVal{K: engine.EPtr, Tok: r}, true // executed marker
						}
					}
					return engine.EVal{}, false
				}
				ev.Observe = func(in ssa.Instruction, get func(ssa.Value) engine.EVal) {
					if _, isRet := in.(*ssa.Return); !isRet {
						return
					}
					retired, notified := false, false
					for _, r := range retires {
						if get(r).K == engine.EPtr {
							retired = true
						}
					}
					for _, n := range notifies {
						if get(n).K == engine.EPtr {
							notified = true
						}
					}
					switch {
					case cancelled:
						if retired != notified {
							okAll = false
						}
					case netErr:
						if notified {
							okAll = false
						}
					default:
						if retired || notified {
							okAll = false
						}
					}
				}
				ev.Run(f)
				if ev.Aborted {
					okAll = false
				}
			}
		}
		return okAll && len(retires) > 0
	}
	for _, f := range m.fns {
		hasErrParam := false
		for _, p := range f.Params {
			if isErrorType(p.Type()) {
				hasErrParam = true
			}
		}
		evalOK, evalDone := false, false
		byEval := func() bool {
			if !evalDone {
				evalOK, evalDone = retireEval(f), true
			}
			return evalOK
		}
		for _, ci := range engine.Calls(f) {
			if ci.Static == retire && hasErrParam {
				cc, ne := false, false
				for _, cd := range engine.InstrConds(ci.Instr) {
					if isCtxCancel(cd) {
						cc = true
					}
					if isNetErr(cd) {
						ne = true
					}
				}
				paired := false
				if cc {
					for _, cj := range engine.Calls(f) {
						if cj.Common.IsInvoke() && cj.Common.Method.Name() == "NotifyCancelledListeners" && cj.Instr.Block() == ci.Instr.Block() {
							paired = true
						}
					}
				}
				okRetire := (cc && paired) || (ne && !cc)
				if !okRetire && byEval() {
					okRetire = true
				}
				c.Decide(r3, engine.FuncName(f)+"|retire@"+condName(cc, ne), ci.Instr.Pos(), okRetire,
					"retire under context-cancel notifies the cancelled listeners; under network error the subscriber's listener reports it",
					"a response is retired from an executor-error handler on a path that is neither 'cancelled by the requestor' (with the cancelled listeners) nor 'network error': it ends without any outcome being reported")
			}
			if ci.Common.IsInvoke() && ci.Common.Method.Name() == "NotifyCancelledListeners" {
				under := false
				for _, cd := range engine.InstrConds(ci.Instr) {
					if isCtxCancel(cd) {
						under = true
					}
				}
				hasRetire := false
				for _, cj := range engine.Calls(f) {
					if cj.Static == retire && cj.Instr.Block() == ci.Instr.Block() {
						hasRetire = true
					}
				}
				c.Decide(r3, engine.FuncName(f)+"|cancelled-listeners", ci.Instr.Pos(), (under && hasRetire) || byEval(),
					"cancelled listeners are notified only for a requestor cancel, together with retiring the response",
					"cancelled listeners are notified on a path that is not a requestor cancel, or without retiring the response")
			}
		}
	}

	// R4 subscriber
	sub := c.P.Func("responsemanager", "subscriber", "OnNext")
	if sub == nil {
		c.AnchorMissing(r4, "responsemanager.subscriber.OnNext")
	} else {
		c.Analysed(engine.FuncName(sub))
		evName := c.P.Field("messagequeue", "Event", "Name")
		sentV, _ := constOf(c, "messagequeue", "Sent")
		errV, _ := constOf(c, "messagequeue", "Error")
		branchOf := func(in ssa.Instruction) string {
			for _, cd := range engine.InstrConds(in) {
				if e, ok := cd.AsEq(); ok && e.Equal && fieldReadOf(e.X) == evName {
					if k, ok := engine.ConstInt(e.Y); ok {
						if k == sentV {
							return "Sent"
						}
						if k == errV {
							return "Error"
						}
					}
				}
			}
			return ""
		}
		underTerminal := func(in ssa.Instruction) bool {
			for _, cd := range engine.InstrConds(in) {
				if call, ok := cd.V.(*ssa.Call); ok && cd.Pol && call.Call.StaticCallee() != nil && call.Call.StaticCallee().Name() == "IsTerminal" {
					return true
				}
			}
			return false
		}
		seen := map[string]bool{}
		for _, ci := range engine.Calls(sub) {
			if !ci.Common.IsInvoke() {
				continue
			}
			br := branchOf(ci.Instr)
			switch ci.Common.Method.Name() {
			case "TerminateRequest":
				seen["terminate-"+br] = true
				c.Decide(r4, "terminate-on-"+br, ci.Instr.Pos(), underTerminal(ci.Instr) && br != "", "terminates the request exactly when the message carried a terminal status", "the request is terminated for a message that does not carry a terminal status (or outside the Sent/Error branches)")
			case "CloseWithNetworkError":
				seen["close-"+br] = true
				c.Decide(r4, "close-on-Error", ci.Instr.Pos(), br == "Error" && !underTerminal(ci.Instr), "every failed message closes the request with a network error", "CloseWithNetworkError is not tied to every Error event")
			case "NotifyCompletedListeners":
				seen["completed-"+br] = true
				c.Decide(r4, "completed-on-Sent", ci.Instr.Pos(), br == "Sent" && underTerminal(ci.Instr), "completed listeners fire only when the terminal status was actually sent", "completed listeners fire outside 'terminal status sent'")
			}
		}
		for _, need := range []string{"terminate-Sent", "terminate-Error", "close-Error", "completed-Sent"} {
			if !seen[need] {
				c.Violate(r4, need, sub.Pos(), "the subscriber no longer performs "+need+": requests are never retired / reported on that event")
			}
		}
	}

	// R5
	for _, f := range m.fns {
		for _, mu := range engine.MapUpdatesOfField([]*ssa.Function{f}, m.table) {
			absent := false
			for _, cd := range engine.InstrConds(mu) {
				if ex, ok := cd.V.(*ssa.Extract); ok && ex.Index == 1 && !cd.Pol {
					if lk, ok := ex.Tuple.(*ssa.Lookup); ok && isLoadOfField(lk.X, m.table) && sameIDExpr(lk.Index, mu.Key) {
						absent = true
					}
				}
			}
			c.Decide(r5, engine.FuncName(f)+"|store-response", mu.Pos(), absent,
				"a response is stored only when the table has no entry for its ID",
				"a new request whose ID is already in the table replaces the live entry without retiring it (same-peer re-request after pause/cancel): the old executor's finish then retires the new entry, and the new request is never served or reported")
		}
	}
}

func condName(cc, ne bool) string {
	switch {
	case cc:
		return "context-cancel"
	case ne:
		return "network-error"
	}
	return "other"
}

// sameRegion: a and b execute on the same paths (same block, or one dominates the other with no return in between).
func sameRegion(a, b ssa.Instruction) bool {
	if a.Block() == b.Block() {
		return true
	}
	if engine.Before(a, b) {
		r, _ := engine.MustReachBeforeReturn(a, func(in ssa.Instruction) bool { return in == b }, nil)
		return r
	}
	if engine.Before(b, a) {
		r, _ := engine.MustReachBeforeReturn(b, func(in ssa.Instruction) bool { return in == a }, nil)
		return r
	}
	return false
}

// sameIDExpr: two request-ID expressions denote the same ID: same value, or both are x.ID() of the same x.
func sameIDExpr(a, b ssa.Value) bool {
	if engine.SameValue(a, b) {
		return true
	}
	ca, ok1 := engine.LocalValue(a).(*ssa.Call)
	cb, ok2 := engine.LocalValue(b).(*ssa.Call)
	if ok1 && ok2 && ca.Call.StaticCallee() != nil && ca.Call.StaticCallee() == cb.Call.StaticCallee() && len(ca.Call.Args) == 1 && len(cb.Call.Args) == 1 {
		return engine.SameValue(ca.Call.Args[0], cb.Call.Args[0])
	}
	return false
}

// c05FinalStatusMarks (R7): between queuing the final status and its being sent the entry is still in the table; only
// the CompletingSend state keeps cancels, updates, unpauses and pauses from acting on it (they all test for it), so
// that the request has exactly one outcome.
func c05FinalStatusMarks(c *engine.Ctx, rule string) {
	m := loadMgr(c, rule, "responsemanager")
	if m == nil {
		return
	}
	n := 0
	for _, f := range m.fns {
		if f.Parent() != nil {
			continue
		}
		// does f have the entry in hand?
		touches := false
		engine.Instrs(f, func(in ssa.Instruction) {
			if fa, ok := in.(*ssa.FieldAddr); ok && engine.FieldOf(fa) == m.state {
				touches = true
			}
		})
		if !touches {
			continue
		}
		for _, ci := range engine.Calls(f) {
			if !ci.Common.IsInvoke() || ci.Common.Method.Name() != "Transaction" {
				continue
			}
			lit := resolveFuncValue(ci.Common.Args[0])
			if lit == nil {
				continue
			}
			finishes := false
			for _, g := range engine.WithClosures(lit) {
				for _, cj := range engine.Calls(g) {
					if cj.Common.IsInvoke() && (cj.Common.Method.Name() == "FinishWithError" || cj.Common.Method.Name() == "FinishRequest") {
						finishes = true
					}
				}
			}
			if !finishes {
				continue
			}
			n++
			marked := false
			for _, s := range m.stateStores() {
				if s.st.Parent() != f || s.name != "CompletingSend" {
					continue
				}
				after, _ := engine.CanReach(ci.Instr, func(in ssa.Instruction) bool { return in == ssa.Instruction(s.st) }, nil)
				if engine.Before(s.st, ci.Instr) || after {
					marked = true
				}
			}
			c.Decide(rule, engine.FuncName(f)+"|final-status-marks-completing", ci.Instr.Pos(), marked,
				"the response is marked CompletingSend where its final status is queued",
				"a final status is queued for a response that is left in its old state: until the message has gone out the response still accepts cancels, updates and unpauses, and the request ends with two outcomes (e.g. cancelled and completed)")
		}
	}
	if n == 0 {
		c.AnchorMissing(rule, "a responsemanager handler that queues a final status for an entry it holds")
	}
}
