package rules

import (
	"fmt"
	"go/token"

	"golang.org/x/tools/go/ssa"

	"gscheck/engine"
)

// checkHashBinding (C01.R1 / C12.R2): every block the decoder hands to
// message.NewMessage is keyed by the CID computed from that block's own bytes.
func checkHashBinding(c *engine.Ctx, rule string) {
	newMsg := c.P.Func("message", "", "NewMessage")
	if newMsg == nil {
		c.AnchorMissing(rule, "message.NewMessage")
		return
	}
	n := 0
	for _, f := range c.P.FuncsIn("message/v2") {
		for _, ci := range engine.Calls(f) {
			if ci.Static != newMsg {
				continue
			}
			// the blocks map argument
			blkMap := engine.LocalValue(ci.Arg(2))
			// collect all MapUpdates whose map may be this value (phi of nil and make)
			maps := map[ssa.Value]bool{}
			var collect func(v ssa.Value)
			collect = func(v ssa.Value) {
				v = engine.Strip(v)
				if maps[v] {
					return
				}
				maps[v] = true
				if ph, ok := v.(*ssa.Phi); ok {
					for _, e := range ph.Edges {
						collect(e)
					}
				}
			}
			collect(blkMap)
			updates := 0
			engine.Instrs(f, func(in ssa.Instruction) {
				mu, ok := in.(*ssa.MapUpdate)
				if !ok || !maps[engine.Strip(mu.Map)] {
					return
				}
				updates++
				n++
				key := engine.FuncName(f) + "|block-map-update"
				ok2, why := blockBoundToOwnHash(mu)
				c.Decide(rule, key, mu.Pos(), ok2, "block stored under Prefix.Sum(its own bytes), Sum error checked, key is that block's CID", why)
			})
			if updates == 0 && !engine.IsNilConst(blkMap) {
				c.Undecided(rule, engine.FuncName(f)+"|block-map", ci.Instr.Pos(), "cannot find the writes to the block map given to NewMessage")
				n++
			}
		}
	}
	if n == 0 {
		c.AnchorMissing(rule, "a call of message.NewMessage in message/v2 with a block map")
	}
}

func blockBoundToOwnHash(mu *ssa.MapUpdate) (bool, string) {
	// value: block = Extract#0 of NewBlockWithCid(d, cidv)
	val := engine.LocalValue(mu.Value)
	orig := val
	// a result assembled in a variable (nil on the error paths, the block otherwise): take the one non-nil source
	if _, isPhi := val.(*ssa.Phi); isPhi {
		var srcs []ssa.Value
		for _, o := range engine.ValueOutcomes(val, mu.Block()) {
			if engine.IsNilConst(o.V) {
				continue
			}
			srcs = append(srcs, engine.LocalValue(o.V))
		}
		if len(srcs) == 1 {
			val = srcs[0]
		}
	}
	ex, ok := val.(*ssa.Extract)
	if !ok || ex.Index != 0 {
		return false, "the block stored is not the result of blocks.NewBlockWithCid"
	}
	nb, ok := ex.Tuple.(*ssa.Call)
	if !ok || !(engine.Resolve(nb).Is("github.com/ipfs/go-block-format.NewBlockWithCid")) {
		return false, "the block stored is not the result of blocks.NewBlockWithCid"
	}
	d := nb.Call.Args[0]
	cidv := engine.LocalValue(nb.Call.Args[1])
	cex, ok := cidv.(*ssa.Extract)
	if !ok || cex.Index != 0 {
		return false, "the CID given to NewBlockWithCid is not the result of Prefix.Sum"
	}
	sum, ok := cex.Tuple.(*ssa.Call)
	if !ok || !engine.Resolve(sum).Is("github.com/ipfs/go-cid.Prefix.Sum") {
		return false, "the CID given to NewBlockWithCid is not computed by cid.Prefix.Sum: " + cidv.String()
	}
	sumArg := sum.Call.Args[len(sum.Call.Args)-1]
	if !engine.SameValue(d, sumArg) {
		return false, fmt.Sprintf("Prefix.Sum hashes %s but the block's bytes are %s: the CID is not computed from the block's own data", engine.Path(sumArg), engine.Path(d))
	}
	// Sum error checked before the block is built
	if !errNilDominates(nb, sum) {
		return false, "the error of Prefix.Sum is not checked before the block is built"
	}
	// key: blk.Cid() of the same block, or the computed cid
	key := engine.LocalValue(mu.Key)
	keyOK := key == cidv
	if kc, ok := key.(*ssa.Call); ok {
		ki := engine.Resolve(kc)
		r := ki.Recv()
		if u, ok := r.(*ssa.UnOp); ok && u.Op == token.MUL {
			r = u.X // value receiver: (*blk).Cid()
		}
		if r != nil && (engine.LocalValue(r) == val || engine.LocalValue(r) == orig) {
			if (kc.Call.IsInvoke() && kc.Call.Method.Name() == "Cid") || (ki.Static != nil && ki.Static.Name() == "Cid") {
				keyOK = true
			}
		}
	}
	if !keyOK {
		return false, "the block map key is neither the computed CID nor the stored block's own Cid()"
	}
	return true, ""
}

// errNilDominates: `at` is dominated by (err == nil) where err is result #last of call.
func errNilDominates(at ssa.Instruction, call *ssa.Call) bool {
	for _, cond := range engine.InstrConds(at) {
		e, ok := cond.AsEq()
		if !ok || !e.Equal {
			continue
		}
		var other ssa.Value
		if engine.IsNilConst(e.Y) {
			other = e.X
		} else if engine.IsNilConst(e.X) {
			other = e.Y
		} else {
			continue
		}
		other = engine.LocalValue(other)
		// every way `other` can be nil is the call's own error result
		leaves := engine.NilLeaves(other)
		all := len(leaves) > 0
		for _, l := range leaves {
			if ex, ok := l.(*ssa.Extract); ok && ex.Tuple == call {
				continue
			}
			if l == ssa.Value(call) {
				continue
			}
			all = false
		}
		if all {
			return true
		}
	}
	return false
}

var _ = token.NoPos
