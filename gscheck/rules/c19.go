package rules

import (
	"sort"
	"fmt"
	"go/token"
	"go/types"

	"golang.org/x/tools/go/ssa"

	"gscheck/engine"
)

func init() {
	register(&Property{
		Meta: engine.PropMeta{
			ID:    "C19",
			Title: "Responder sends each block at most once per peer while it is in use",
			Explanation: "Decides: (R1) every increment of the per-link in-progress counter is paired with an append of the same link to the request's list, and finishing decrements once per list element and deletes at <= 0; " +
				"(R2) every per-request map in the link tracker and in the per-peer tracker is deleted on every path of the finish operation (exhaustive over the struct's fields keyed by RequestID); " +
				"(R3) a dedup-key tracker is dropped exactly when no other request holds its key (own key removed first), and the tracker used for a request is selected by that request's key; " +
				"(R4) 'has all blocks' is the negation of 'has a missing-blocks entry' read before the entry is deleted, and a missing entry is created exactly when a link is recorded without its block; " +
				"(R5) the send decision is the conjunction of exactly: block present, past the skip count (compared after the per-request counter is incremented), and not already in use (reference count read before this traversal is recorded); " +
				"(R6) all tracker state is accessed under the tracker lock. Not decided: counts over all interleavings of traversals and completions.",
			Assumptions: commonTrust,
			Technique:   "pairing and exhaustiveness over struct fields, phi-shape analysis of the send decision, ordering by dominance, lock-set analysis",
		},
		Run: runC19,
	})
}

func mapKeyedByRequestID(f *types.Var) bool {
	m, ok := f.Type().Underlying().(*types.Map)
	if !ok {
		return false
	}
	return engine.IsNamed(m.Key(), "~", "RequestID") || types.TypeString(m.Key(), nil) == engine.Module+".RequestID"
}

func runC19(c *engine.Ctx) {
	r1 := c.Rule("R1", "per-link counter increments are paired with list appends of the same link; finish decrements per list element and deletes at <= 0", 1)
	r2 := c.Rule("R2", "every per-request map is deleted on every path of the finish operation", 3)
	r3 := c.Rule("R3", "dedup tracker dropped exactly when no other request holds its key; tracker selected by the request's key", 1)
	r4 := c.Rule("R4", "complete-full iff no missing-blocks entry (read before delete); missing entry created exactly when the block is absent", 1)
	r5 := c.Rule("R5", "send decision = present AND past skip count (post-increment) AND reference count zero (pre-record)", 1)
	r6 := c.Rule("R6", "tracker state only accessed under linkTrackerLk", 4)
	r7 := c.Rule("R7", "a response retired without a final message releases its link tracking first, unconditionally", 1)
	r8 := c.Rule("R8", "extension wiring on the responder: the dedup key is applied before the ignore list and skip count are recorded (C03.R6)", 2)
	c03Extensions(c, r8)
	checkClearBeforeTerminate(c, r7)

	ltType := c.P.NamedType("linktracker", "LinkTracker")
	pltType := c.P.NamedType("responsemanager/responseassembler", "peerLinkTracker")
	if ltType == nil || pltType == nil {
		c.AnchorMissing(r1, "linktracker.LinkTracker / responseassembler.peerLinkTracker")
		return
	}
	ltFns := c.P.FuncsIn("linktracker")
	raFns := c.P.FuncsIn("responsemanager/responseassembler")
	counter := c.P.Field("linktracker", "LinkTracker", "traversalsWithBlocksInProgress")
	list := c.P.Field("linktracker", "LinkTracker", "linksWithBlocksTraversedByRequest")
	missing := c.P.Field("linktracker", "LinkTracker", "missingBlocks")
	if counter == nil || list == nil || missing == nil {
		c.AnchorMissing(r1, "linktracker.LinkTracker fields")
		return
	}

	// ---- R1
	nInc := 0
	var finishLT *ssa.Function
	for _, f := range ltFns {
		for _, mu := range engine.MapUpdatesOfField([]*ssa.Function{f}, counter) {
			b, ok := mu.Value.(*ssa.BinOp)
			if !ok {
				continue
			}
			k, _ := engine.ConstInt(b.Y)
			if b.Op == token.ADD && k == 1 {
				nInc++
				c.Analysed(engine.FuncName(f))
				// same-block append of the same link
				paired := false
				for _, mu2 := range engine.MapUpdatesOfField([]*ssa.Function{f}, list) {
					if mu2.Block() != mu.Block() {
						continue
					}
					if call, ok := mu2.Value.(*ssa.Call); ok {
						if bi, ok := call.Call.Value.(*ssa.Builtin); ok && bi.Name() == "append" && appendsValue(call, mu.Key) {
							paired = true
						}
					}
				}
				c.Decide(r1, engine.FuncName(f)+"|inc-paired-with-append", mu.Pos(), paired,
					"counter[link]++ and list[request] = append(..., link) happen together",
					"the per-link in-progress counter is incremented without appending the link to the request's list: the count is never taken back when the request finishes and the block is never sent to this peer again")
			}
			if b.Op == token.SUB && k == 1 {
				finishLT = f
				// decrement loop ranges over list[requestID]
				overList := false
				if ex, ok := engine.Strip(mu.Key).(*ssa.UnOp); ok {
					_ = ex
				}
				engine.Instrs(f, func(in ssa.Instruction) {
					if lk, ok := in.(*ssa.Lookup); ok && isLoadOfField(lk.X, list) {
						overList = true
					}
				})
				// delete at <= 0
				delOK := false
				for _, d := range engine.MapDeletesOfField([]*ssa.Function{f}, counter) {
					for _, cd := range engine.InstrConds(d) {
						if bo, ok := cd.V.(*ssa.BinOp); ok && cd.Pol && (bo.Op == token.LEQ || bo.Op == token.EQL || bo.Op == token.LSS) {
							delOK = true
						}
					}
				}
				c.Decide(r1, engine.FuncName(f)+"|dec-per-list-element", mu.Pos(), overList && delOK && inLoop(mu.Block()),
					"finish decrements once per recorded link and deletes the counter at <= 0",
					fmt.Sprintf("finish does not decrement per recorded link (%v) / delete exhausted counters (%v)", overList, delOK))
			}
		}
	}
	if nInc == 0 {
		c.AnchorMissing(r1, "an increment of traversalsWithBlocksInProgress")
	}

	// ---- R2 exhaustiveness
	finishPLT := c.P.Func("responsemanager/responseassembler", "peerLinkTracker", "FinishTracking")
	if finishLT == nil {
		finishLT = c.P.Func("linktracker", "LinkTracker", "FinishRequest")
	}
	for _, tf := range []struct {
		t  *types.Named
		fn *ssa.Function
	}{{ltType, finishLT}, {pltType, finishPLT}} {
		if tf.fn == nil {
			c.AnchorMissing(r2, "finish operation of "+tf.t.Obj().Name())
			continue
		}
		c.Analysed(engine.FuncName(tf.fn))
		st := tf.t.Underlying().(*types.Struct)
		for i := 0; i < st.NumFields(); i++ {
			fld := st.Field(i)
			if !mapKeyedByRequestID(fld) {
				continue
			}
			key := fmt.Sprintf("%s.%s", tf.t.Obj().Name(), fld.Name())
			dels := engine.MapDeletesOfField([]*ssa.Function{tf.fn}, fld)
			ok := len(dels) > 0
			why := "the finish operation never deletes this per-request map entry: tracking state for finished requests accumulates"
			for _, d := range dels {
				if p, isP := engine.Strip(d.Call.Args[1]).(*ssa.Parameter); !isP || p != tf.fn.Params[1] {
					ok = false
					why = "the entry deleted is not the finishing request's"
				}
			}
			if ok {
				isDel := func(in ssa.Instruction) bool {
					for _, d := range dels {
						if in == ssa.Instruction(d) {
							return true
						}
					}
					return false
				}
				// the edge on which the map is known to have no entry for the request
				absentEdge := func(from, to *ssa.BasicBlock) bool {
					ifi, isIf := from.Instrs[len(from.Instrs)-1].(*ssa.If)
					if !isIf || from.Succs[1] != to {
						return false
					}
					if ex, isEx := ifi.Cond.(*ssa.Extract); isEx && ex.Index == 1 {
						if lk, isL := ex.Tuple.(*ssa.Lookup); isL && isLoadOfField(lk.X, fld) {
							return true
						}
					}
					return false
				}
				for _, r := range engine.Returns(tf.fn) {
					if engine.ReachableAvoiding(tf.fn, r, isDel, absentEdge) {
						ok = false
						why = "a return path at " + c.P.Pos(r.Pos()) + " leaves the entry in place"
					}
				}
			}
			c.Decide(r2, key, tf.fn.Pos(), ok, "deleted for the finishing request on every path (or provably absent)", why)
		}
	}

	// ---- R3
	alt := c.P.Field("responsemanager/responseassembler", "peerLinkTracker", "altTrackers")
	dk := c.P.Field("responsemanager/responseassembler", "peerLinkTracker", "dedupKeys")
	deflt := c.P.Field("responsemanager/responseassembler", "peerLinkTracker", "linkTracker")
	if alt == nil || dk == nil || deflt == nil || finishPLT == nil {
		c.AnchorMissing(r3, "peerLinkTracker{altTrackers,dedupKeys,linkTracker}")
	} else {
		ownDel := engine.MapDeletesOfField([]*ssa.Function{finishPLT}, dk)
		for _, d := range engine.MapDeletesOfField([]*ssa.Function{finishPLT}, alt) {
			first := len(ownDel) > 0 && engine.Before(ownDel[0], d)
			guarded := false
			for _, cd := range engine.InstrConds(d) {
				ph, isPhi := cd.V.(*ssa.Phi)
				if !isPhi || cd.Pol {
					continue
				}
				for i, e := range ph.Edges {
					if b, isB := engine.ConstBool(e); isB && b {
						// the edge comes from a block dominated by otherKey == key over dedupKeys
						for _, c2 := range engine.BlockConds(ph.Block().Preds[i]) {
							if eq, isEq := c2.AsEq(); isEq && eq.Equal && (rangesOverField(eq.X, dk) || rangesOverField(eq.Y, dk)) {
								guarded = true
							}
						}
					}
				}
			}
			c.Decide(r3, engine.FuncName(finishPLT)+"|drop-alt-tracker", d.Pos(), first && guarded,
				"alternate tracker deleted only when, after removing the request's own key, no other request holds the same key",
				fmt.Sprintf("the dedup-scope tracker is dropped without establishing that no other request uses the key (own key removed first: %v, scan of remaining keys: %v): in-use dedup state is lost or kept forever", first, guarded))
		}
		sel := c.P.Func("responsemanager/responseassembler", "peerLinkTracker", "getLinkTracker")
		if sel == nil {
			// the selection written in place (or in a helper of another shape, dissolved into its callers): a value that
			// is altTrackers[...] on some ways and the peer-wide tracker on the others
			sites := 0
			for _, f := range c.P.FuncsIn("responsemanager/responseassembler") {
				engine.Instrs(f, func(in ssa.Instruction) {
					ph, isPhi := in.(*ssa.Phi)
					if !isPhi {
						return
					}
					outs := engine.ValueOutcomes(ph, ph.Block())
					isSelection := false
					for _, o := range outs {
						if lk, isL := engine.LocalValue(o.V).(*ssa.Lookup); isL && isLoadOfField(lk.X, alt) {
							isSelection = true
						}
					}
					if !isSelection {
						return
					}
					sites++
					okSel := len(outs) >= 2
					for _, o := range outs {
						hasKey := false
						for _, cd := range o.Conds {
							if ex, isEx := cd.V.(*ssa.Extract); isEx && ex.Index == 1 {
								if lk, isL := ex.Tuple.(*ssa.Lookup); isL && isLoadOfField(lk.X, dk) {
									hasKey = cd.Pol
								}
							}
						}
						v := engine.LocalValue(o.V)
						if lk, isL := v.(*ssa.Lookup); isL && isLoadOfField(lk.X, alt) {
							if !hasKey {
								okSel = false
							}
						} else if isLoadOfField(v, deflt) {
							if hasKey {
								okSel = false
							}
						} else {
							okSel = false
						}
					}
					c.Decide(r3, engine.FuncName(f)+"|tracker-selection", ph.Pos(), okSel, "altTrackers[dedupKeys[request]] when the request has a key, the peer-wide tracker otherwise", "tracker selection does not follow the request's dedup key")
				})
			}
			if sites == 0 {
				c.AnchorMissing(r3, "peerLinkTracker.getLinkTracker (or an in-place selection between altTrackers[...] and the peer-wide tracker)")
			}
			readsKey := engine.LiftMay(func(in ssa.Instruction) bool {
				lk, ok := in.(*ssa.Lookup)
				return ok && lk.CommaOk && isLoadOfField(lk.X, dk)
			})
			for _, f := range c.P.FuncsIn("responsemanager/responseassembler") {
				for _, d := range engine.MapDeletesOfField([]*ssa.Function{f}, dk) {
					late, at := engine.CanReach(d, readsKey, nil)
					where := ""
					if at != nil {
						where = " (at " + c.P.Pos(at.Pos()) + ")"
					}
					c.Decide(r3, engine.FuncName(f)+"|tracker-resolved-before-key-removed", d.Pos(), !late,
						"the request's tracker is resolved before its dedup key is removed",
						"the request's tracker is looked up after its dedup key has been deleted"+where+": a keyed request is then finished against the peer-wide tracker — its references in the keyed tracker are never released and a missing block goes unreported (complete instead of partial)")
				}
			}
		} else {
			okSel := true
			n := 0
			for _, r := range engine.Returns(sel) {
				n++
				v := engine.LocalValue(r.Results[0])
				hasKey := false
				for _, cd := range engine.InstrConds(r) {
					if ex, isEx := cd.V.(*ssa.Extract); isEx && ex.Index == 1 {
						if lk, isL := ex.Tuple.(*ssa.Lookup); isL && isLoadOfField(lk.X, dk) && engine.Strip(lk.Index) == ssa.Value(sel.Params[1]) {
							hasKey = cd.Pol
						}
					}
				}
				if lk, isL := v.(*ssa.Lookup); isL && isLoadOfField(lk.X, alt) {
					if !hasKey {
						okSel = false
					}
				} else if isLoadOfField(v, deflt) {
					if hasKey {
						okSel = false
					}
				} else {
					okSel = false
				}
			}
			c.Decide(r3, engine.FuncName(sel), sel.Pos(), okSel && n >= 2, "altTrackers[dedupKeys[request]] when the request has a key, the peer-wide tracker otherwise", "tracker selection does not follow the request's dedup key")
			// the selection reads dedupKeys[request]: it must not run after that entry has been deleted, or the
			// request is finished against the wrong (peer-wide) tracker
			for _, f := range c.P.FuncsIn("responsemanager/responseassembler") {
				dels := engine.MapDeletesOfField([]*ssa.Function{f}, dk)
				if len(dels) == 0 {
					continue
				}
				isSel := func(in ssa.Instruction) bool {
					cc, ok := in.(*ssa.Call)
					return ok && cc.Call.StaticCallee() == sel
				}
				for _, d := range dels {
					late, at := engine.CanReach(d, isSel, nil)
					where := ""
					if at != nil {
						where = " (at " + c.P.Pos(at.Pos()) + ")"
					}
					c.Decide(r3, engine.FuncName(f)+"|tracker-resolved-before-key-removed", d.Pos(), !late,
						"the request's tracker is resolved before its dedup key is removed",
						"the request's tracker is looked up after its dedup key has been deleted"+where+": a keyed request is then finished against the peer-wide tracker — its references in the keyed tracker are never released and a missing block goes unreported (complete instead of partial)")
				}
			}
		}
	}

	// ---- R4
	if finishLT != nil {
		ok := false
		for _, r := range engine.Returns(finishLT) {
			v := engine.LocalValue(r.Results[0])
			// named result: stored once
			if u, isU := v.(*ssa.UnOp); isU && u.Op == token.NOT {
				if ex, isEx := u.X.(*ssa.Extract); isEx && ex.Index == 1 {
					if lk, isL := ex.Tuple.(*ssa.Lookup); isL && isLoadOfField(lk.X, missing) {
						ok = true
						for _, d := range engine.MapDeletesOfField([]*ssa.Function{finishLT}, missing) {
							if !engine.Before(lk, d) {
								ok = false
							}
						}
					}
				}
			}
		}
		c.Decide(r4, engine.FuncName(finishLT)+"|has-all-blocks", finishLT.Pos(), ok, "result = !(missingBlocks has an entry for the request), read before the entry is deleted", "the completeness result is not the negation of 'a missing-blocks entry exists' read before deletion")
	}
	rec := c.P.Func("linktracker", "LinkTracker", "RecordLinkTraversal")
	if rec == nil {
		c.AnchorMissing(r4, "LinkTracker.RecordLinkTraversal")
	} else {
		hasBlock := rec.Params[len(rec.Params)-1]
		ok := false
		bad := ""
		// writes of a missing entry: MapUpdate on missingBlocks or on the inner map
		n := 0
		engine.Instrs(rec, func(in ssa.Instruction) {
			mu, isMU := in.(*ssa.MapUpdate)
			if !isMU {
				return
			}
			inner := false
			if m, isM := mu.Map.Type().Underlying().(*types.Map); isM {
				if _, isStruct := m.Elem().Underlying().(*types.Struct); isStruct {
					inner = true
				}
			}
			if !inner {
				return
			}
			n++
			if engine.KnownBool(engine.InstrConds(mu), hasBlock, false) {
				ok = true
			} else {
				bad = "a missing-block entry is recorded on a path where the block was present"
			}
		})
		// and on the !hasBlock path it is always reached
		for _, b := range rec.Blocks {
			if ifi, isIf := b.Instrs[len(b.Instrs)-1].(*ssa.If); isIf && engine.Strip(ifi.Cond) == ssa.Value(hasBlock) {
				reached, _ := engine.MustReachFromBlock(b.Succs[1], func(in ssa.Instruction) bool {
					mu, isMU := in.(*ssa.MapUpdate)
					if !isMU {
						return false
					}
					m, isM := mu.Map.Type().Underlying().(*types.Map)
					if !isM {
						return false
					}
					_, isStruct := m.Elem().Underlying().(*types.Struct)
					return isStruct
				}, nil)
				if !reached {
					ok = false
					bad = "a traversal without its block does not always record a missing-block entry"
				}
			}
		}
		c.Decide(r4, engine.FuncName(rec)+"|missing-iff-absent", rec.Pos(), ok && bad == "" && n > 0, "a missing-blocks entry is written exactly on the block-absent path", bad)
	}

	// ---- R5
	checkSendDecision(c, r5)

	// ---- R6
	lk := c.P.Field("responsemanager/responseassembler", "peerLinkTracker", "linkTrackerLk")
	if lk == nil {
		c.AnchorMissing(r6, "peerLinkTracker.linkTrackerLk")
		return
	}
	lc := engine.NewLockChecker(c.P)
	st := pltType.Underlying().(*types.Struct)
	for i := 0; i < st.NumFields(); i++ {
		fld := st.Field(i)
		if fld == lk {
			continue
		}
		for _, fa := range engine.FieldAccesses(raFns, fld) {
			f := fa.Parent()
			ok, why := lc.HeldAtOrByCallers(fa, lk, 2)
			c.Decide(r6, fmt.Sprintf("%s|%s %s", engine.FuncName(f), accessKind(fa), fld.Name()), fa.Pos(), ok, why, "tracker state accessed without linkTrackerLk: "+why)
		}
	}
}

func appendsValue(call *ssa.Call, v ssa.Value) bool {
	// append(list, link): variadic arg is a slice literal built from an alloc'd array with stores
	for _, a := range call.Call.Args[1:] {
		if engine.SameValue(a, v) {
			return true
		}
		if sl, ok := a.(*ssa.Slice); ok {
			if al, ok := sl.X.(*ssa.Alloc); ok {
				for _, r := range *al.Referrers() {
					if ia, ok := r.(*ssa.IndexAddr); ok {
						for _, rr := range *ia.Referrers() {
							if st, ok := rr.(*ssa.Store); ok && engine.SameValue(st.Val, v) {
								return true
							}
						}
					}
				}
			}
		}
	}
	return false
}

func rangesOverField(v ssa.Value, f *types.Var) bool {
	ex, ok := engine.Strip(v).(*ssa.Extract)
	if !ok {
		return false
	}
	nx, ok := ex.Tuple.(*ssa.Next)
	if !ok {
		return false
	}
	rg, ok := nx.Iter.(*ssa.Range)
	return ok && isLoadOfField(rg.X, f)
}

// checkSendDecision is C03.R4 / C19.R5 / C24.R4.
func checkSendDecision(c *engine.Ctx, rule string) {
	sendBlock := c.P.Field("responsemanager/responseassembler", "blockOperation", "sendBlock")
	skipF := c.P.Field("responsemanager/responseassembler", "peerLinkTracker", "skipFirstBlocks")
	countF := c.P.Field("responsemanager/responseassembler", "peerLinkTracker", "blockSentCount")
	if sendBlock == nil || skipF == nil || countF == nil {
		c.AnchorMissing(rule, "blockOperation.sendBlock / peerLinkTracker{skipFirstBlocks,blockSentCount}")
		return
	}
	// the value stored into sendBlock: trace to the function computing it
	var decide *ssa.Function
	for _, f := range c.P.FuncsIn("responsemanager/responseassembler") {
		for _, st := range engine.StoresTo([]*ssa.Function{f}, sendBlock) {
			v := engine.LocalValue(st.Val)
			if ex, ok := v.(*ssa.Extract); ok {
				if call, ok := ex.Tuple.(*ssa.Call); ok && ex.Index == 0 {
					if sc := call.Call.StaticCallee(); sc != nil {
						decide = sc
					}
				}
			}
			if call, ok := v.(*ssa.Call); ok {
				if sc := call.Call.StaticCallee(); sc != nil {
					decide = sc
				}
			}
		}
	}
	if decide == nil {
		c.Undecided(rule, "send-decision", token.NoPos, "cannot trace the value stored into blockOperation.sendBlock to the function that computes it")
		return
	}
	c.Analysed(engine.FuncName(decide))
	key := engine.FuncName(decide) + "|send-decision"
	var hasBlock ssa.Value
	for _, p := range decide.Params {
		if b, isB := p.Type().Underlying().(*types.Basic); isB && b.Kind() == types.Bool {
			hasBlock = p
		}
	}
	// the reference-count read and the recording of this traversal
	var refCall, recCall *ssa.Call
	for _, ci := range engine.Calls(decide) {
		if ci.Static == nil || ci.Value() == nil {
			continue
		}
		switch ci.Static.Name() {
		case "BlockRefCount":
			refCall = ci.Value()
		case "RecordLinkTraversal":
			recCall = ci.Value()
		}
	}
	incs := engine.MapUpdatesOfField([]*ssa.Function{decide}, countF)
	if hasBlock == nil || refCall == nil || recCall == nil || len(incs) == 0 {
		c.Undecided(rule, key, decide.Pos(), "cannot find the block-present flag, the reference-count read, the recording call and the per-request counter update in the send decision")
		return
	}
	// finite-domain evaluation: block present x skip count x blocks counted so far x reference count; the decision
	// returned must be  present AND skip < counted+1 AND refcount == 0  on every path, however it is put together
	bad := ""
	n := 0
	for _, present := range []bool{true, false} {
		for _, skip := range []int64{0, 1, 2} {
			for _, counted := range []int64{0, 1} {
				for _, refs := range []int64{0, 1} {
					n++
					want := present && skip < counted+1 && refs == 0
					got := map[string]bool{}
					ev := &engine.Evaluator{MaxVisits: 2}
					ev.Input = func(v ssa.Value) (engine.EVal, bool) {
						if v == hasBlock {
							return engine.EVal{K: engine.EBool, B: present}, true
						}
						if v == ssa.Value(refCall) {
							return engine.EVal{K: engine.EInt, I: refs}, true
						}
						lk, ok := v.(*ssa.Lookup)
						if ex, isEx := v.(*ssa.Extract); isEx && ex.Index == 0 {
							lk, ok = ex.Tuple.(*ssa.Lookup)
						}
						if ok {
							if isLoadOfField(lk.X, skipF) {
								return engine.EVal{K: engine.EInt, I: skip}, true
							}
							if isLoadOfField(lk.X, countF) {
								for _, mu := range incs {
									if engine.Before(mu, lk) {
										return engine.EVal{K: engine.EInt, I: counted + 1}, true // read back after the increment
									}
								}
								return engine.EVal{K: engine.EInt, I: counted}, true
							}
						}
						return engine.EVal{}, false
					}
					ev.Observe = func(in ssa.Instruction, get func(ssa.Value) engine.EVal) {
						if r, ok := in.(*ssa.Return); ok && len(r.Results) > 0 {
							v := get(r.Results[0])
							if v.K == engine.EBool {
								got[fmt.Sprint(v.B)] = true
							} else {
								got["unknown"] = true
							}
						}
					}
					ev.Run(decide)
					if ev.Aborted || len(got) != 1 || !got[fmt.Sprint(want)] {
						var gs []string
						for g := range got {
							gs = append(gs, g)
						}
						sort.Strings(gs)
						if bad == "" {
							bad = fmt.Sprintf("block present=%v, skip count=%d, blocks counted before this one=%d, reference count=%d: the decision is %v, expected %v", present, skip, counted, refs, gs, want)
						}
					}
				}
			}
		}
	}
	if bad != "" {
		c.Violate(rule, key, decide.Pos(), "the send decision is not  present AND past the skip count (counting this block) AND not already in use: "+bad+" — blocks are sent that should not be, or withheld when they should be sent")
		return
	}
	// the counter written back is the old value plus one, and the reference count is read before this traversal is recorded
	incOK := false
	for _, mu := range incs {
		if b, isB := engine.Strip(mu.Value).(*ssa.BinOp); isB && b.Op == token.ADD {
			if k, isK := engine.ConstInt(b.Y); isK && k == 1 {
				if lk, isL := engine.Strip(b.X).(*ssa.Lookup); isL && isLoadOfField(lk.X, countF) {
					incOK = true
				}
			}
		}
	}
	readBefore := engine.Before(refCall, recCall)
	c.Decide(rule, key, decide.Pos(), incOK && readBefore,
		fmt.Sprintf("over %d value combinations: sendBlock = hasBlock && skip < count (after count++) && BlockRefCount(link) == 0 (before this traversal is recorded)", n),
		fmt.Sprintf("ordering broken (per-request counter incremented by one: %v; reference count read before recording this traversal: %v)", incOK, readBefore))
}

// checkClearBeforeTerminate (C19.R7, C03.R8): wherever the response manager retires a response directly (no final
// message whose completion would release it), the request's link tracking — reference counts recorded by prepareQuery
// for do-not-send-cids, the dedup key, the skip count — is cleared first on every path.  A leak makes later requests
// of the same peer list those links as present without sending the blocks.
func checkClearBeforeTerminate(c *engine.Ctx, rule string) {
	term := c.P.Func("responsemanager", "ResponseManager", "terminateRequest")
	if term == nil {
		c.AnchorMissing(rule, "responsemanager.ResponseManager.terminateRequest")
		return
	}
	n := 0
	for _, f := range c.P.FuncsIn("responsemanager") {
		if engine.FuncPkgPath(f) != engine.Module+"/responsemanager" {
			continue
		}
		var clears, terms []ssa.Instruction
		engine.Instrs(f, func(in ssa.Instruction) {
			cc, ok := in.(*ssa.Call)
			if !ok {
				return
			}
			if cc.Call.IsInvoke() && cc.Call.Method.Name() == "ClearRequest" {
				clears = append(clears, in)
			}
			if cc.Call.StaticCallee() == term {
				terms = append(terms, in)
			}
		})
		if len(clears) == 0 {
			continue
		}
		c.Analysed(engine.FuncName(f))
		for i, t := range terms {
			n++
			ok := false
			for _, cl := range clears {
				if engine.Before(cl, t) {
					ok = true
				}
			}
			c.Decide(rule, fmt.Sprintf("%s|terminate#%d", engine.FuncName(f), i+1), t.Pos(), ok,
				"the response's link tracking is cleared on every path to this direct retirement",
				"a response is retired here without its link tracking being cleared on every path: reference counts recorded when the request was set up (do-not-send-cids, dedup key, skip count) leak, and later requests from the same peer are told those blocks are present without receiving them")
		}
	}
	if n == 0 {
		c.AnchorMissing(rule, "a responsemanager function that clears link tracking and retires the response (abortRequest)")
	}
}
