package rules

import (
	"fmt"
	"go/token"
	"go/types"

	"golang.org/x/tools/go/ssa"

	"gscheck/engine"
)

func init() {
	register(&Property{
		Meta: engine.PropMeta{
			ID:    "C17",
			Title: "One live message queue per peer, delivering in queued order",
			Explanation: "Decides: (R1) every access to the peer-process table holds its lock (helpers via requires-lock summaries over all in-module callers); " +
				"(R2) a table delete performed on behalf of a process (the queue-shutdown callback handed to the process factory) is dominated by a test that the stored instance is that process; " +
				"(R3) processes are started only on the create path, once per created process; queue shutdown is idempotent (sync.Once); a disconnect that drops the last reference both deletes the entry and shuts the process down; " +
				"(R4) builders are appended at the tail and taken from the head under the builders lock, and only the queue goroutine extracts and sends. " +
				"Not decided: wire order under retries beyond the single-sender structure (libp2p stream ordering trusted); the schedule-level claim 'at most one live queue at any time'.",
			Assumptions: append([]string{"libp2p delivers one stream's messages in order"}, commonTrust...),
			Technique:   "lock-set analysis with caller summaries, guard dominance on deletes reachable from the shutdown callback, who-may-call over static call edges",
		},
		Run: runC17,
	})
}

func runC17(c *engine.Ctx) {
	r1 := c.Rule("R1", "every access to PeerManager.peerProcesses holds peerProcessesLk", 3)
	r2 := c.Rule("R2", "a delete on behalf of a process (shutdown callback) is guarded by 'stored instance is that process'", 1)
	r3 := c.Rule("R3", "start only on create; shutdown idempotent; last disconnect deletes and shuts down", 2)
	r4 := c.Rule("R4", "FIFO builders (append at tail, take from head, under the lock); single consumer goroutine", 2)

	table := c.P.Field("peermanager", "PeerManager", "peerProcesses")
	lk := c.P.Field("peermanager", "PeerManager", "peerProcessesLk")
	if table == nil || lk == nil {
		c.AnchorMissing(r1, "peermanager.PeerManager{peerProcesses,peerProcessesLk}")
		return
	}
	pmFns := c.P.FuncsIn("peermanager")
	lc := engine.NewLockChecker(c.P)
	for _, fa := range engine.FieldAccesses(pmFns, table) {
		f := fa.Parent()
		c.Analysed(engine.FuncName(f))
		ok, why := lc.HeldAtOrByCallers(fa, lk, 2)
		c.Decide(r1, fmt.Sprintf("%s|%s", engine.FuncName(f), accessKind(fa)), fa.Pos(), ok, why, "peerProcesses accessed without peerProcessesLk: "+why)
	}

	c17ShutdownCallback(c, r2, pmFns, table)
	factoryF := c.P.Field("peermanager", "PeerManager", "createPeerProcess")

	// R3d: the reference count counts connections: every connection's Connected and Disconnected notification is
	// forwarded to the peer manager, unconditionally (one dropped Disconnected and the queue outlives the peer)
	nfy := 0
	for _, name := range []string{"Connected", "Disconnected"} {
		f := c.P.Func("network", "libp2pGraphSyncNotifee", name)
		if f == nil {
			continue
		}
		nfy++
		c.Analysed(engine.FuncName(f))
		fwd := func(in ssa.Instruction) bool {
			cc, ok := in.(*ssa.Call)
			return ok && cc.Call.IsInvoke() && cc.Call.Method.Name() == name
		}
		ok, _ := engine.MustReachFromEntry(f, engine.LiftMust(fwd), nil)
		c.Decide(r3, engine.FuncName(f)+"|forwards-every-notification", f.Pos(), ok,
			"every "+name+" notification of a connection reaches the receiver",
			"a "+name+" notification of a connection can be dropped before it reaches the receiver: the peer manager counts connections, so its count no longer returns to zero at the last disconnect (or a queue is shut down while a connection remains)")
	}
	if nfy == 0 {
		c.AnchorMissing(r3, "network.libp2pGraphSyncNotifee.Connected / Disconnected")
	}

	// R3a: Startup only on the create path
	nStart := 0
	for _, f := range pmFns {
		for _, ci := range engine.Calls(f) {
			if !ci.Common.IsInvoke() || ci.Common.Method.Name() != "Startup" {
				continue
			}
			nStart++
			// the receiver derives from the factory call's result in the same function, and the call is under !ok of the table lookup
			fromFactory := false
			v := engine.Strip(ci.Common.Value)
			for i := 0; i < 6; i++ {
				switch x := v.(type) {
				case *ssa.Extract:
					v = x.Tuple
					continue
				case *ssa.TypeAssert:
					v = engine.Strip(x.X)
					continue
				case *ssa.UnOp:
					if fl, _ := engine.LoadedField(x); fl != nil {
						// instance.process field written from the factory in this function
						for _, st := range engine.StoresTo([]*ssa.Function{f}, fl) {
							if call, isC := engine.Strip(st.Val).(*ssa.Call); isC {
								if cf, _ := engine.LoadedField(call.Call.Value); cf == factoryF {
									fromFactory = true
								}
							}
						}
					}
				case *ssa.Call:
					if cf, _ := engine.LoadedField(x.Call.Value); cf == factoryF {
						fromFactory = true
					}
				}
				break
			}
			absent := false
			for _, cond := range engine.InstrConds(ci.Instr) {
				if ex, isEx := cond.V.(*ssa.Extract); isEx && ex.Index == 1 && !cond.Pol {
					if lkp, isL := ex.Tuple.(*ssa.Lookup); isL && isLoadOfField(lkp.X, table) {
						// the test counts only if the table lock is not given up between it and the start (a stale
						// "no entry" lets several callers each create and start a process for the same peer)
						stale := false
						engine.Instrs(f, func(in ssa.Instruction) {
							cc, ok := in.(*ssa.Call)
							if !ok {
								return
							}
							sc := cc.Call.StaticCallee()
							if sc == nil || (sc.Name() != "Unlock" && sc.Name() != "RUnlock") || len(cc.Call.Args) == 0 || fieldReadOf2(cc.Call.Args[0]) != lk {
								return
							}
							if engine.Before(lkp, cc) && engine.Before(cc, ci.Instr) {
								stale = true
							}
						})
						if !stale {
							absent = true
						}
					}
				}
			}
			c.Decide(r3, engine.FuncName(f)+"|startup", ci.Instr.Pos(), fromFactory && absent,
				"process started once, right after creation, only when the table had no entry",
				fmt.Sprintf("a peer process is started outside the create path (fresh from factory: %v, under 'no entry': %v)", fromFactory, absent))
		}
	}
	if nStart == 0 {
		c.Violate(r3, "startup", token.NoPos, "no peer process is ever started by the peer manager")
	}
	// R3b: idempotent shutdown
	done := c.P.Field("messagequeue", "MessageQueue", "done")
	if done == nil {
		c.AnchorMissing(r3, "messagequeue.MessageQueue.done")
	} else {
		for _, f := range c.P.FuncsIn("messagequeue") {
			for _, cl := range engine.BuiltinCalls(f, "close") {
				if !isLoadOfField(cl.Call.Args[0], done) {
					continue
				}
				// must be inside a closure passed to sync.Once.Do
				inOnce := false
				if p := f.Parent(); p != nil {
					for _, ci := range engine.Calls(p) {
						if ci.Is("sync.Once.Do") {
							if fn := resolveFuncValue(ci.Arg(0)); fn == f {
								inOnce = true
							}
						}
					}
				}
				c.Decide(r3, engine.FuncName(f)+"|close-done-once", cl.Pos(), inOnce, "done is closed under sync.Once", "the queue's done channel is closed outside sync.Once: a second Shutdown panics (close of closed channel)")
			}
		}
	}
	// R3c: last disconnect deletes and shuts down
	refcnt := c.P.Field("peermanager", "peerProcessInstance", "refcnt")
	if refcnt == nil {
		c.AnchorMissing(r3, "peermanager.peerProcessInstance.refcnt")
	} else {
		// the reference count can reach "no references" from a process created without a Connected (count 0):
		// the decrement must not wrap — signed type, or guarded by count > 0
		signed := false
		if b, ok := refcnt.Type().Underlying().(*types.Basic); ok && b.Info()&types.IsInteger != 0 && b.Info()&types.IsUnsigned == 0 {
			signed = true
		}
		for _, f := range pmFns {
			for _, st := range engine.StoresTo([]*ssa.Function{f}, refcnt) {
				bo, ok := st.Val.(*ssa.BinOp)
				if !ok || bo.Op != token.SUB {
					continue
				}
				guarded := false
				for _, cd := range engine.InstrConds(st) {
					if cb, ok := cd.V.(*ssa.BinOp); ok && isLoadOfField(cb.X, refcnt) {
						k, _ := engine.ConstInt(cb.Y)
						if k == 0 && ((cb.Op == token.GTR && cd.Pol) || (cb.Op == token.NEQ && cd.Pol) || (cb.Op == token.EQL && !cd.Pol) || (cb.Op == token.LEQ && !cd.Pol)) {
							guarded = true
						}
					}
				}
				c.Decide(r3, engine.FuncName(f)+"|refcount-no-wrap", st.Pos(), signed || guarded,
					"the reference count is signed (a process created by a send starts at 0 and a disconnect takes it to -1 = no references)",
					"the reference count is unsigned and decremented unguarded: a process created by a send (count 0) wraps to the maximum on disconnect, is never deleted or shut down, and outlives its peer's last disconnect")
			}
		}
		found := false
		for _, f := range pmFns {
			// the function that decrements refcnt
			dec := false
			for _, st := range engine.StoresTo([]*ssa.Function{f}, refcnt) {
				if b, ok := st.Val.(*ssa.BinOp); ok && b.Op == token.SUB {
					dec = true
				}
			}
			if !dec {
				continue
			}
			found = true
			// from the block where refcnt > 0 is false: must reach delete and Shutdown
			var start *ssa.BasicBlock
			for _, b := range f.Blocks {
				ifi, ok := b.Instrs[len(b.Instrs)-1].(*ssa.If)
				if !ok {
					continue
				}
				bo, ok := ifi.Cond.(*ssa.BinOp)
				if !ok {
					continue
				}
				if !isLoadOfField(bo.X, refcnt) && isLoadOfField(bo.Y, refcnt) {
					// written the other way round (0 >= refcnt): mirror it
					bo = &ssa.BinOp{Op: flipOp(bo.Op), X: bo.Y, Y: bo.X}
				}
				if !isLoadOfField(bo.X, refcnt) {
					continue
				}
				k, _ := engine.ConstInt(bo.Y)
				switch {
				case bo.Op == token.GTR && k == 0:
					start = b.Succs[1]
				case bo.Op == token.LEQ && k == 0:
					start = b.Succs[0]
				case bo.Op == token.EQL && k == 0:
					start = b.Succs[0]
				case bo.Op == token.GEQ && k == 1:
					start = b.Succs[1]
				case bo.Op == token.LSS && k == 1:
					start = b.Succs[0]
				}
			}
			if start == nil {
				c.Undecided(r3, engine.FuncName(f)+"|last-disconnect", f.Pos(), "cannot find the 'no references left' branch")
				continue
			}
			isDel := func(in ssa.Instruction) bool {
				cc, ok := in.(*ssa.Call)
				if !ok {
					return false
				}
				b, ok := cc.Call.Value.(*ssa.Builtin)
				return ok && b.Name() == "delete" && isLoadOfField(cc.Call.Args[0], table)
			}
			isShut := func(in ssa.Instruction) bool {
				cc, ok := in.(*ssa.Call)
				return ok && cc.Call.IsInvoke() && cc.Call.Method.Name() == "Shutdown"
			}
			okD, _ := c.P.MustReachInter(start, isDel, nil)
			// Shutdown is under a type assertion (PeerProcess); require reachability on the assertion-success path
			// (in this function, or after it returns in every caller)
			okS := c.P.CanReachInter(start, isShut)
			c.Decide(r3, engine.FuncName(f)+"|last-disconnect", f.Pos(), okD && okS,
				"when the last reference is dropped the entry is deleted and the process shut down",
				fmt.Sprintf("dropping the last reference does not both delete the entry (%v) and shut the process down (%v): a queue outlives its peer's last disconnect", okD, okS))
		}
		if !found {
			c.AnchorMissing(r3, "a refcnt decrement in peermanager")
		}
	}

	// R4 FIFO + single consumer
	m := loadMQ(c, r4)
	if !m.ok || m.extract == nil {
		c.AnchorMissing(r4, "messagequeue extract step")
		return
	}
	lcq := lc
	// head taken: Index/IndexAddr 0 of builders in extract, under lock
	headOK := false
	engine.Instrs(m.popFn, func(in ssa.Instruction) {
		if ia, ok := in.(*ssa.IndexAddr); ok && isLoadOfField(ia.X, m.builders) {
			if k, ok := engine.ConstInt(ia.Index); ok && k == 0 && lcq.Sets(m.popFn).HeldAt(ia)[m.buildersLk] {
				headOK = true
			}
		}
	})
	c.Decide(r4, engine.FuncName(m.extract)+"|take-head", m.extract.Pos(), headOK, "takes builders[0] and keeps builders[1:] under buildersLk", "the extract step does not take the head of the builders list under the lock (messages would leave out of order)")
	// nothing reorders the pending list: the list is only ever replaced by itself plus one at the tail, by itself minus
	// the head, or by an order-preserving filter of itself; and no element is overwritten in place
	for _, f := range m.fns {
		for _, st := range engine.StoresTo([]*ssa.Function{f}, m.builders) {
			if _, isAlloc := st.Addr.(*ssa.FieldAddr).X.(*ssa.Alloc); isAlloc {
				continue // constructor literal
			}
			okShape, why := false, ""
			switch v := engine.LocalValue(st.Val).(type) {
			case *ssa.Call: // append(builders, x)
				if b, isB := v.Call.Value.(*ssa.Builtin); isB && b.Name() == "append" && isLoadOfField(v.Call.Args[0], m.builders) {
					okShape = true
				}
			case *ssa.Slice: // builders[1:]
				if isLoadOfField(v.X, m.builders) && v.High == nil && v.Max == nil {
					okShape = true
				} else {
					why = "the list is cut at the tail or re-sliced"
				}
			case *ssa.Const:
				okShape = v.Value == nil // nil
			}
			if !okShape {
				// an order-preserving filter: a local slice grown only by appending elements ranged over builders in order
				okShape = isOrderedFilter(engine.LocalValue(st.Val), m.builders, map[ssa.Value]bool{})
				if !okShape && why == "" {
					why = "the list is replaced by something that is not append-at-tail, drop-head or an in-order filter of itself"
				}
			}
			c.Decide(r4, engine.FuncName(f)+"|list-order-kept", st.Pos(), okShape,
				"the pending list is replaced only by append-at-tail, drop-head or an in-order filter of itself",
				"the pending list of messages can be reordered ("+why+"): messages would leave in an order other than the one they were queued in")
		}
		engine.Instrs(f, func(in ssa.Instruction) {
			st, ok := in.(*ssa.Store)
			if !ok {
				return
			}
			if ia, isIA := st.Addr.(*ssa.IndexAddr); isIA && isLoadOfField(ia.X, m.builders) && !engine.IsNilConst(st.Val) {
				c.Violate(r4, engine.FuncName(f)+"|element-overwritten", st.Pos(), "an element of the pending list is overwritten in place with another builder: the order in which messages leave no longer is the order in which they were queued")
			}
		})
	}
	// what is enqueued goes into the newest builder: the build function is applied to builders[len(builders)-1]
	for _, f := range m.fns {
		for _, ci := range engine.Calls(f) {
			p, isParam := ci.Common.Value.(*ssa.Parameter)
			if !isParam || ci.Common.IsInvoke() || len(ci.Common.Args) != 1 {
				continue
			}
			if _, isFn := p.Type().Underlying().(*types.Signature); !isFn {
				continue
			}
			if !engine.IsNamed(ci.Common.Args[0].Type(), "~/messagequeue", "Builder") {
				continue
			}
			// every way the builder handed to the build function comes about: builders[len(builders)-1], or the builder
			// that this function has just appended at the tail
			isLast := func(v ssa.Value) bool {
				if u, ok := v.(*ssa.UnOp); ok && u.Op == token.MUL {
					if ia, ok := u.X.(*ssa.IndexAddr); ok && isLoadOfField(ia.X, m.builders) {
						if sub, ok := engine.Strip(ia.Index).(*ssa.BinOp); ok && sub.Op == token.SUB {
							if k, ok := engine.ConstInt(sub.Y); ok && k == 1 {
								if lc2, ok := engine.LocalValue(sub.X).(*ssa.Call); ok {
									if lb, ok := lc2.Call.Value.(*ssa.Builtin); ok && lb.Name() == "len" && isLoadOfField(lc2.Call.Args[0], m.builders) {
										return true
									}
								}
							}
						}
					}
				}
				return false
			}
			isJustAppended := func(v ssa.Value) bool {
				for _, st := range engine.StoresTo([]*ssa.Function{f}, m.builders) {
					call, ok := st.Val.(*ssa.Call)
					if !ok {
						continue
					}
					if b, isB := call.Call.Value.(*ssa.Builtin); !isB || b.Name() != "append" || len(call.Call.Args) != 2 {
						continue
					}
					// append(builders, v): the variadic slice holds v
					if sliceHolds(call.Call.Args[1], v) || engine.Strip(call.Call.Args[1]) == v {
						return true
					}
					if sl, ok := engine.Strip(call.Call.Args[1]).(*ssa.Slice); ok {
						if al, ok := sl.X.(*ssa.Alloc); ok {
							for _, r := range *al.Referrers() {
								if ia, ok := r.(*ssa.IndexAddr); ok {
									for _, rr := range *ia.Referrers() {
										if s2, ok := rr.(*ssa.Store); ok && engine.Strip(s2.Val) == v {
											return true
										}
									}
								}
							}
						}
					}
				}
				return false
			}
			newest := true
			outs := engine.ValueOutcomes(engine.LocalValue(ci.Common.Args[0]), ci.Instr.Block())
			for _, o := range outs {
				lv := engine.LocalValue(o.V)
				if !isLast(lv) && !isJustAppended(engine.Strip(lv)) {
					newest = false
				}
			}
			if len(outs) == 0 {
				newest = false
			}
			c.Decide(r4, engine.FuncName(f)+"|build-into-newest", ci.Instr.Pos(), newest,
				"the build function is applied to the newest builder (builders[len-1])",
				"what is enqueued can go into a builder other than the newest one: builders leave front to back, so data queued later can overtake data queued earlier")
		}
	}
	for _, f := range m.fns {
		for _, st := range engine.StoresTo([]*ssa.Function{f}, m.builders) {
			call, ok := st.Val.(*ssa.Call)
			if !ok {
				continue
			}
			if b, isB := call.Call.Value.(*ssa.Builtin); !isB || b.Name() != "append" {
				continue
			}
			// append(mq.builders, new): first arg is the current list
			tail := isLoadOfField(call.Call.Args[0], m.builders)
			held := lcq.Sets(f).HeldAt(st)[m.buildersLk]
			c.Decide(r4, engine.FuncName(f)+"|append-tail", st.Pos(), tail && held, "new builders are appended at the tail under buildersLk",
				fmt.Sprintf("builders are not appended at the tail under the lock (tail: %v, lock held: %v)", tail, held))
		}
	}
	// the message being built into is the last builder
	// single consumer: every static caller of extract/terminal senders is the goroutine root or only called from it
	var root *ssa.Function
	for _, f := range m.fns {
		engine.Instrs(f, func(in ssa.Instruction) {
			if g, ok := in.(*ssa.Go); ok {
				if r := g.Call.StaticCallee(); r != nil && reachesStatic(r, m.extract, 3) {
					root = r
				}
			}
		})
	}
	if root == nil {
		c.AnchorMissing(r4, "queue goroutine root")
		return
	}
	callers := map[*ssa.Function][]*ssa.Function{}
	for _, f := range c.P.SrcFuncs() {
		for _, ci := range engine.Calls(f) {
			if ci.Static != nil {
				callers[ci.Static] = append(callers[ci.Static], f)
			}
		}
	}
	var onlyFromRoot func(f *ssa.Function, depth int) bool
	onlyFromRoot = func(f *ssa.Function, depth int) bool {
		if f == root {
			return true
		}
		if depth > 4 || len(callers[f]) == 0 {
			return false
		}
		for _, cl := range callers[f] {
			if !onlyFromRoot(cl, depth+1) {
				return false
			}
		}
		return true
	}
	c.Decide(r4, engine.FuncName(m.extract)+"|single-consumer", m.extract.Pos(), onlyFromRoot(m.extract, 0),
		"the extract step is called only from the queue goroutine "+engine.FuncName(root),
		"the extract step is callable from outside the queue goroutine: two consumers can reorder a peer's messages")
	// goroutine started once: `go root` only in Startup-like function with a single site
	goSites := 0
	for _, f := range m.fns {
		engine.Instrs(f, func(in ssa.Instruction) {
			if g, ok := in.(*ssa.Go); ok && g.Call.StaticCallee() == root {
				goSites++
			}
		})
	}
	c.Decide(r4, engine.FuncName(root)+"|one-go-site", root.Pos(), goSites == 1, "one go statement starts the queue goroutine", fmt.Sprintf("%d go statements start the queue goroutine", goSites))
}

func accessKind(fa *ssa.FieldAddr) string {
	kind := "read"
	for _, r := range *fa.Referrers() {
		switch x := r.(type) {
		case *ssa.Store:
			if x.Addr == fa {
				kind = "write"
			}
		case *ssa.UnOp:
			for _, rr := range *x.Referrers() {
				switch y := rr.(type) {
				case *ssa.MapUpdate:
					if y.Map == x {
						kind = "map-write"
					}
				case *ssa.Call:
					if b, ok := y.Call.Value.(*ssa.Builtin); ok && b.Name() == "delete" {
						kind = "map-delete"
					}
				case *ssa.Lookup:
					if kind == "read" {
						kind = "map-read"
					}
				case *ssa.Range:
					if kind == "read" {
						kind = "map-range"
					}
				}
			}
		}
	}
	return kind
}

// c17ShutdownCallback (C17.R2, C16.R5): the callback a process invokes when it ends removes exactly that process from
// the table, and does so whenever it is still the one listed.
func c17ShutdownCallback(c *engine.Ctx, r2 string, pmFns []*ssa.Function, table *types.Var) {
	// R2
	var cbRoots []*ssa.Function
	factoryF := c.P.Field("peermanager", "PeerManager", "createPeerProcess")
	for _, f := range pmFns {
		for _, ci := range engine.Calls(f) {
			if ci.Static != nil || ci.Common.IsInvoke() {
				continue
			}
			if fl, _ := engine.LoadedField(ci.Common.Value); fl == nil || fl != factoryF {
				continue
			}
			for _, a := range ci.Common.Args {
				if _, isSig := a.Type().Underlying().(*types.Signature); !isSig {
					continue
				}
				if fn := resolveFuncValue(a); fn != nil {
					cbRoots = append(cbRoots, fn)
				} else {
					c.Undecided(r2, engine.FuncName(f)+"|shutdown-callback", ci.Instr.Pos(), "cannot resolve the shutdown callback handed to the process factory")
				}
			}
		}
	}
	if len(cbRoots) == 0 {
		c.AnchorMissing(r2, "the shutdown callback passed to PeerManager.createPeerProcess")
	}
	seen := map[*ssa.Function]bool{}
	nDel := 0
	var visit func(f *ssa.Function, depth int)
	visit = func(f *ssa.Function, depth int) {
		if seen[f] || depth > 3 || f.Blocks == nil {
			return
		}
		seen[f] = true
		c.Analysed(engine.FuncName(f))
		for _, del := range engine.MapDeletesOfField([]*ssa.Function{f}, table) {
			nDel++
			guarded := false
			extra := 0
			for _, cond := range engine.RawInstrConds(del) {
				isIdentity := false
				if e, ok := cond.AsEq(); ok && e.Equal {
					for _, side := range []ssa.Value{e.X, e.Y} {
						s := engine.Strip(side)
						if ex, isEx := s.(*ssa.Extract); isEx {
							s = ex.Tuple
						}
						if lkp, isL := s.(*ssa.Lookup); isL && isLoadOfField(lkp.X, table) && engine.SameValue(lkp.Index, del.Call.Args[1]) {
							isIdentity = true
						}
					}
				}
				// `cur, ok := table[p]; ok && cur == instance`: the presence test of the same lookup is part of the identity check
				if ex, ok := cond.V.(*ssa.Extract); ok && ex.Index == 1 && cond.Pol {
					if lkp, isL := ex.Tuple.(*ssa.Lookup); isL && isLoadOfField(lkp.X, table) && engine.SameValue(lkp.Index, del.Call.Args[1]) {
						isIdentity = true
					}
				}
				if !isIdentity {
					extra++
				}
			}
			for _, cond := range engine.InstrConds(del) {
				e, ok := cond.AsEq()
				if !ok || !e.Equal {
					continue
				}
				for _, side := range []ssa.Value{e.X, e.Y} {
					s := engine.Strip(side)
					if ex, isEx := s.(*ssa.Extract); isEx {
						s = ex.Tuple
					}
					if lkp, isL := s.(*ssa.Lookup); isL && isLoadOfField(lkp.X, table) && engine.SameValue(lkp.Index, del.Call.Args[1]) {
						guarded = true
					}
				}
			}
			c.Decide(r2, engine.FuncName(f)+"|delete-on-shutdown", del.Pos(), guarded,
				"delete dominated by peerProcesses[p] == <the instance that shut down>",
				"the shutdown callback deletes whatever is stored for the peer: a late callback from a dead queue removes its live successor, after which a third queue is created while the second is still running")
			c.Decide(r2, engine.FuncName(f)+"|delete-on-shutdown-unconditional", del.Pos(), extra == 0,
				"a process that has ended is removed from the table whenever it is still the one listed (no further condition)",
				"the process that shut itself down is removed from the table only under a further condition: otherwise the dead process stays listed, GetProcess keeps handing it out, and messages queued on it are never sent nor reported")
		}
		for _, g := range engine.WithClosures(f) {
			for _, ci := range engine.Calls(g) {
				if ci.Static != nil && engine.FuncPkgPath(ci.Static) == engine.Module+"/peermanager" {
					visit(ci.Static, depth+1)
				}
			}
		}
	}
	for _, r := range cbRoots {
		visit(r, 0)
	}
	if len(cbRoots) > 0 && nDel == 0 {
		c.Violate(r2, "shutdown-callback|no-delete", cbRoots[0].Pos(), "the shutdown callback no longer removes the dead process from the table: GetProcess keeps handing out a dead queue")
	}

}

// fieldReadOf2: the field whose address (or value) v is — `&pm.peerProcessesLk` as the receiver of Lock/Unlock.
func fieldReadOf2(v ssa.Value) *types.Var {
	v = engine.Strip(v)
	if fa, ok := v.(*ssa.FieldAddr); ok {
		return engine.FieldOf(fa)
	}
	return fieldReadOf(v)
}

// isOrderedFilter: v is a slice built from nothing (make / nil) by appending, one at a time, elements obtained by
// ranging over the given field's slice — an in-order filter.
func isOrderedFilter(v ssa.Value, field *types.Var, seen map[ssa.Value]bool) bool {
	v = engine.Strip(v)
	if seen[v] {
		return true
	}
	seen[v] = true
	switch x := v.(type) {
	case *ssa.MakeSlice:
		return true
	case *ssa.Const:
		return x.Value == nil
	case *ssa.Slice:
		// builders[:0]: the in-place filter idiom — an empty slice over the list's own storage; the write position
		// never passes the read position, so elements read in order are kept in order
		if x.High == nil {
			return false
		}
		if k, ok := engine.ConstInt(x.High); ok && k == 0 && x.Low == nil && isLoadOfField(x.X, field) {
			return true
		}
		return false
	case *ssa.Phi:
		for _, e := range x.Edges {
			if !isOrderedFilter(e, field, seen) {
				return false
			}
		}
		return true
	case *ssa.Call:
		b, ok := x.Call.Value.(*ssa.Builtin)
		if !ok || b.Name() != "append" || len(x.Call.Args) != 2 {
			return false
		}
		if !isOrderedFilter(x.Call.Args[0], field, seen) {
			return false
		}
		// the appended element comes from ranging over the field (Extract of Next over Range(load field)), or an
		// indexed read builders[i] inside a counted loop
		okElem := false
		var elems []ssa.Value
		if sl, ok := engine.Strip(x.Call.Args[1]).(*ssa.Slice); ok {
			if al, ok := sl.X.(*ssa.Alloc); ok {
				for _, r := range *al.Referrers() {
					if ia, ok := r.(*ssa.IndexAddr); ok {
						for _, rr := range *ia.Referrers() {
							if s2, ok := rr.(*ssa.Store); ok {
								elems = append(elems, engine.Strip(s2.Val))
							}
						}
					}
				}
			}
		}
		for _, e := range elems {
			if ex, ok := e.(*ssa.Extract); ok {
				if nx, ok := ex.Tuple.(*ssa.Next); ok {
					if rg, ok := nx.Iter.(*ssa.Range); ok && isLoadOfField(rg.X, field) {
						okElem = true
					}
				}
			}
			if u, ok := e.(*ssa.UnOp); ok && u.Op == token.MUL {
				if ia, ok := u.X.(*ssa.IndexAddr); ok && isLoadOfField(ia.X, field) {
					okElem = true
				}
			}
		}
		return okElem
	}
	return false
}
