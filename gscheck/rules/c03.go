package rules

import (
	"fmt"
	"go/constant"
	"go/token"
	"go/types"
	"sort"
	"strings"

	"golang.org/x/tools/go/ssa"

	"gscheck/engine"
)

func init() {
	register(&Property{
		Meta: engine.PropMeta{
			ID:    "C03",
			Title: "Responder output mirrors its own selector traversal",
			Explanation: "Decides the per-link emission rules and the status table: (R1) the block operation adds link metadata on every path; (R2) the metadata action is Missing exactly on the data == nil edge, Present otherwise; " +
				"(R3) block bytes are added only under the operation's send flag, built from the operation's own data and link; (R4) the send flag is the conjunction of exactly: block present, past the skip count, not already in use (see C19.R5); " +
				"(R5) status table: all-blocks-present -> complete-full, otherwise complete-partial; traversal result nil -> finish, first-block-load error -> content-not-found, and that error arises exactly when no block was traversed and the traversal ended with SkipMe; " +
				"(R6) extension wiring: each of the three request extensions is read under its own name, decoded by its own decoder and applied through its own stream setter, the dedup key before the ignore list; (R7) every load (present or missing) is followed by the send step for the same link and data. " +
				"Not decided: equality of the emitted metadata sequence with a reference traversal for every DAG/store/extension combination.",
			Assumptions: append([]string{"the traverser presents links in selector-traversal order (go-ipld-prime, trusted)"}, commonTrust...),
			Technique:   "must-reach and guard dominance on SSA, phi-edge classification of constant tables, value provenance for extension wiring",
		},
		Run: runC03,
	})
}

func rootConst(c *engine.Ctx, name string) (constant.Value, bool) {
	k, _ := c.P.TypesPkg("").Scope().Lookup(name).(*types.Const)
	if k == nil {
		return nil, false
	}
	return k.Val(), true
}

func isConstNamed(c *engine.Ctx, v ssa.Value, name string) bool {
	want, ok := rootConst(c, name)
	if !ok {
		return false
	}
	k, ok := engine.Strip(v).(*ssa.Const)
	if !ok || k.Value == nil || k.Value.Kind() != want.Kind() {
		return false
	}
	return constant.Compare(k.Value, token.EQL, want)
}

func runC03(c *engine.Ctx) {
	r1 := c.Rule("R1", "the block operation adds link metadata on every path", 1)
	r2 := c.Rule("R2", "metadata action is Missing exactly when the operation has no data", 1)
	r3 := c.Rule("R3", "block bytes only under the send flag, from the operation's own data and link", 1)
	r4 := c.Rule("R4", "send flag = present AND past skip count AND not already in use", 1)
	r5 := c.Rule("R5", "status table: full/partial from the missing-link record; nil -> finish; first-block-load -> content-not-found, produced exactly when nothing was traversed and the traversal was skipped", 2)
	r6 := c.Rule("R6", "extension wiring: (name, decoder, setter) triples; dedup key applied before the ignore list", 3)
	r7 := c.Rule("R7", "every load is followed by the send step for the same link and data", 1)
	r8 := c.Rule("R8", "a response retired without a final message releases its link tracking first (C19.R7)", 1)
	checkClearBeforeTerminate(c, r8)

	ra := "responsemanager/responseassembler"
	build := c.P.Func(ra, "blockOperation", "build")
	dataF := c.P.Field(ra, "blockOperation", "data")
	linkF := c.P.Field(ra, "blockOperation", "link")
	sendF := c.P.Field(ra, "blockOperation", "sendBlock")
	if build == nil || dataF == nil || linkF == nil || sendF == nil {
		c.AnchorMissing(r1, "responseassembler.blockOperation{data,link,sendBlock}.build")
	} else {
		c.Analysed(engine.FuncName(build))
		isAddLink := func(in ssa.Instruction) bool {
			cc, ok := in.(*ssa.Call)
			return ok && cc.Call.StaticCallee() != nil && cc.Call.StaticCallee().Name() == "AddLink"
		}
		ok, _ := engine.MustReachFromEntry(build, isAddLink, nil)
		c.Decide(r1, engine.FuncName(build), build.Pos(), ok, "AddLink is reached on every path of build()", "a traversed link can be left out of the response metadata (AddLink is skipped on some path)")
		// R2
		for _, ci := range engine.Calls(build) {
			if ci.Static == nil || ci.Static.Name() != "AddLink" {
				continue
			}
			act := ci.Arg(2)
			ph, isPhi := engine.Strip(act).(*ssa.Phi)
			okA := false
			why := "the link action is not selected by data == nil"
			if isPhi {
				missOK, presOK := false, false
				for i, e := range ph.Edges {
					pred := ph.Block().Preds[i]
					dataNil := false
					for _, cd := range engine.BlockConds(pred) {
						if eq, ok := cd.AsEq(); ok && eq.Equal && fieldReadOf(eq.X) == dataF && engine.IsNilConst(eq.Y) {
							dataNil = true
						}
					}
					if isConstNamed(c, e, "LinkActionMissing") && dataNil {
						missOK = true
					}
					if isConstNamed(c, e, "LinkActionPresent") && !dataNil {
						presOK = true
					}
					if isConstNamed(c, e, "LinkActionMissing") && !dataNil {
						why = "a link is reported missing on a path where the block data is not known to be absent"
						missOK = false
					}
				}
				okA = missOK && presOK
			} else if isConstNamed(c, act, "LinkActionPresent") || isConstNamed(c, act, "LinkActionMissing") {
				why = "the link action is constant: present and missing links are reported the same way"
			}
			// the link recorded is the operation's own link
			okL := fieldReadOf(ci.Arg(1)) == linkF
			c.Decide(r2, engine.FuncName(build), ci.Instr.Pos(), okA && okL, "action = Missing iff data == nil, Present otherwise; for the operation's own link", why)
		}
		// R3
		for _, ci := range engine.Calls(build) {
			if ci.Static == nil || ci.Static.Name() != "AddBlock" {
				continue
			}
			under := false
			for _, cd := range engine.InstrConds(ci.Instr) {
				if fieldReadOf(cd.V) == sendF && cd.Pol {
					under = true
				}
			}
			own := false
			blk := engine.LocalValue(ci.Arg(0))
			if ex, ok := blk.(*ssa.Extract); ok {
				if nb, ok := ex.Tuple.(*ssa.Call); ok && engine.Resolve(nb).Is("github.com/ipfs/go-block-format.NewBlockWithCid") {
					dOK := fieldReadOf(nb.Call.Args[0]) == dataF
					lOK := derivesFromField(nb.Call.Args[1], linkF, 6)
					own = dOK && lOK
				}
			}
			c.Decide(r3, engine.FuncName(build), ci.Instr.Pos(), under && own, "AddBlock only when sendBlock, with a block made of the operation's data and link",
				fmt.Sprintf("block bytes are added outside the send flag or from other data (under sendBlock: %v, own data+link: %v)", under, own))
		}
	}
	checkSendDecision(c, r4)

	// R5 status table
	setup := c.P.Func(ra, "responseBuilder", "setupFinishOperation")
	if setup == nil {
		// the helper was folded into its caller: the function that asks the link tracker whether the request was complete
		for _, f := range c.P.FuncsIn(ra) {
			for _, ci := range engine.Calls(f) {
				if ci.Static != nil && ci.Static.Name() == "FinishTracking" && ci.Value() != nil {
					if refs := ci.Value().Referrers(); refs != nil && len(*refs) > 0 && setup == nil {
						for _, r := range *refs {
							if _, isIf := r.(*ssa.If); isIf {
								setup = f
							}
						}
					}
				}
			}
		}
	}
	if setup == nil {
		c.AnchorMissing(r5, "responseBuilder.setupFinishOperation")
	} else {
		c.Analysed(engine.FuncName(setup))
		statusF := c.P.Field(ra, "statusOperation", "status")
		// every way a status gets stored (one store of a variable, or one store per branch)
		full, part, wrong := false, false, false
		for _, st := range engine.StoresTo([]*ssa.Function{setup}, statusF) {
			for _, o := range engine.ValueOutcomes(engine.Strip(st.Val), st.Block()) {
				var complete, known bool
				for _, cd := range o.Conds {
					if call, ok := cd.V.(*ssa.Call); ok && call.Call.StaticCallee() != nil && call.Call.StaticCallee().Name() == "FinishTracking" {
						complete, known = cd.Pol, true
					}
				}
				isFull := isConstNamed(c, o.V, "RequestCompletedFull")
				isPart := isConstNamed(c, o.V, "RequestCompletedPartial")
				switch {
				case known && complete && isFull:
					full = true
				case known && !complete && isPart:
					part = true
				default:
					wrong = true
				}
			}
		}
		okT := full && part && !wrong
		c.Decide(r5, engine.FuncName(setup)+"|full-or-partial", setup.Pos(), okT, "FinishTracking true -> RequestCompletedFull, false -> RequestCompletedPartial", "the final status is not full exactly when no link was missing")
	}
	qe := "responsemanager/queryexecutor"
	errFirstK, _ := c.P.TypesPkg(qe).Scope().Lookup("ErrFirstBlockLoad").(*types.Const)
	isErrFirst := func(v ssa.Value) bool {
		k, ok := engine.Strip(v).(*ssa.Const)
		return ok && errFirstK != nil && k.Value != nil && k.Value.Kind() == errFirstK.Val().Kind() && types.Identical(k.Type(), errFirstK.Type()) && constant.Compare(k.Value, token.EQL, errFirstK.Val())
	}
	if errFirstK == nil {
		c.AnchorMissing(r5, "queryexecutor.ErrFirstBlockLoad")
	} else {
		// closing transaction: switch err
		for _, f := range c.P.FuncsIn(qe) {
			var finish, notFound *ssa.Call
			var notFoundConds []engine.Cond
			for _, ci := range engine.Calls(f) {
				if !ci.Common.IsInvoke() {
					continue
				}
				switch ci.Common.Method.Name() {
				case "FinishRequest":
					finish = ci.Value()
				case "FinishWithError":
					// the status may be chosen into a variable first: look at each way the argument comes about
					if call := ci.Value(); call != nil {
						for _, o := range engine.ValueOutcomes(engine.LocalValue(ci.Common.Args[0]), call.Block()) {
							if isConstNamed(c, o.V, "RequestFailedContentNotFound") {
								notFound = call
								notFoundConds = append(notFoundConds, o.Conds...)
							}
						}
					}
				}
			}
			if finish == nil && notFound == nil {
				continue
			}
			c.Analysed(engine.FuncName(f))
			okN := false
			if finish != nil {
				for _, cd := range engine.InstrConds(finish) {
					if eq, ok := cd.AsEq(); ok && eq.Equal && engine.IsNilConst(eq.Y) && isErrorType(eq.X.Type()) {
						okN = true
					}
				}
			}
			c.Decide(r5, engine.FuncName(f)+"|nil=>finish", f.Pos(), okN, "a traversal that ended without error finishes the request normally", "FinishRequest is not tied to the traversal ending without error")
			okF := false
			if notFound != nil {
				for _, cd := range append(engine.InstrConds(notFound), notFoundConds...) {
					if eq, ok := cd.AsEq(); ok && eq.Equal {
						if isErrFirst(eq.X) || isErrFirst(eq.Y) {
							okF = true
						}
					}
				}
			}
			c.Decide(r5, engine.FuncName(f)+"|first-block=>not-found", f.Pos(), okF, "ErrFirstBlockLoad -> RequestFailedContentNotFound", "a root-block miss is not reported as content-not-found")
		}
		// production of ErrFirstBlockLoad
		for _, f := range c.P.FuncsIn(qe) {
			for _, r := range engine.Returns(f) {
				last := len(r.Results) - 1
				if last < 0 {
					continue
				}
				if !isErrFirst(engine.ReturnValue(r, last)) {
					continue
				}
				c.Analysed(engine.FuncName(f))
				zero, skip := false, false
				for _, cd := range engine.InstrConds(r) {
					eq, ok := cd.AsEq()
					if !ok || !eq.Equal {
						continue
					}
					if call, ok := engine.Strip(eq.X).(*ssa.Call); ok && call.Call.IsInvoke() && call.Call.Method.Name() == "NBlocksTraversed" {
						if k, ok := engine.ConstInt(eq.Y); ok && k == 0 {
							zero = true
						}
					}
					for _, side := range []ssa.Value{eq.X, eq.Y} {
						if strings.HasSuffix(types.TypeString(engine.Strip(side).Type(), nil), "traversal.SkipMe") {
							skip = true
						}
					}
				}
				c.Decide(r5, engine.FuncName(f)+"|first-block-condition", r.Pos(), zero && skip, "ErrFirstBlockLoad is returned exactly when no block was traversed and the traversal ended with SkipMe",
					fmt.Sprintf("the root-miss error is produced under a different condition (nothing traversed: %v, traversal skipped: %v)", zero, skip))
			}
		}
	}

	c03Extensions(c, r6)
	checkSendAfterLoad(c, r7)
}

type extRow struct {
	name, codecPkg, codecFn, setter string
}

var responderExtRows = []extRow{
	{"ExtensionDeDupByKey", "dedupkey", "DecodeDedupKey", "DedupKey"},
	{"ExtensionDoNotSendCIDs", "cidset", "DecodeCidSet", "IgnoreBlocks"},
	{"ExtensionsDoNotSendFirstBlocks", "donotsendfirstblocks", "DecodeDoNotSendFirstBlocks", "SkipFirstBlocks"},
}

// extensionUses: in fns, every Extension(name) call with a constant name, the codec function its payload is
// handed to and the stream setter the decoded value reaches.
type extUse struct {
	fn        *ssa.Function
	nameVal   string
	codec     *ssa.Function
	setter    string
	setterAt  ssa.Instruction
	extCall   *ssa.Call
}

func extensionUses(fns []*ssa.Function) []extUse {
	var out []extUse
	for _, f := range fns {
		for _, ci := range engine.Calls(f) {
			name := ""
			if ci.Common.IsInvoke() {
				name = ci.Common.Method.Name()
			} else if ci.Static != nil {
				name = ci.Static.Name()
			}
			if name != "Extension" {
				continue
			}
			call := ci.Value()
			if call == nil {
				continue
			}
			nv, ok := engine.ConstString(ci.Arg(0))
			if !ok {
				continue
			}
			u := extUse{fn: f, nameVal: nv, extCall: call}
			data := extractOf(call, 0)
			for _, cj := range engine.Calls(f) {
				if cj.Static == nil || data == nil {
					continue
				}
				for _, a := range cj.Common.Args {
					if engine.Strip(a) == data {
						u.codec = cj.Static
						dec := cj.Value()
						// setter: invoke on a stream with an argument derived from the decoder's result
						for _, ck := range engine.Calls(f) {
							if !ck.Common.IsInvoke() || !engine.Before(dec, ck.Instr) {
								continue
							}
							if isSetter(ck.Common.Method.Name()) {
								u.setter = ck.Common.Method.Name()
								u.setterAt = ck.Instr
							}
						}
					}
				}
			}
			out = append(out, u)
		}
	}
	return out
}

func isSetter(n string) bool { return n == "DedupKey" || n == "IgnoreBlocks" || n == "SkipFirstBlocks" }

func c03Extensions(c *engine.Ctx, rule string) {
	var fns []*ssa.Function
	for _, f := range c.P.FuncsIn("responsemanager") {
		if engine.FuncPkgPath(f) == engine.Module+"/responsemanager" {
			fns = append(fns, f)
		}
	}
	uses := extensionUses(fns)
	byName := map[string]extUse{}
	for _, u := range uses {
		byName[u.nameVal] = u
	}
	var dedupFn, ignoreFn *ssa.Function
	for _, row := range responderExtRows {
		val, ok := rootConst(c, row.name)
		if !ok {
			c.AnchorMissing(rule, "graphsync."+row.name)
			continue
		}
		u, found := byName[constant.StringVal(val)]
		if !found {
			c.Violate(rule, row.name, token.NoPos, "the responder never reads extension "+row.name+": the request's "+row.setter+" instruction is ignored")
			continue
		}
		c.Analysed(engine.FuncName(u.fn))
		okC := u.codec != nil && engine.FuncPkgPath(u.codec) == engine.Module+"/"+row.codecPkg && u.codec.Name() == row.codecFn
		okS := u.setter == row.setter
		got := "<none>"
		if u.codec != nil {
			got = engine.FuncName(u.codec)
		}
		c.Decide(rule, row.name, u.extCall.Pos(), okC && okS,
			fmt.Sprintf("%s -> %s.%s -> stream.%s", row.name, row.codecPkg, row.codecFn, row.setter),
			fmt.Sprintf("extension %s is decoded by %s and applied through %q (expected %s.%s and %s): the extension is misread or applied to the wrong mechanism", row.name, got, u.setter, row.codecPkg, row.codecFn, row.setter))
		if row.setter == "DedupKey" {
			dedupFn = u.fn
		}
		if row.setter == "IgnoreBlocks" {
			ignoreFn = u.fn
		}
	}
	// order: dedup key before ignore list, in their common caller (static calls: dominance; function table: index order)
	if dedupFn != nil && ignoreFn != nil {
		decided, ordered := false, false
		var at token.Pos
		how := ""
		for _, f := range fns {
			var d, i ssa.Instruction
			for _, ci := range engine.Calls(f) {
				if ci.Static == dedupFn {
					d = ci.Instr
				}
				if ci.Static == ignoreFn {
					i = ci.Instr
				}
			}
			if d != nil && i != nil {
				at = i.Pos()
				// whenever both run, the dedup step runs first: it can be followed by the ignore step and never the reverse
				dThenI, _ := engine.CanReach(d, func(in ssa.Instruction) bool { return in == i }, nil)
				iThenD, _ := engine.CanReach(i, func(in ssa.Instruction) bool { return in == d }, nil)
				decided, ordered, how = true, engine.Before(d, i) || (dThenI && !iThenD), "static calls in "+engine.FuncName(f)
			}
		}
		if !decided {
			// called through a package-level table ranged over in order
			for _, f := range fns {
				for _, ci := range engine.Calls(f) {
					if ci.Static != nil || ci.Common.IsInvoke() {
						continue
					}
					tab := engine.FuncTableTargets(ci.Common.Value)
					di, ii := -1, -1
					for k, t := range tab {
						if t == dedupFn {
							di = k
						}
						if t == ignoreFn {
							ii = k
						}
					}
					if di >= 0 && ii >= 0 {
						at = ci.Instr.Pos()
						decided, ordered, how = true, di < ii, "function table iterated in "+engine.FuncName(f)
					}
				}
			}
		}
		if !decided {
			c.Undecided(rule, "order|DedupKey-before-IgnoreBlocks", at, "cannot establish the order in which the dedup-key and ignore-list steps run (neither static calls in one function nor a package-level function table)")
		} else {
			c.Decide(rule, "order|DedupKey-before-IgnoreBlocks", at, ordered, "the dedup key is applied before the ignore list (so the list lands in the tracker the request will use) — "+how,
				"the ignore list is applied before the dedup key ("+how+"): it is recorded in the peer-wide tracker while the request then runs against its own key's tracker, so the listed blocks are sent anyway")
		}
	}
}

// checkSendAfterLoad (C03.R7): in the responder's traversal loop every load call is followed by the send step for the same link and data.
func checkSendAfterLoad(c *engine.Ctx, rule string) {
	qe := c.P.FuncsIn("responsemanager/queryexecutor")
	n := 0
	for _, f := range qe {
		for _, ci := range engine.Calls(f) {
			if ci.Common.IsInvoke() || ci.Common.StaticCallee() != nil || isStorageFuncType(ci.Common.Value.Type()) != "linking.BlockReadOpener" {
				continue
			}
			loader := f
			for _, g := range qe {
				for _, cj := range engine.Calls(g) {
					if cj.Static != loader {
						continue
					}
					n++
					c.Analysed(engine.FuncName(g))
					lcall := cj.Value()
					data := extractOf(lcall, 0)
					sends := false
					for _, ck := range engine.Calls(g) {
						if ck.Static == nil || ck.Static == loader || !engine.Before(lcall, ck.Instr) {
							continue
						}
						hasData, hasLink := false, false
						for _, a := range ck.Common.Args {
							if data != nil && engine.Strip(a) == data {
								hasData = true
							}
							if engine.SameValue(a, lcall.Call.Args[3]) {
								hasLink = true
							}
						}
						if hasData && hasLink && errNilDominates(ck.Instr, lcall) {
							// and the send precedes the next load (loop): the send is reached before looping back
							sends = true
						}
					}
					c.Decide(rule, engine.FuncName(g)+"|send-after-load", cj.Instr.Pos(), sends, "every load (present or missing) is followed by the send step for the same link and data",
						"a loaded/missing link is not handed to the send step with its data: the response's metadata would skip it")
				}
			}
		}
	}
	if n == 0 {
		c.AnchorMissing(rule, "the responder's block-load call and its caller")
	}
	_ = sort.Strings
}
