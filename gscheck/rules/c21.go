package rules

import (
	"fmt"
	"go/token"
	"go/types"

	"golang.org/x/tools/go/ssa"

	"gscheck/engine"
)

func init() {
	register(&Property{
		Meta: engine.PropMeta{
			ID:    "C21",
			Title: "Work limits are respected and every queued request eventually runs",
			Explanation: "Decides the concurrency bound, not starvation-freedom: (R1) worker goroutines are started only inside the queue's Startup, exactly workerCount of them (finite-domain evaluation of the spawn loop for counts 0..4), and each queue is started at exactly one call site; " +
				"(R2) Executor.ExecuteTask is invoked only from the worker, synchronously (one task at a time per worker); (R3) the incoming maximum starts the response queue with the query executor, the outgoing maximum starts the request queue with the request executor, " +
				"and the per-peer maximum becomes the response queue's MaxOutstandingWorkPerPeer only when > 0; (R4) on every path of each ExecuteTask the worker either terminates, or the task is released exactly once (finish/release handler whose TaskDone is unconditional, or the empty-task handler's TaskDone). " +
				"Not decided: fairness / liveness under all arrival patterns; go-peertaskqueue internals.",
			Assumptions: append([]string{"go-peertaskqueue enforces MaxOutstandingWorkPerPeer and releases a slot per TasksDone"}, commonTrust...),
			Technique:   "finite-domain evaluation of the spawn loop, who-may-call, call-site wiring, CFG path counting",
		},
		Run: runC21,
	})
}

func runC21(c *engine.Ctx) {
	r1 := c.Rule("R1", "exactly workerCount workers are spawned, only in Startup; one Startup call per queue", 2)
	r2 := c.Rule("R2", "ExecuteTask is invoked only by the worker, synchronously", 1)
	r3 := c.Rule("R3", "limit options are wired to the right queue, with the right executor; per-peer limit only when > 0", 3)
	r4 := c.Rule("R4", "every ExecuteTask path terminates the worker or releases the task exactly once", 2)

	tq := c.P.NamedType("taskqueue", "WorkerTaskQueue")
	if tq == nil {
		c.AnchorMissing(r1, "taskqueue.WorkerTaskQueue")
		return
	}
	tqFns := c.P.FuncsIn("taskqueue")
	// worker = function containing the ExecuteTask invoke
	var worker *ssa.Function
	var execSites []engine.CallInfo
	for _, f := range c.P.SrcFuncs() {
		for _, ci := range engine.Calls(f) {
			if ci.Common.IsInvoke() && ci.Common.Method.Name() == "ExecuteTask" && engine.IsNamed(ci.Common.Value.Type(), "~/taskqueue", "Executor") {
				execSites = append(execSites, ci)
				worker = f
			}
			if ci.Static != nil && ci.Static.Name() == "ExecuteTask" && engine.IsShipped(engine.FuncPkgPath(ci.Static)) {
				c.Violate(r2, engine.FuncName(f)+"|direct-ExecuteTask", ci.Instr.Pos(), "ExecuteTask is called directly, outside the worker pool: the concurrency limit does not apply to this execution")
			}
		}
	}
	if worker == nil {
		c.AnchorMissing(r2, "an invoke of taskqueue.Executor.ExecuteTask")
		return
	}
	for _, ci := range execSites {
		_, isCall := ci.Instr.(*ssa.Call)
		inTQ := engine.FuncPkgPath(ci.Instr.Parent()) == engine.Module+"/taskqueue"
		c.Decide(r2, engine.FuncName(ci.Instr.Parent())+"|ExecuteTask", ci.Instr.Pos(), isCall && inTQ,
			"tasks are executed by the queue's worker, synchronously", "ExecuteTask is invoked asynchronously (go/defer) or outside the task queue: more tasks run at once than there are workers")
	}
	c.Analysed(engine.FuncName(worker))
	// R1: go sites of worker
	var startup *ssa.Function
	for _, f := range c.P.SrcFuncs() {
		engine.Instrs(f, func(in ssa.Instruction) {
			g, ok := in.(*ssa.Go)
			if !ok || g.Call.StaticCallee() != worker {
				return
			}
			if startup != nil && startup != f {
				c.Violate(r1, engine.FuncName(f)+"|extra-spawn-site", in.Pos(), "workers are spawned outside the queue's Startup")
			}
			startup = f
		})
	}
	if startup == nil {
		c.AnchorMissing(r1, "a go statement starting the worker")
		return
	}
	c.Analysed(engine.FuncName(startup))
	// count parameter: the integer parameter of Startup
	var countP *ssa.Parameter
	for _, p := range startup.Params {
		if b, ok := p.Type().Underlying().(*types.Basic); ok && b.Info()&types.IsInteger != 0 {
			countP = p
		}
	}
	if countP == nil {
		c.Undecided(r1, engine.FuncName(startup)+"|spawn-count", startup.Pos(), "Startup has no integer worker-count parameter")
	} else {
		bad := ""
		for n := int64(0); n <= 4; n++ {
			spawned := int64(0)
			ev := &engine.Evaluator{
				MaxVisits: 12,
				Input: func(v ssa.Value) (engine.EVal, bool) {
					if v == ssa.Value(countP) {
						return engine.EVal{K: engine.EInt, I: n}, true
					}
					return engine.EVal{}, false
				},
				Observe: func(in ssa.Instruction, get func(ssa.Value) engine.EVal) {
					if g, ok := in.(*ssa.Go); ok && g.Call.StaticCallee() == worker {
						spawned++
					}
				},
			}
			ev.Run(startup)
			if ev.Aborted {
				bad = "spawn loop is not a simple counted loop (branch on a value other than the counter)"
				break
			}
			if spawned != n {
				bad = fmt.Sprintf("Startup(%d, …) starts %d workers", n, spawned)
				break
			}
		}
		c.Decide(r1, engine.FuncName(startup)+"|spawn-count", startup.Pos(), bad == "", "Startup(n, …) starts exactly n workers for n = 0..4 (single counted loop, evaluated on the SSA)", bad)
	}
	// one Startup call per queue in impl.New
	implNew := c.P.Func("impl", "", "New")
	if implNew == nil {
		c.AnchorMissing(r1, "impl.New")
		return
	}
	c.Analysed(engine.FuncName(implNew))
	type su struct {
		ci   engine.CallInfo
		recv ssa.Value
	}
	var sus []su
	for _, f := range c.P.SrcFuncs() {
		if !engine.IsShipped(engine.FuncPkgPath(f)) {
			continue
		}
		for _, ci := range engine.Calls(f) {
			if ci.Static == startup {
				sus = append(sus, su{ci, engine.LocalValue(ci.Recv())})
				if f != implNew {
					c.Violate(r1, engine.FuncName(f)+"|Startup-site", ci.Instr.Pos(), "a task queue is started outside impl.New: its workers add to the configured maximum")
				}
			}
		}
	}
	seen := map[ssa.Value]int{}
	for _, s := range sus {
		seen[s.recv]++
	}
	for _, s := range sus {
		ok := seen[s.recv] == 1 && !inLoop(s.ci.Instr.Block())
		c.Decide(r1, "Startup-once|"+engine.Path(s.recv)+"@"+roleOfQueue(c, implNew, s.recv), s.ci.Instr.Pos(), ok, "this queue is started exactly once", "a queue is started more than once: twice the configured number of workers run")
	}

	// R3 wiring
	cfgT := func(n string) *types.Var { return c.P.Field("impl", "graphsyncConfigOptions", n) }
	for _, s := range sus {
		role := roleOfQueue(c, implNew, s.recv)
		wantCfg, wantExec := "", ""
		switch role {
		case "response":
			wantCfg, wantExec = "maxInProgressIncomingRequests", engine.Module+"/responsemanager/queryexecutor"
		case "request":
			wantCfg, wantExec = "maxInProgressOutgoingRequests", engine.Module+"/requestmanager/executor"
		default:
			c.Undecided(r3, "Startup|"+engine.Path(s.recv), s.ci.Instr.Pos(), "cannot tell whether this queue serves the request or the response manager")
			continue
		}
		okCfg := isLoadOfField(s.ci.Arg(0), cfgT(wantCfg))
		execV := engine.LocalValue(s.ci.Arg(1))
		okExec := false
		if call, ok := execV.(*ssa.Call); ok {
			if sc := call.Call.StaticCallee(); sc != nil && engine.FuncPkgPath(sc) == wantExec {
				okExec = true
			}
		}
		c.Decide(r3, role+"-queue|limit+executor", s.ci.Instr.Pos(), okCfg && okExec,
			fmt.Sprintf("%s queue started with %s workers running the %s", role, wantCfg, wantExec[len(engine.Module)+1:]),
			fmt.Sprintf("the %s queue is not started with %s (%v) / its own executor (%v): limits are swapped or unenforced", role, wantCfg, okCfg, okExec))
	}
	for _, w := range []struct{ opt, cfg string }{
		{"MaxInProgressIncomingRequests", "maxInProgressIncomingRequests"},
		{"MaxInProgressOutgoingRequests", "maxInProgressOutgoingRequests"},
		{"MaxInProgressIncomingRequestsPerPeer", "maxInProgressIncomingRequestsPerPeer"},
	} {
		if f := cfgT(w.cfg); f != nil {
			optionSetterWrites(c, r3, w.opt, f)
		} else {
			c.AnchorMissing(r3, "impl.graphsyncConfigOptions."+w.cfg)
		}
	}
	c21PerPeer(c, r3)

	// R4 task release
	c21Release(c, r4, tqFns)
	r5 := c.Rule("R5", "the task marked done is the very task that was popped (the queue matches active tasks by pointer)", 2)
	checkTaskIdentity(c, r5)
}

// sliceHolds: the variadic slice value may contain v (appended).
func sliceHolds(sl ssa.Value, v ssa.Value) bool {
	seen := map[ssa.Value]bool{}
	var walk func(x ssa.Value) bool
	walk = func(x ssa.Value) bool {
		x = engine.Strip(x)
		if seen[x] {
			return false
		}
		seen[x] = true
		switch y := x.(type) {
		case *ssa.Phi:
			for _, e := range y.Edges {
				if walk(e) {
					return true
				}
			}
		case *ssa.Call:
			if b, ok := y.Call.Value.(*ssa.Builtin); ok && b.Name() == "append" {
				for _, a := range y.Call.Args {
					if walk(a) {
						return true
					}
				}
			}
		case *ssa.Slice:
			if al, ok := y.X.(*ssa.Alloc); ok {
				for _, r := range *al.Referrers() {
					if ia, ok := r.(*ssa.IndexAddr); ok {
						for _, rr := range *ia.Referrers() {
							if st, ok := rr.(*ssa.Store); ok && engine.Strip(st.Val) == v {
								return true
							}
						}
					}
				}
			}
		}
		return false
	}
	return walk(sl)
}

// roleOfQueue: which manager constructor receives this queue value in impl.New.
func roleOfQueue(c *engine.Ctx, implNew *ssa.Function, q ssa.Value) string {
	if q == nil {
		return "?"
	}
	for _, ci := range engine.Calls(implNew) {
		if ci.Static == nil || ci.Static.Name() != "New" {
			continue
		}
		for _, a := range ci.Common.Args {
			if engine.LocalValue(stripConv(a)) == engine.LocalValue(stripConv(q)) {
				switch engine.FuncPkgPath(ci.Static) {
				case engine.Module + "/responsemanager":
					return "response"
				case engine.Module + "/requestmanager":
					return "request"
				}
			}
		}
	}
	return "?"
}

func c21Release(c *engine.Ctx, rule string, tqFns []*ssa.Function) {
	for _, ex := range []struct{ rel, typ, mgr string }{
		{"requestmanager/executor", "Executor", "requestmanager"},
		{"responsemanager/queryexecutor", "QueryExecutor", "responsemanager"},
	} {
		f := c.P.Func(ex.rel, ex.typ, "ExecuteTask")
		if f == nil {
			c.AnchorMissing(rule, ex.rel+"."+ex.typ+".ExecuteTask")
			continue
		}
		c.Analysed(engine.FuncName(f))
		m := loadMgr(c, rule, ex.mgr)
		if m == nil {
			continue
		}
		// release calls: invokes on the manager interface whose loop handler calls TaskDone unconditionally
		releaseNames := map[string]bool{}
		emptyDone := false
		for _, td := range m.queueCalls("TaskDone") {
			h := td.Instr.Parent()
			if ok, _ := engine.MustReachFromEntry(h, func(in ssa.Instruction) bool { return in == td.Instr }, nil); ok {
				// find the API method that dispatches to h
				for _, api := range m.fns {
					if api.Signature.Recv() == nil || !api.Object().Exported() {
						continue
					}
					for _, hh := range m.dispatchHandlers(c, api) {
						if hh == h {
							releaseNames[api.Name()] = true
						}
					}
				}
				c.Hold(rule, engine.FuncName(h)+"|TaskDone-unconditional", td.Instr.Pos(), "finish/release handler marks the task done on every path")
			} else {
				// empty-task TaskDone: under Empty == true
				emptyF := false
				for _, cd := range engine.InstrConds(td.Instr) {
					if fl := fieldReadOf(cd.V); fl != nil && fl.Name() == "Empty" && cd.Pol {
						emptyF = true
					}
				}
				if emptyF {
					emptyDone = true
					c.Hold(rule, engine.FuncName(h)+"|TaskDone-when-empty", td.Instr.Pos(), "start handler marks an empty task done")
				} else {
					c.Violate(rule, engine.FuncName(h)+"|TaskDone-conditional", td.Instr.Pos(), "TaskDone is neither unconditional (finish handler) nor tied to the empty-task result: a worker slot can leak or be released twice")
				}
			}
		}
		if len(releaseNames) == 0 {
			c.Violate(rule, ex.mgr+"|no-release-handler", f.Pos(), "no manager operation reaches a handler that unconditionally marks the task done")
			continue
		}
		isRelease := func(in ssa.Instruction) bool {
			cc, ok := in.(*ssa.Call)
			return ok && cc.Call.IsInvoke() && releaseNames[cc.Call.Method.Name()]
		}
		stops := engine.CountFrom(f.Blocks[0], engine.C0, engine.CountCfg{Event: func(in ssa.Instruction) engine.CountSet {
			if isRelease(in) {
				return engine.C1
			}
			return 0
		}, Deep: true})
		ok := true
		bad := ""
		n := 0
		for _, s := range stops {
			r, isRet := s.At.(*ssa.Return)
			if !isRet || r.Block() == f.Recover {
				continue
			}
			n++
			term, isC := engine.ConstBool(engine.ReturnValue(r, 0))
			switch {
			case isC && term:
				if s.Count != engine.C0 {
					ok, bad = false, "worker terminates after releasing"
				}
			case s.Count == engine.C1:
			case s.Count == engine.C0:
				// allowed only on the empty-task path
				emptyPath := false
				for _, cd := range engine.InstrConds(r) {
					if fl := fieldReadOf(cd.V); fl != nil && fl.Name() == "Empty" && cd.Pol {
						emptyPath = true
					}
				}
				if !emptyPath || !emptyDone {
					ok, bad = false, "a path returns at "+c.P.Pos(r.Pos())+" without releasing the task (the worker slot and the per-peer allowance stay taken)"
				}
			default:
				ok, bad = false, fmt.Sprintf("%s releases of the task before the return at %s", s.Count, c.P.Pos(r.Pos()))
			}
		}
		c.Decide(rule, engine.FuncName(f)+"|release-once", f.Pos(), ok && n > 0, "every path terminates the worker, or releases the task exactly once (empty tasks are released by the start handler)", bad)
	}
}

// c21PerPeer (C21.R3, C25.R4): the per-peer maximum becomes the response queue's MaxOutstandingWorkPerPeer,
// with the option's own value, whenever it is > 0.  (It is also what keeps a stalled peer from occupying every
// shared executor: C25.)
func c21PerPeer(c *engine.Ctx, r3 string) {
	implNew := c.P.Func("impl", "", "New")
	if implNew == nil {
		c.AnchorMissing(r3, "impl.New")
		return
	}
	cfgT := func(name string) *types.Var { return c.P.Field("impl", "graphsyncConfigOptions", name) }
	// per-peer option
	perPeer := cfgT("maxInProgressIncomingRequestsPerPeer")
	found := false
	for _, ci := range engine.Calls(implNew) {
		if !ci.Is("github.com/ipfs/go-peertaskqueue.MaxOutstandingWorkPerPeer") {
			continue
		}
		found = true
		okArg := isLoadOfField(ci.Arg(0), perPeer)
		guard := false
		for _, cd := range engine.InstrConds(ci.Instr) {
			if b, ok := cd.V.(*ssa.BinOp); ok && isLoadOfField(b.X, perPeer) && ((b.Op == token.GTR && cd.Pol) || (b.Op == token.NEQ && cd.Pol)) {
				guard = true
			}
		}
		// the option list reaches the response queue's constructor
		reaches := false
		call := ci.Value()
		for _, cj := range engine.Calls(implNew) {
			if cj.Static != nil && cj.Static.Name() == "NewTaskQueue" && roleOfQueue(c, implNew, cj.Value()) == "response" {
				if sliceHolds(cj.Common.Args[len(cj.Common.Args)-1], call) {
					reaches = true
				}
			}
		}
		// ... and whenever it is > 0: no further condition decides whether the limit is installed
		extra := 0
		consumerIfs := map[*ssa.If]bool{}
		for _, cj := range engine.Calls(implNew) {
			if cj.Static != nil && cj.Static.Name() == "NewTaskQueue" {
				for _, cd := range engine.RawInstrConds(cj.Instr) {
					consumerIfs[cd.If] = true
				}
			}
		}
		for _, cd := range engine.RawInstrConds(ci.Instr) {
			if consumerIfs[cd.If] {
				continue // also governs the queue's construction: not what decides whether the limit is installed
			}
			if b, ok := cd.V.(*ssa.BinOp); ok && isLoadOfField(b.X, perPeer) {
				if k, isK := engine.ConstInt(b.Y); isK && k == 0 {
					continue
				}
			}
			extra++
		}
		c.Decide(r3, "per-peer-limit|whenever-positive", ci.Instr.Pos(), extra == 0,
			"a positive per-peer maximum is always installed",
			"whether the per-peer maximum is installed depends on something besides its being > 0: for some configurations the limit is silently dropped and one peer can run more traversals at once than configured")
		c.Decide(r3, "per-peer-limit", ci.Instr.Pos(), okArg && guard && reaches,
			"per-peer maximum becomes MaxOutstandingWorkPerPeer of the response queue, only when > 0",
			fmt.Sprintf("per-peer limit wiring broken (value from the option: %v, only when > 0: %v, reaches the response queue: %v)", okArg, guard, reaches))
	}
	if !found {
		c.Violate(r3, "per-peer-limit", implNew.Pos(), "the per-peer maximum is never turned into a MaxOutstandingWorkPerPeer option")
	}

}
