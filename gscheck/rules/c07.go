package rules

import (
	"strings"
	"fmt"
	"go/token"
	"go/types"

	"golang.org/x/tools/go/ssa"

	"gscheck/engine"
)

func init() {
	register(&Property{
		Meta: engine.PropMeta{
			ID:    "C07",
			Title: "Link budgets cap loaded blocks exactly",
			Explanation: "Decides: (R1) every place in /repo that charges traversal.Budget.LinkBudget uses the same exceed-threshold as go-ipld-prime's own charge sites (derived from the dependency's source on every run), " +
				"so that the root load and the per-link loads count against one budget identically; (R2) the budget object decremented for the root is the one handed to traversal.Progress; " +
				"(R3) at both managers the budget installed is the smaller non-zero of the global and per-request limits and is absent iff both are zero (finite-domain evaluation over all weak orderings); " +
				"(R4) option values reach the manager fields they belong to and hook MaxLinks reach the per-request fields. " +
				"Not decided: the number of loads over all DAGs (follows from R1-R2 only together with go-ipld-prime's walk, trusted).",
			Assumptions: append([]string{"go-ipld-prime traversal charges one link per block load (its checkLinkBudget is the reference threshold)"}, commonTrust...),
			Technique:   "SSA pattern normalisation of charge sites against a reference extracted from the dependency source; finite-domain abstract evaluation; call-site wiring",
		},
		Run: runC07,
	})
}

type chargeSite struct {
	fn   *ssa.Function
	pos  token.Pos
	T    int64
	ok   bool
	why  string
	base ssa.Value // the *Budget pointer being charged
}

// findChargeSites finds code that decrements Budget.LinkBudget and branches to ErrBudgetExceeded.
func findChargeSites(fs []*ssa.Function, linkBudget *types.Var, errT *types.Named) []chargeSite {
	var out []chargeSite
	for _, f := range fs {
		var decs []*ssa.Store
		for _, st := range engine.StoresTo([]*ssa.Function{f}, linkBudget) {
			if b, ok := st.Val.(*ssa.BinOp); ok && b.Op == token.SUB {
				if n, ok := engine.ConstInt(b.Y); ok && n == 1 && isLoadOfField(b.X, linkBudget) {
					decs = append(decs, st)
				}
			}
		}
		for _, dec := range decs {
			cs := chargeSite{fn: f, pos: dec.Pos(), base: dec.Addr.(*ssa.FieldAddr).X}
			// find the guarding comparison: an If on (LinkBudget-derived cmp const) one of whose branches builds ErrBudgetExceeded
			found := false
			for _, b := range f.Blocks {
				ifi, ok := b.Instrs[len(b.Instrs)-1].(*ssa.If)
				if !ok {
					continue
				}
				cmp, ok := ifi.Cond.(*ssa.BinOp)
				if !ok {
					continue
				}
				var x ssa.Value
				var k int64
				op := cmp.Op
				if n, ok := engine.ConstInt(cmp.Y); ok && budgetDerived(cmp.X, linkBudget) {
					x, k = cmp.X, n
				} else if n, ok := engine.ConstInt(cmp.X); ok && budgetDerived(cmp.Y, linkBudget) {
					x, k = cmp.Y, n
					op = flipOp(op)
				} else {
					continue
				}
				// which successor builds the error?
				exT := blockBuilds(b.Succs[0], errT)
				exF := blockBuilds(b.Succs[1], errT)
				if exT == exF {
					continue
				}
				found = true
				// normalise "exceeded iff x <= K"
				var K int64
				switch {
				case exT && op == token.LEQ:
					K = k
				case exT && op == token.LSS:
					K = k - 1
				case exF && op == token.GTR:
					K = k
				case exF && op == token.GEQ:
					K = k - 1
				case exT && op == token.EQL && k == 0:
					K = 0 // == 0 treated as <= 0 for a non-negative counter
				default:
					cs.why = fmt.Sprintf("comparison %s %d with exceed-branch polarity %v cannot be normalised to 'exceeded iff value <= K'", op, k, exT)
					out = append(out, cs)
					continue
				}
				// is x the pre- or post-decrement value?
				post := false
				if sub, ok := stripConv(x).(*ssa.BinOp); ok && sub.Op == token.SUB {
					post = true
				} else if ld, ok := stripConv(x).(*ssa.UnOp); ok {
					switch {
					case engine.Before(dec, ld):
						post = true
					case engine.Before(ld, dec) || engine.Before(ifi, dec):
						post = false
					default:
						// neither dominates the other (the test sits in a short-circuit operand, the decrement
						// under a repeated nil check): order them by reachability
						toDec, _ := engine.CanReach(ld, func(in ssa.Instruction) bool { return in == ssa.Instruction(dec) }, nil)
						toLd, _ := engine.CanReach(dec, func(in ssa.Instruction) bool { return in == ssa.Instruction(ld) }, nil)
						switch {
						case toDec && !toLd:
							post = false
						case toLd && !toDec:
							post = true
						default:
							cs.why = "cannot order the budget test relative to the decrement"
							out = append(out, cs)
							continue
						}
					}
				}
				if post {
					K++
				}
				cs.T, cs.ok = K, true
				if post {
					cs.why = fmt.Sprintf("tests the post-decrement value against %d: exceeded iff pre-decrement budget <= %d", K-1, K)
				} else {
					cs.why = fmt.Sprintf("tests the pre-decrement value: exceeded iff budget <= %d", K)
				}
				out = append(out, cs)
			}
			if !found {
				cs.why = "decrement of LinkBudget with no budget-exceeded test in the same function"
				out = append(out, cs)
			}
		}
	}
	return out
}

func flipOp(op token.Token) token.Token {
	switch op {
	case token.LSS:
		return token.GTR
	case token.LEQ:
		return token.GEQ
	case token.GTR:
		return token.LSS
	case token.GEQ:
		return token.LEQ
	}
	return op
}

func budgetDerived(v ssa.Value, f *types.Var) bool {
	v = stripConv(v)
	if isLoadOfField(v, f) {
		return true
	}
	if b, ok := v.(*ssa.BinOp); ok && b.Op == token.SUB {
		return isLoadOfField(b.X, f)
	}
	return false
}

// blockBuilds: the block (or a block it dominates, up to the next return) allocates a value of the named type.
func blockBuilds(b *ssa.BasicBlock, t *types.Named) bool {
	found := false
	for _, d := range b.Parent().Blocks {
		if d != b && !(b.Dominates(d) && len(b.Preds) == 1) {
			continue
		}
		for _, in := range d.Instrs {
			if al, ok := in.(*ssa.Alloc); ok {
				if p, ok := al.Type().(*types.Pointer); ok && types.Identical(p.Elem(), t) {
					found = true
				}
			}
		}
	}
	return found
}

func runC07(c *engine.Ctx) {
	r1 := c.Rule("R1", "every LinkBudget charge site in /repo uses the exceed-threshold of go-ipld-prime's own charge sites (exceeded iff pre-decrement budget <= T)", 2)
	r2 := c.Rule("R2", "the *Budget charged for the root load is the one handed to traversal.Progress", 1)
	r3 := c.Rule("R3", "the budget installed is the smaller non-zero of global and per-request limits, and no budget iff both are zero (all weak orderings)", 2)
	r4 := c.Rule("R4", "link-limit options and hook MaxLinks are wired to the fields they belong to", 4)

	trav := c.P.Pkg("github.com/ipld/go-ipld-prime/traversal")
	if trav == nil {
		c.AnchorMissing(r1, "github.com/ipld/go-ipld-prime/traversal")
		return
	}
	budgetT, _ := trav.Pkg.Scope().Lookup("Budget").(*types.TypeName)
	errTN, _ := trav.Pkg.Scope().Lookup("ErrBudgetExceeded").(*types.TypeName)
	if budgetT == nil || errTN == nil {
		c.AnchorMissing(r1, "traversal.Budget / traversal.ErrBudgetExceeded")
		return
	}
	var linkBudget *types.Var
	st := budgetT.Type().Underlying().(*types.Struct)
	for i := 0; i < st.NumFields(); i++ {
		if st.Field(i).Name() == "LinkBudget" {
			linkBudget = st.Field(i)
		}
	}
	if linkBudget == nil {
		c.AnchorMissing(r1, "traversal.Budget.LinkBudget")
		return
	}
	errT := errTN.Type().(*types.Named)

	// reference sites from the dependency's source
	var depFns []*ssa.Function
	for _, m := range trav.Members {
		switch x := m.(type) {
		case *ssa.Function:
			depFns = append(depFns, engine.WithClosures(x)...)
		case *ssa.Type:
			for _, t := range []types.Type{x.Type(), types.NewPointer(x.Type())} {
				ms := c.P.Prog.MethodSets.MethodSet(t)
				for i := 0; i < ms.Len(); i++ {
					if f := c.P.Prog.MethodValue(ms.At(i)); f != nil && f.Blocks != nil && f.Pkg == trav {
						depFns = append(depFns, engine.WithClosures(f)...)
					}
				}
			}
		}
	}
	ref := findChargeSites(depFns, linkBudget, errT)
	var T int64
	haveRef := false
	seenRef := map[string]bool{}
	for _, s := range ref {
		k := "go-ipld-prime:" + engine.FuncName(s.fn)
		if seenRef[k] {
			continue
		}
		seenRef[k] = true
		if !s.ok {
			c.Undecided(r1, k, s.pos, "reference charge site not normalisable: "+s.why)
			continue
		}
		if haveRef && s.T != T {
			c.Undecided(r1, k, s.pos, fmt.Sprintf("reference charge sites disagree (T=%d vs T=%d)", s.T, T))
			continue
		}
		T, haveRef = s.T, true
		c.Hold(r1, k, s.pos, fmt.Sprintf("reference: %s (T=%d)", s.why, s.T))
	}
	if !haveRef {
		c.AnchorMissing(r1, "a LinkBudget charge site in go-ipld-prime/traversal (reference threshold)")
		return
	}
	sites := findChargeSites(c.P.SrcFuncs(), linkBudget, errT)
	for _, s := range sites {
		k := engine.FuncName(s.fn)
		c.Analysed(k)
		if !s.ok {
			c.Undecided(r1, k, s.pos, s.why)
			continue
		}
		c.Decide(r1, k, s.pos, s.T == T,
			fmt.Sprintf("%s — same as go-ipld-prime (T=%d)", s.why, T),
			fmt.Sprintf("%s, but go-ipld-prime's own charge sites use T=%d: a budget of N admits a different number of loads at this site (off by %d)", s.why, T, s.T-T))
		// R2: same pointer handed to Progress.Budget
		progT, _ := trav.Pkg.Scope().Lookup("Progress").(*types.TypeName)
		var progBudget *types.Var
		if progT != nil {
			ps := progT.Type().Underlying().(*types.Struct)
			for i := 0; i < ps.NumFields(); i++ {
				if ps.Field(i).Name() == "Budget" {
					progBudget = ps.Field(i)
				}
			}
		}
		if progBudget == nil {
			c.AnchorMissing(r2, "traversal.Progress.Budget")
			continue
		}
		stores := engine.StoresTo([]*ssa.Function{s.fn}, progBudget)
		if len(stores) == 0 {
			c.Violate(r2, k, s.pos, "the function charging the root load never hands a Budget to traversal.Progress: per-link loads are uncounted")
			continue
		}
		// ... on every path to the walk (a conditional hand-over leaves some walks unbudgeted)
		for _, ci := range engine.Calls(s.fn) {
			if ci.Static == nil || ci.Static.Pkg == nil || ci.Static.Pkg.Pkg != trav.Pkg || !strings.HasPrefix(ci.Static.Name(), "Walk") {
				continue
			}
			dom := false
			for _, st := range stores {
				if engine.Before(st, ci.Instr) {
					dom = true
				}
			}
			c.Decide(r2, k+"|"+ci.Static.Name()+"-gets-budget", ci.Instr.Pos(), dom,
				"the budget is handed to traversal.Progress on every path to the walk",
				"traversal.Progress.Budget is only set on some paths to "+ci.Static.Name()+": on the others the walk runs without a budget and loads every link")
		}
		for _, st := range stores {
			c.Decide(r2, k, st.Pos(), engine.Path(st.Val) == engine.Path(s.base),
				"Progress.Budget is the same pointer ("+engine.Path(s.base)+") the root charge decrements",
				"Progress.Budget ("+engine.Path(st.Val)+") is not the pointer the root charge decrements ("+engine.Path(s.base)+"): root and per-link loads count against different budgets")
		}
	}

	// R3: smaller non-zero at both managers
	type site struct{ rel, mgr, entry, perReq string }
	for _, s := range []site{
		{"requestmanager", "RequestManager", "inProgressRequestStatus", "maxLinks"},
		{"responsemanager", "ResponseManager", "inProgressResponseStatus", "maxLinks"},
	} {
		g := c.P.Field(s.rel, s.mgr, "maxLinksPerRequest")
		r := c.P.Field(s.rel, s.entry, s.perReq)
		if g == nil || r == nil {
			c.AnchorMissing(r3, s.rel+"."+s.mgr+".maxLinksPerRequest / "+s.entry+"."+s.perReq)
			continue
		}
		// the function that stores into Budget.LinkBudget in this package
		var fn *ssa.Function
		var lbStore *ssa.Store
		for _, f := range c.P.FuncsIn(s.rel) {
			if engine.FuncPkgPath(f) != engine.Module+"/"+s.rel {
				continue
			}
			for _, st := range engine.StoresTo([]*ssa.Function{f}, linkBudget) {
				fn, lbStore = f, st
			}
		}
		if fn == nil {
			c.AnchorMissing(r3, "a store to traversal.Budget.LinkBudget in "+s.rel)
			continue
		}
		c.Analysed(engine.FuncName(fn))
		tb := c.P.Field("ipldutil", "TraversalBuilder", "Budget")
		if tb == nil {
			c.AnchorMissing(r3, "ipldutil.TraversalBuilder.Budget")
			continue
		}
		key := engine.FuncName(fn)
		bad := ""
		n := 0
		for _, gv := range []int64{0, 1, 2, 3} {
			for _, rv := range []int64{0, 1, 2, 3} {
				want := gv
				if gv == 0 || (rv != 0 && rv < gv) {
					want = rv
				}
				sawLB, sawTB := false, false
				ev := &engine.Evaluator{
					Input: func(v ssa.Value) (engine.EVal, bool) {
						if isLoadOfFieldExact(v, g) {
							return engine.EVal{K: engine.EInt, I: gv}, true
						}
						if isLoadOfFieldExact(v, r) {
							return engine.EVal{K: engine.EInt, I: rv}, true
						}
						return engine.EVal{}, false
					},
					Observe: func(in ssa.Instruction, get func(ssa.Value) engine.EVal) {
						st, ok := in.(*ssa.Store)
						if !ok {
							return
						}
						fa, ok := st.Addr.(*ssa.FieldAddr)
						if !ok {
							return
						}
						switch engine.FieldOf(fa) {
						case linkBudget:
							sawLB = true
							v := get(st.Val)
							if want == 0 {
								bad = fmt.Sprintf("global=%d per-request=%d: a budget is created although no limit applies", gv, rv)
							} else if v.K != engine.EInt || v.I != want {
								bad = fmt.Sprintf("global=%d per-request=%d: LinkBudget is set to %s, expected the smaller non-zero limit %d", gv, rv, evalStr(v), want)
							}
						case tb:
							sawTB = true
							v := get(st.Val)
							if want == 0 && v.K != engine.ENil {
								bad = fmt.Sprintf("global=%d per-request=%d: TraversalBuilder.Budget is %s, expected nil (no limit)", gv, rv, evalStr(v))
							}
							if want > 0 && v.K != engine.EPtr {
								bad = fmt.Sprintf("global=%d per-request=%d: TraversalBuilder.Budget is %s, expected a budget of %d", gv, rv, evalStr(v), want)
							}
						}
					},
				}
				ev.Run(fn)
				n++
				if ev.Aborted {
					bad = "path exploration bound exceeded"
				}
				if want > 0 && !sawLB {
					bad = fmt.Sprintf("global=%d per-request=%d: no path sets LinkBudget although limit %d applies", gv, rv, want)
				}
				if !sawTB {
					bad = fmt.Sprintf("global=%d per-request=%d: TraversalBuilder.Budget is never set", gv, rv)
				}
			}
		}
		// the budget object is per request: every non-nil value reaching TraversalBuilder.Budget is allocated in this function
		for _, st := range engine.StoresTo([]*ssa.Function{fn}, tb) {
			fresh := true
			var walk func(v ssa.Value, d int)
			walk = func(v ssa.Value, d int) {
				if d == 0 {
					fresh = false
					return
				}
				switch x := v.(type) {
				case *ssa.Phi:
					for _, e := range x.Edges {
						walk(e, d-1)
					}
				case *ssa.Alloc:
				case *ssa.Const:
					if !engine.IsNilConst(x) {
						fresh = false
					}
				default:
					fresh = false
				}
			}
			walk(st.Val, 4)
			c.Decide(r3, key+"|fresh-budget-per-request", st.Pos(), fresh, "the budget handed to the traversal is a fresh object (or nil) for each request",
				"the traversal is handed a budget object that is not allocated for this request: the counter is decremented in place, so requests share one allowance and later ones are cut short")
		}
		c.Decide(r3, key, lbStore.Pos(), bad == "",
			fmt.Sprintf("for all %d (global, per-request) pairs over {0,1,2,3}² — every weak ordering incl. ties and zeros — LinkBudget = min non-zero, Budget nil iff both zero", n), bad)
	}

	// R4 wiring
	implNew := c.P.Func("impl", "", "New")
	if implNew == nil {
		c.AnchorMissing(r4, "impl.New")
		return
	}
	for _, w := range []struct{ opt, cfg, rel, ctor, typ, field string }{
		{"MaxLinksPerOutgoingRequests", "maxLinksPerOutgoingRequest", "requestmanager", "New", "RequestManager", "maxLinksPerRequest"},
		{"MaxLinksPerIncomingRequests", "maxLinksPerIncomingRequest", "responsemanager", "New", "ResponseManager", "maxLinksPerRequest"},
	} {
		cf := c.P.Field("impl", "graphsyncConfigOptions", w.cfg)
		dst := c.P.Field(w.rel, w.typ, w.field)
		ctor := c.P.Func(w.rel, "", w.ctor)
		if cf == nil || dst == nil || ctor == nil {
			c.AnchorMissing(r4, "impl.graphsyncConfigOptions."+w.cfg+" / "+w.rel+"."+w.ctor)
			continue
		}
		optionSetterWrites(c, r4, w.opt, cf)
		configReaches(c, r4, implNew, cf, ctor, dst)
	}
	// hook MaxLinks -> result.MaxLinks -> entry.maxLinks
	for _, w := range []struct{ rel, hooksRel, actions, result, entry string }{
		{"requestmanager", "requestmanager/hooks", "requestHookActions", "RequestResult", "inProgressRequestStatus"},
		{"responsemanager", "responsemanager/hooks", "requestHookActions", "RequestResult", "inProgressResponseStatus"},
	} {
		af := c.P.Field(w.hooksRel, w.actions, "maxLinks")
		rf := c.P.Field(w.hooksRel, w.result, "MaxLinks")
		ef := c.P.Field(w.rel, w.entry, "maxLinks")
		if af == nil || rf == nil || ef == nil {
			c.AnchorMissing(r4, w.hooksRel+" maxLinks chain")
			continue
		}
		key := w.hooksRel + ".MaxLinks->" + w.entry + ".maxLinks"
		ok1, ok2, ok3 := false, false, false
		var pos token.Pos
		// action setter stores its parameter
		if m := c.P.Func(w.hooksRel, w.actions, "MaxLinks"); m != nil {
			for _, st := range engine.StoresTo([]*ssa.Function{m}, af) {
				if len(m.Params) == 2 && stripConv(st.Val) == m.Params[1] {
					ok1 = true
				}
			}
		}
		for _, f := range c.P.FuncsIn(w.hooksRel) {
			for _, st := range engine.StoresTo([]*ssa.Function{f}, rf) {
				if isLoadOfField(st.Val, af) {
					ok2 = true
				}
			}
		}
		for _, f := range c.P.FuncsIn(w.rel) {
			for _, st := range engine.StoresTo([]*ssa.Function{f}, ef) {
				pos = st.Pos()
				if fl, _ := engine.LoadedField(stripConv(st.Val)); fl == rf {
					ok3 = true
				}
			}
		}
		c.Decide(r4, key, pos, ok1 && ok2 && ok3, "hook action value -> result.MaxLinks -> per-request maxLinks",
			fmt.Sprintf("hook MaxLinks chain broken (setter stores arg: %v, result copies it: %v, entry takes result.MaxLinks: %v)", ok1, ok2, ok3))
	}
}

func isLoadOfFieldExact(v ssa.Value, f *types.Var) bool {
	u, ok := v.(*ssa.UnOp)
	if !ok || u.Op != token.MUL {
		return false
	}
	fa, ok := u.X.(*ssa.FieldAddr)
	return ok && engine.FieldOf(fa) == f
}

func evalStr(v engine.EVal) string {
	switch v.K {
	case engine.EInt:
		return fmt.Sprintf("%d", v.I)
	case engine.ENil:
		return "nil"
	case engine.EPtr:
		return "a budget object"
	case engine.EBool:
		return fmt.Sprintf("%v", v.B)
	}
	return "an undetermined value"
}
