package rules

import (
	"go/constant"
	"regexp"
	"path/filepath"
	"os"
	"fmt"
	"go/token"
	"go/types"
	"sort"
	"strings"

	"golang.org/x/tools/go/ssa"

	"gscheck/engine"
)

func init() {
	register(&Property{
		Meta: engine.PropMeta{
			ID:    "C11",
			Title: "Wire encoding round-trips every well-formed message",
			Explanation: "Decides writer/reader table agreement, not value-level round-trip: (R1) for each wire struct the set of fields the encoder writes equals the set the decoder reads equals all fields (one documented exception: the extension map's key list, consumed reflectively by bindnode); " +
				"(R2) slot agreement: the internal field an accessor reads when the encoder fills schema field F is the internal field the decoder's constructor stores the F-derived argument into, and each request-type branch of the decoder calls a constructor storing that same type constant; " +
				"(R3) omission <=> default: every optional field is omitted by the encoder exactly when it equals the default the decoder substitutes when the field is absent; (R4) a nil extension payload is encoded as a nil map value and a nil map value decodes to a nil payload; " +
				"(R5) each extension codec's encoder builds the node kind its decoder consumes; (R6) framing: the length prefix written is the length of exactly the payload that follows it, and the decoder reads length-prefixed messages bounded by the network's maximum message size. " +
				"Not decided: equality of decoded and original messages over all values; bindnode / dag-cbor (trusted).",
			Assumptions: append([]string{"bindnode encodes/decodes the registered Go structs faithfully to the embedded schema (RegisterType at init would panic otherwise)"}, commonTrust...),
			Technique:   "table extraction from SSA (field read/write sets, accessor and constructor summaries, default classification) and cross-comparison",
		},
		Run: runC11,
	})
}

const bindRel = "message/ipldbind"

func wireStructField(f *types.Var) bool {
	return f != nil && f.Pkg() != nil && f.Pkg().Path() == engine.Module+"/"+bindRel && f.IsField()
}

// reachableIn returns functions reachable from root through static calls within the given packages.
func reachableIn(root *ssa.Function, pkgs ...string) []*ssa.Function {
	seen := map[*ssa.Function]bool{}
	var out []*ssa.Function
	var walk func(f *ssa.Function)
	walk = func(f *ssa.Function) {
		if f == nil || seen[f] || f.Blocks == nil {
			return
		}
		in := false
		for _, p := range pkgs {
			if engine.FuncPkgPath(f) == engine.Module+"/"+p {
				in = true
			}
		}
		if !in {
			return
		}
		seen[f] = true
		out = append(out, f)
		for _, g := range engine.WithClosures(f) {
			seen[g] = true
			if g != f {
				out = append(out, g)
			}
			for _, ci := range engine.Calls(g) {
				walk(ci.Static)
			}
		}
	}
	walk(root)
	return out
}

func runC11(c *engine.Ctx) {
	r1 := c.Rule("R1", "per wire struct: fields written by the encoder = fields read by the decoder = all fields", 5)
	r2 := c.Rule("R2", "slot agreement between encoder accessors and decoder constructors; request-type branches", 4)
	r3 := c.Rule("R3", "optional fields are omitted exactly when they equal the decoder's default", 2)
	r4 := c.Rule("R4", "nil extension payload <-> nil map value, both directions", 2)
	r5 := c.Rule("R5", "each extension codec's encoder builds the node kind its decoder consumes", 3)
	r6 := c.Rule("R6", "framing: length prefix covers exactly the payload; decoder bounded by the maximum message size", 2)
	r7 := c.Rule("R7", "every defined status code, request type and link action is a member of the corresponding enum of the wire schema (and vice versa)", 3)
	c11SchemaEnums(c, r7)

	toNet := c.P.Func("message/v2", "MessageHandler", "ToNet")
	fromR := c.P.Func("message/v2", "MessageHandler", "FromMsgReader")
	if toNet == nil || fromR == nil {
		c.AnchorMissing(r1, "message/v2.MessageHandler.{ToNet,FromMsgReader}")
		return
	}
	enc := reachableIn(toNet, "message/v2", bindRel)
	dec := reachableIn(fromR, "message/v2", bindRel)
	for _, f := range enc {
		c.Analysed(engine.FuncName(f))
	}
	for _, f := range dec {
		c.Analysed(engine.FuncName(f))
	}
	written := map[*types.Var]bool{}
	read := map[*types.Var]bool{}
	for _, f := range enc {
		engine.Instrs(f, func(in ssa.Instruction) {
			if st, ok := in.(*ssa.Store); ok {
				if fa, ok := st.Addr.(*ssa.FieldAddr); ok && wireStructField(engine.FieldOf(fa)) {
					written[engine.FieldOf(fa)] = true
				}
			}
		})
	}
	for _, f := range dec {
		engine.Instrs(f, func(in ssa.Instruction) {
			switch x := in.(type) {
			case *ssa.UnOp:
				if fl, _ := engine.LoadedField(x); wireStructField(fl) {
					read[fl] = true
				}
			case *ssa.Field:
				if fl := engine.FieldOf(x); wireStructField(fl) {
					read[fl] = true
				}
			}
		})
	}
	bp := c.P.TypesPkg(bindRel)
	for _, tn := range []string{"GraphSyncRequest", "GraphSyncResponse", "GraphSyncBlock", "GraphSyncMessage", "GraphSyncMessageRoot", "GraphSyncExtensions"} {
		o, _ := bp.Scope().Lookup(tn).(*types.TypeName)
		if o == nil {
			c.AnchorMissing(r1, bindRel+"."+tn)
			continue
		}
		st := o.Type().Underlying().(*types.Struct)
		var missW, missR []string
		for i := 0; i < st.NumFields(); i++ {
			f := st.Field(i)
			if tn == "GraphSyncExtensions" && f.Name() == "Keys" {
				// bindnode's map representation: the key order list is consumed reflectively, the decoder need not read it
				if !written[f] {
					missW = append(missW, f.Name())
				}
				continue
			}
			if !written[f] {
				missW = append(missW, f.Name())
			}
			if !read[f] {
				missR = append(missR, f.Name())
			}
		}
		c.Decide(r1, tn, o.Pos(), len(missW) == 0 && len(missR) == 0, fmt.Sprintf("all %d fields are written by the encoder and read by the decoder", st.NumFields()),
			fmt.Sprintf("wire struct %s: fields never written by the encoder %v, never read by the decoder %v — that part of a message does not survive the round trip", tn, missW, missR))
	}

	c11Slots(c, r2, r3, enc, dec)
	c11NullExt(c, r4)
	c11CodecKinds(c, r5)
	c11Framing(c, r6, toNet)
}

// accessorField: method of a message type whose body returns a load of one receiver field.
func accessorField(f *ssa.Function) *types.Var {
	if f == nil || f.Blocks == nil || len(f.Blocks) != 1 {
		return nil
	}
	rets := engine.Returns(f)
	if len(rets) != 1 || len(rets[0].Results) != 1 {
		return nil
	}
	fl, _ := engine.LoadedField(engine.ReturnValue(rets[0], 0))
	if fl == nil {
		if x, ok := engine.ReturnValue(rets[0], 0).(*ssa.Field); ok {
			return engine.FieldOf(x)
		}
	}
	return fl
}

// messageFieldsRead: for a method on message.GraphSyncRequest / GraphSyncResponse, the receiver's fields it reads.
func messageFieldsRead(f *ssa.Function) []*types.Var {
	if f == nil || f.Blocks == nil || f.Signature.Recv() == nil {
		return nil
	}
	rt := f.Signature.Recv().Type()
	if p, ok := rt.(*types.Pointer); ok {
		rt = p.Elem()
	}
	n, ok := rt.(*types.Named)
	if !ok || n.Obj().Pkg() == nil || n.Obj().Pkg().Path() != engine.Module+"/message" {
		return nil
	}
	if n.Obj().Name() != "GraphSyncRequest" && n.Obj().Name() != "GraphSyncResponse" {
		return nil
	}
	st, ok := n.Underlying().(*types.Struct)
	if !ok {
		return nil
	}
	own := map[*types.Var]bool{}
	for i := 0; i < st.NumFields(); i++ {
		own[st.Field(i)] = true
	}
	seen := map[*types.Var]bool{}
	var out []*types.Var
	engine.Instrs(f, func(in ssa.Instruction) {
		var fl *types.Var
		switch x := in.(type) {
		case *ssa.FieldAddr:
			fl = engine.FieldOf(x)
		case *ssa.Field:
			fl = engine.FieldOf(x)
		}
		if fl != nil && own[fl] && !seen[fl] {
			seen[fl] = true
			out = append(out, fl)
		}
	})
	return out
}

// collectCalls: static callees (methods on message types) the value derives from.
func derivingCalls(v ssa.Value, depth int, acc map[*ssa.Function]bool, seen map[ssa.Value]bool) {
	if depth == 0 || v == nil || seen[v] {
		return
	}
	seen[v] = true
	v = engine.Strip(v)
	switch x := v.(type) {
	case *ssa.Call:
		if sc := x.Call.StaticCallee(); sc != nil {
			acc[sc] = true
		}
		for _, a := range x.Call.Args {
			derivingCalls(a, depth-1, acc, seen)
		}
		if x.Call.IsInvoke() {
			derivingCalls(x.Call.Value, depth-1, acc, seen)
		}
	case *ssa.Phi:
		for _, e := range x.Edges {
			derivingCalls(e, depth-1, acc, seen)
		}
	case *ssa.Alloc:
		for _, r := range *x.Referrers() {
			if st, ok := r.(*ssa.Store); ok && st.Addr == ssa.Value(x) {
				derivingCalls(st.Val, depth-1, acc, seen)
			}
		}
	case *ssa.UnOp:
		derivingCalls(x.X, depth-1, acc, seen)
	case *ssa.Extract:
		derivingCalls(x.Tuple, depth-1, acc, seen)
	case *ssa.TypeAssert:
		derivingCalls(x.X, depth-1, acc, seen)
	case *ssa.Convert:
		derivingCalls(x.X, depth-1, acc, seen)
	case *ssa.Slice:
		derivingCalls(x.X, depth-1, acc, seen)
	}
}

// derivingWireFields: wire struct fields the value derives from.
func derivingWireFields(v ssa.Value, depth int, acc map[*types.Var]bool, seen map[ssa.Value]bool) {
	if depth == 0 || v == nil || seen[v] {
		return
	}
	seen[v] = true
	v = engine.Strip(v)
	if fl, _ := engine.LoadedField(v); wireStructField(fl) {
		acc[fl] = true
	}
	switch x := v.(type) {
	case *ssa.Call:
		for _, a := range x.Call.Args {
			derivingWireFields(a, depth-1, acc, seen)
		}
		if x.Call.IsInvoke() {
			derivingWireFields(x.Call.Value, depth-1, acc, seen)
		}
	case *ssa.Phi:
		for _, e := range x.Edges {
			derivingWireFields(e, depth-1, acc, seen)
		}
	case *ssa.Alloc:
		for _, r := range *x.Referrers() {
			if st, ok := r.(*ssa.Store); ok && st.Addr == ssa.Value(x) {
				derivingWireFields(st.Val, depth-1, acc, seen)
			}
		}
	case *ssa.UnOp:
		derivingWireFields(x.X, depth-1, acc, seen)
	case *ssa.FieldAddr:
		if wireStructField(engine.FieldOf(x)) {
			acc[engine.FieldOf(x)] = true
		}
	case *ssa.Field:
		if wireStructField(engine.FieldOf(x)) {
			acc[engine.FieldOf(x)] = true
		}
		derivingWireFields(x.X, depth-1, acc, seen)
	case *ssa.Extract:
		derivingWireFields(x.Tuple, depth-1, acc, seen)
	case *ssa.Convert:
		derivingWireFields(x.X, depth-1, acc, seen)
	case *ssa.Slice:
		derivingWireFields(x.X, depth-1, acc, seen)
	}
}

// ctorParamFields: for a constructor in package message, which internal field each parameter ends up in
// (through one wrapper level), and which constants are stored into which fields.
func ctorParamFields(ctor *ssa.Function, depth int) (map[int]*types.Var, map[*types.Var]ssa.Value) {
	params := map[int]*types.Var{}
	consts := map[*types.Var]ssa.Value{}
	if ctor == nil || ctor.Blocks == nil || depth > 2 {
		return params, consts
	}
	paramIdx := func(v ssa.Value) int {
		seen := map[ssa.Value]bool{}
		var find func(x ssa.Value, d int) int
		find = func(x ssa.Value, d int) int {
			if d == 0 || seen[x] {
				return -1
			}
			seen[x] = true
			x = engine.Strip(x)
			for i, p := range ctor.Params {
				if x == ssa.Value(p) {
					return i
				}
			}
			switch y := x.(type) {
			case *ssa.Call:
				for _, a := range y.Call.Args {
					if i := find(a, d-1); i >= 0 {
						return i
					}
				}
			case *ssa.Phi:
				for _, e := range y.Edges {
					if i := find(e, d-1); i >= 0 {
						return i
					}
				}
			}
			return -1
		}
		return find(v, 4)
	}
	// direct struct literal
	engine.Instrs(ctor, func(in ssa.Instruction) {
		st, ok := in.(*ssa.Store)
		if !ok {
			return
		}
		fa, ok := st.Addr.(*ssa.FieldAddr)
		if !ok {
			return
		}
		f := engine.FieldOf(fa)
		if f == nil || f.Pkg() == nil || f.Pkg().Path() != engine.Module+"/message" {
			return
		}
		if i := paramIdx(st.Val); i >= 0 {
			params[i] = f
		} else if _, isC := engine.Strip(st.Val).(*ssa.Const); isC {
			consts[f] = engine.Strip(st.Val)
		}
	})
	// wrapper: calls an inner constructor
	for _, ci := range engine.Calls(ctor) {
		if ci.Static == nil || engine.FuncPkgPath(ci.Static) != engine.Module+"/message" || ci.Static == ctor {
			continue
		}
		ip, ic := ctorParamFields(ci.Static, depth+1)
		if len(ip) == 0 {
			continue
		}
		for j, a := range ci.Common.Args {
			f, ok := ip[j]
			if !ok {
				continue
			}
			if i := paramIdx(a); i >= 0 {
				params[i] = f
			} else if _, isC := engine.Strip(a).(*ssa.Const); isC {
				consts[f] = engine.Strip(a)
			}
		}
		for f, v := range ic {
			consts[f] = v
		}
	}
	return params, consts
}

type defaultClass string

// globalIsZero: the package-level variable is only ever assigned a zero-value constant (in its package's init),
// or has no initialiser at all.
func globalIsZero(g *ssa.Global) bool {
	if g.Pkg == nil {
		return false
	}
	init := g.Pkg.Func("init")
	if init == nil || init.Blocks == nil {
		return false // no source for the defining package
	}
	zero := true
	for _, m := range g.Pkg.Members {
		f, ok := m.(*ssa.Function)
		if !ok {
			continue
		}
		for _, fn := range engine.WithClosures(f) {
			engine.Instrs(fn, func(in ssa.Instruction) {
				if st, ok := in.(*ssa.Store); ok && st.Addr == ssa.Value(g) {
					if c, isC := st.Val.(*ssa.Const); !isC || c.Value != nil {
						zero = false
					}
				}
			})
		}
	}
	return zero
}

func classifyDefault(v ssa.Value) defaultClass {
	v = engine.Strip(v)
	if engine.IsNilConst(v) {
		return "nil"
	}
	if k, ok := engine.ConstInt(v); ok && k == 0 {
		return "zero"
	}
	if u, ok := v.(*ssa.UnOp); ok && u.Op == token.MUL {
		if g, ok := u.X.(*ssa.Global); ok {
			if globalIsZero(g) {
				return "zero"
			}
			return defaultClass("global:" + g.Name())
		}
	}
	if c, ok := v.(*ssa.Const); ok && c.Value == nil {
		return "zero"
	}
	return ""
}

func c11Slots(c *engine.Ctx, r2, r3 string, enc, dec []*ssa.Function) {
	// encoder: wire field -> internal field (via accessor), and omission condition
	type encInfo struct {
		internal map[*types.Var]bool
		omit     defaultClass
		pos      token.Pos
	}
	encTab := map[*types.Var]*encInfo{}
	for _, f := range enc {
		engine.Instrs(f, func(in ssa.Instruction) {
			st, ok := in.(*ssa.Store)
			if !ok {
				return
			}
			fa, ok := st.Addr.(*ssa.FieldAddr)
			if !ok || !wireStructField(engine.FieldOf(fa)) {
				return
			}
			wf := engine.FieldOf(fa)
			calls := map[*ssa.Function]bool{}
			derivingCalls(st.Val, 6, calls, map[ssa.Value]bool{})
			info := encTab[wf]
			if info == nil {
				info = &encInfo{internal: map[*types.Var]bool{}, pos: st.Pos()}
				encTab[wf] = info
			}
			for sc := range calls {
				for _, af := range messageFieldsRead(sc) {
					info.internal[af] = true
				}
			}
			// omission: pointer-typed optional field set under a condition
			if _, isPtr := wf.Type().Underlying().(*types.Pointer); isPtr {
				for _, cd := range engine.InstrConds(st) {
					if info.omit != "" {
						break // the innermost condition decides
					}
					b, ok := cd.V.(*ssa.BinOp)
					if !ok {
						continue
					}
					switch {
					case b.Op == token.NEQ && cd.Pol, b.Op == token.EQL && !cd.Pol:
						if d := classifyDefault(b.Y); d != "" {
							info.omit = d
						}
					case b.Op == token.GTR && cd.Pol:
						if call, ok := b.X.(*ssa.Call); ok {
							if bi, ok := call.Call.Value.(*ssa.Builtin); ok && bi.Name() == "len" {
								if k, ok := engine.ConstInt(b.Y); ok && k == 0 {
									info.omit = "empty"
								}
							}
						}
					}
					if info.omit == "" {
						info.omit = defaultClass("unrecognised condition " + b.Op.String())
					}
				}
			}
		})
	}
	// decoder: constructor calls
	msgPkg := engine.Module + "/message"
	reqTypeF := c.P.Field(bindRel, "GraphSyncRequest", "RequestType")
	internalType := c.P.Field("message", "GraphSyncRequest", "requestType")
	decTab := map[*types.Var]map[*types.Var]bool{}
	decDefault := map[*types.Var]defaultClass{}
	nCtor := 0
	for _, f := range dec {
		for _, ci := range engine.Calls(f) {
			if ci.Static == nil || engine.FuncPkgPath(ci.Static) != msgPkg || !strings.HasPrefix(ci.Static.Name(), "New") || ci.Static.Name() == "NewMessage" {
				continue
			}
			nCtor++
			params, consts := ctorParamFields(ci.Static, 0)
			for i, a := range ci.Common.Args {
				inf, ok := params[i]
				if !ok {
					continue
				}
				wfs := map[*types.Var]bool{}
				derivingWireFields(a, 8, wfs, map[ssa.Value]bool{})
				for wf := range wfs {
					// only the fields of the element struct (not the container lists)
					if decTab[wf] == nil {
						decTab[wf] = map[*types.Var]bool{}
					}
					decTab[wf][inf] = true
				}
				// default for optional fields: phi(default, *field)
				if ph, ok := engine.Strip(a).(*ssa.Phi); ok {
					for _, e := range ph.Edges {
						ws := map[*types.Var]bool{}
						derivingWireFields(e, 4, ws, map[ssa.Value]bool{})
						if len(ws) == 0 {
							for wf := range wfs {
								if _, isPtr := wf.Type().Underlying().(*types.Pointer); isPtr {
									if d := classifyDefault(e); d != "" {
										decDefault[wf] = d
									}
								}
							}
						}
					}
				}
			}
			// request-type branch agreement
			if tv, ok := consts[internalType]; ok && reqTypeF != nil {
				want, _ := engine.ConstString(tv)
				// the branch: dominated by RequestType == K, or (for the fall-through constructor) by != for all others
				guard := ""
				var negs []string
				for _, cd := range engine.InstrConds(ci.Instr) {
					if e, ok := cd.AsEq(); ok && fieldReadOf(e.X) == reqTypeF {
						k, _ := engine.ConstString(e.Y)
						if e.Equal {
							guard = k
						} else {
							negs = append(negs, k)
						}
					}
				}
				key := "request-type|" + ci.Static.Name()
				okT := guard == want || (guard == "" && len(negs) >= 2 && !contains(negs, want))
				c.Decide(r2, key, ci.Instr.Pos(), okT, fmt.Sprintf("the %q branch builds a request of type %q", want, want),
					fmt.Sprintf("a wire request of type %q is decoded through %s, which builds a request of type %q", guard, ci.Static.Name(), want))
			}
		}
	}
	if nCtor == 0 {
		c.AnchorMissing(r2, "message constructor calls in the decoder")
		return
	}
	// compare per wire field
	var wfs []*types.Var
	for wf := range encTab {
		wfs = append(wfs, wf)
	}
	sort.Slice(wfs, func(i, j int) bool { return wfs[i].Pos() < wfs[j].Pos() })
	for _, wf := range wfs {
		e := encTab[wf]
		d := decTab[wf]
		if len(e.internal) == 0 || len(d) == 0 {
			continue // containers, blocks (no message accessor), request type (handled above)
		}
		owner := ownerName(wf)
		ok := false
		for f := range e.internal {
			if d[f] {
				ok = true
			}
		}
		c.Decide(r2, owner+"."+wf.Name(), e.pos, ok,
			fmt.Sprintf("encoder fills it from internal field %s; decoder stores it back into %s", fieldNames(e.internal), fieldNames(d)),
			fmt.Sprintf("schema field %s.%s is encoded from internal field(s) %s but decoded into %s: the value comes back in a different slot", owner, wf.Name(), fieldNames(e.internal), fieldNames(d)))
		if _, isPtr := wf.Type().Underlying().(*types.Pointer); isPtr && e.omit != "" {
			dd, has := decDefault[wf]
			agree := has && (dd == e.omit || (e.omit == "empty" && (dd == "nil" || dd == "zero")) || (strings.HasPrefix(string(e.omit), "global:") && dd == e.omit))
			if !has {
				// absent default = Go zero value of the local variable
				agree = e.omit == "nil" || e.omit == "zero" || e.omit == "empty"
				dd = "zero value"
			}
			c.Decide(r3, owner+"."+wf.Name(), e.pos, agree,
				fmt.Sprintf("omitted when the value is %s; absent decodes to %s", e.omit, dd),
				fmt.Sprintf("optional field %s.%s is omitted by the encoder when the value is %s, but an absent field decodes to %s: that value does not survive the round trip", owner, wf.Name(), e.omit, dd))
		}
	}
}

func contains(ss []string, s string) bool {
	for _, x := range ss {
		if x == s {
			return true
		}
	}
	return false
}

func ownerName(f *types.Var) string {
	// find the struct in ipldbind that has this field
	sc := f.Pkg().Scope()
	for _, n := range sc.Names() {
		if tn, ok := sc.Lookup(n).(*types.TypeName); ok {
			if st, ok := tn.Type().Underlying().(*types.Struct); ok {
				for i := 0; i < st.NumFields(); i++ {
					if st.Field(i) == f {
						return n
					}
				}
			}
		}
	}
	return "?"
}

func fieldNames(m map[*types.Var]bool) string {
	var out []string
	for f := range m {
		out = append(out, f.Name())
	}
	sort.Strings(out)
	return strings.Join(out, ",")
}

func c11NullExt(c *engine.Ctx, rule string) {
	valuesF := c.P.Field(bindRel, "GraphSyncExtensions", "Values")
	encF := c.P.Func(bindRel, "", "NewGraphSyncExtensions")
	decF := c.P.Func(bindRel, "GraphSyncExtensions", "ToExtensionsList")
	dataF := c.P.Field("", "ExtensionData", "Data")
	if valuesF == nil || encF == nil || decF == nil || dataF == nil {
		c.AnchorMissing(rule, "ipldbind.GraphSyncExtensions.Values / NewGraphSyncExtensions / ToExtensionsList")
		return
	}
	c.Analysed(engine.FuncName(encF), engine.FuncName(decF))
	// nilTest: what the conditions say about the tested payload (interface) resp. map value (pointer) being nil
	nilTest := func(conds []engine.Cond, wantPtr bool) (isNil, known bool) {
		for _, cd := range conds {
			e, ok := cd.AsEq()
			if !ok || !engine.IsNilConst(e.Y) {
				continue
			}
			_, isPtr := e.X.Type().Underlying().(*types.Pointer)
			_, isIface := e.X.Type().Underlying().(*types.Interface)
			if (wantPtr && isPtr) || (!wantPtr && isIface) {
				isNil, known = e.Equal, true
			}
		}
		return
	}
	// encoder: map value nil iff data == nil — every way the stored value comes about is judged with the conditions
	// it comes about under (the choice may be made in place, in a variable, or in a helper dissolved here)
	okE, nilWays, refWays := true, 0, 0
	engine.Instrs(encF, func(in ssa.Instruction) {
		mu, ok := in.(*ssa.MapUpdate)
		if !ok {
			return
		}
		if _, isPtr := mu.Value.Type().Underlying().(*types.Pointer); !isPtr {
			return
		}
		for _, o := range engine.ValueOutcomes(engine.LocalValue(mu.Value), mu.Block()) {
			dataNil, known := nilTest(o.Conds, false)
			valNil := engine.IsNilConst(o.V)
			if valNil {
				nilWays++
			} else {
				refWays++
			}
			if !known || valNil != dataNil {
				okE = false
			}
		}
	})
	c.Decide(rule, engine.FuncName(encF), encF.Pos(), okE && nilWays >= 1 && refWays >= 1, "a nil payload is stored as a nil map value, anything else by reference", "the encoder does not map a nil extension payload to a nil map value (and only that)")
	// decoder: Data nil iff map value nil (a payload left at its zero value is nil)
	okD, derefWays := true, 0
	for _, st := range engine.StoresTo([]*ssa.Function{decF}, dataF) {
		for _, o := range engine.ValueOutcomes(engine.LocalValue(st.Val), st.Block()) {
			ptrNil, known := nilTest(o.Conds, true)
			if engine.IsNilConst(o.V) {
				if known && !ptrNil {
					okD = false // a present value decoded as nil
				}
				continue
			}
			derefWays++
			if !known || ptrNil {
				okD = false
			}
		}
	}
	c.Decide(rule, engine.FuncName(decF), decF.Pos(), okD && derefWays >= 1, "a nil map value decodes to a nil payload, anything else is dereferenced", "the decoder does not map a nil map value to a nil payload (and only that)")
}

func c11CodecKinds(c *engine.Ctx, rule string) {
	kindOf := func(f *ssa.Function) string {
		kinds := map[string]bool{}
		for _, g := range engine.WithClosures(f) {
			for _, ci := range engine.Calls(g) {
				n := ""
				if ci.Common.IsInvoke() {
					n = ci.Common.Method.Name()
				} else if ci.Static != nil {
					n = ci.Static.Name()
				}
				switch n {
				case "NewString", "AssignString", "AsString":
					kinds["string"] = true
				case "NewInt", "AssignInt", "AsInt":
					kinds["int"] = true
				case "MustBuildList", "BuildList", "BeginList", "ListIterator":
					kinds["list"] = true
				case "AssignLink", "AsLink":
					kinds["link-elems"] = true
				}
			}
		}
		var ks []string
		for k := range kinds {
			ks = append(ks, k)
		}
		sort.Strings(ks)
		return strings.Join(ks, "+")
	}
	for _, p := range []struct{ rel, enc, dec string }{
		{"dedupkey", "EncodeDedupKey", "DecodeDedupKey"},
		{"cidset", "EncodeCidSet", "DecodeCidSet"},
		{"donotsendfirstblocks", "EncodeDoNotSendFirstBlocks", "DecodeDoNotSendFirstBlocks"},
	} {
		e := c.P.Func(p.rel, "", p.enc)
		d := c.P.Func(p.rel, "", p.dec)
		if e == nil || d == nil {
			c.AnchorMissing(rule, p.rel+"."+p.enc+"/"+p.dec)
			continue
		}
		c.Analysed(engine.FuncName(e), engine.FuncName(d))
		ke, kd := kindOf(e), kindOf(d)
		c.Decide(rule, p.rel, e.Pos(), ke != "" && ke == kd, "encoder builds and decoder consumes: "+ke,
			fmt.Sprintf("codec %s: the encoder builds %q but the decoder consumes %q", p.rel, ke, kd))
	}
}

func c11Framing(c *engine.Ctx, rule string, toNet *ssa.Function) {
	c.Analysed(engine.FuncName(toNet))
	// encoder: PutUvarint(lbuf, uint64(buf.Len() - K)); make([]byte, K) written first; final write starts at K - n
	var put *ssa.Call
	for _, ci := range engine.Calls(toNet) {
		if ci.Is("encoding/binary.PutUvarint") {
			put = ci.Value()
		}
	}
	if put == nil {
		c.Violate(rule, "encoder|length-prefix", toNet.Pos(), "the encoder no longer writes a uvarint length prefix")
	} else {
		ok := false
		why := "the length written is not (buffer length - reserved prefix bytes)"
		if sub, isB := stripConv(put.Call.Args[1]).(*ssa.BinOp); isB && sub.Op == token.SUB {
			k, isK := engine.ConstInt(sub.Y)
			lenCall, isL := stripConv(sub.X).(*ssa.Call)
			if isK && isL && lenCall.Call.StaticCallee() != nil && lenCall.Call.StaticCallee().Name() == "Len" {
				// reserved bytes: make([]byte, K)
				reserved := false
				engine.Instrs(toNet, func(in ssa.Instruction) {
					if ms, ok := in.(*ssa.MakeSlice); ok {
						if n, ok := engine.ConstInt(ms.Len); ok && n == k {
							reserved = true
						}
					}
					// make([]byte, K) with constant K is lowered to new [K]byte + slice
					if al, ok := in.(*ssa.Alloc); ok {
						if at, ok := al.Type().(*types.Pointer).Elem().Underlying().(*types.Array); ok && at.Len() == k {
							reserved = true
						}
					}
				})
				// final write: out[K-n:] where n is PutUvarint's result
				final := false
				engine.Instrs(toNet, func(in ssa.Instruction) {
					if sl, ok := in.(*ssa.Slice); ok && sl.Low != nil {
						if lo, ok := sl.Low.(*ssa.BinOp); ok && lo.Op == token.SUB {
							if n, ok := engine.ConstInt(lo.X); ok && n == k && lo.Y == ssa.Value(put) {
								// used as the argument of a Write invoke
								for _, r := range *sl.Referrers() {
									if cc, ok := r.(*ssa.Call); ok && cc.Call.IsInvoke() && cc.Call.Method.Name() == "Write" {
										final = true
									}
								}
							}
						}
					}
				})
				// the payload is encoded into the same buffer after the reservation
				ok = reserved && final
				if !ok {
					why = fmt.Sprintf("prefix bookkeeping inconsistent (reserved %d bytes: %v, final write starts at %d - prefixLen: %v)", k, reserved, k, final)
				}
			}
		}
		c.Decide(rule, "encoder|length-prefix", put.Pos(), ok, "the uvarint prefix is the buffer length minus the reserved prefix bytes, and the write starts right at the prefix", why)
	}
	// decoder: varint reader bounded by MessageSizeMax in FromNet and in the stream handler
	n := 0
	for _, f := range append(c.P.FuncsIn("message/v2"), c.P.FuncsIn("network")...) {
		for _, ci := range engine.Calls(f) {
			if !ci.Is("github.com/libp2p/go-msgio.NewVarintReaderSize") {
				continue
			}
			n++
			sz, isC := engine.ConstInt(ci.Arg(1))
			var want int64 = -1
			for _, pk := range c.P.Prog.AllPackages() {
				if pk.Pkg.Path() == "github.com/libp2p/go-libp2p/core/network" {
					if k, ok := pk.Pkg.Scope().Lookup("MessageSizeMax").(*types.Const); ok {
						want, _ = engine.ConstInt(ssa.NewConst(k.Val(), k.Type()))
					}
				}
			}
			c.Decide(rule, engine.FuncName(f)+"|bounded-reader", ci.Instr.Pos(), isC && sz == want && want > 0,
				"messages are read with varint framing bounded by network.MessageSizeMax", "the message reader is not bounded by network.MessageSizeMax")
		}
	}
	if n == 0 {
		c.Violate(rule, "decoder|bounded-reader", token.NoPos, "no length-prefixed (msgio varint) reader is used for incoming messages")
	}
}

// c11SchemaEnums (R7): bindnode refuses, on encode and on decode, an enum value that the embedded schema does not
// list; a Go constant without a schema member (or the reverse) is a well-formed message that cannot make the round trip.
func c11SchemaEnums(c *engine.Ctx, rule string) {
	src, err := os.ReadFile(filepath.Join(c.P.Dir, "message", "ipldbind", "schema.ipldsch"))
	if err != nil {
		c.AnchorMissing(rule, "message/ipldbind/schema.ipldsch")
		return
	}
	// parse `type X enum { | Name ("repr") ... }`
	type member struct{ name, repr string }
	enums := map[string][]member{}
	cur := ""
	reType := regexp.MustCompile(`^\s*type\s+(\w+)\s+enum\s*\{`)
	reMem := regexp.MustCompile(`^\s*\|\s*(\w+)\s*(?:\(\s*"([^"]*)"\s*\))?`)
	for _, line := range strings.Split(string(src), "\n") {
		if i := strings.Index(line, "#"); i >= 0 {
			line = line[:i]
		}
		if m := reType.FindStringSubmatch(line); m != nil {
			cur = m[1]
			enums[cur] = nil
			continue
		}
		if cur == "" {
			continue
		}
		if strings.Contains(line, "}") {
			cur = ""
			continue
		}
		if m := reMem.FindStringSubmatch(line); m != nil {
			enums[cur] = append(enums[cur], member{m[1], m[2]})
		}
	}
	root := c.P.TypesPkg("")
	if root == nil {
		c.AnchorMissing(rule, "the graphsync root package")
		return
	}
	for _, e := range []struct{ goType, schemaEnum string }{
		{"ResponseStatusCode", "GraphSyncResponseStatusCode"},
		{"RequestType", "GraphSyncRequestType"},
		{"LinkAction", "GraphSyncLinkAction"},
	} {
		tn, _ := root.Scope().Lookup(e.goType).(*types.TypeName)
		mem, ok := enums[e.schemaEnum]
		if tn == nil || !ok {
			c.AnchorMissing(rule, "graphsync."+e.goType+" / schema enum "+e.schemaEnum)
			continue
		}
		// Go side: the constant's value as the schema spells it (ints by representation, strings by member name)
		goVals := map[string]string{}
		for _, n := range root.Scope().Names() {
			k, ok := root.Scope().Lookup(n).(*types.Const)
			if !ok || !types.Identical(k.Type(), tn.Type()) {
				continue
			}
			if k.Val().Kind() == constant.String {
				goVals[constant.StringVal(k.Val())] = n
			} else {
				goVals[k.Val().ExactString()] = n
			}
		}
		schemaVals := map[string]string{}
		isInt := false
		if b, ok := tn.Type().Underlying().(*types.Basic); ok && b.Info()&types.IsInteger != 0 {
			isInt = true
		}
		for _, m := range mem {
			if isInt {
				schemaVals[m.repr] = m.name
			} else {
				schemaVals[m.name] = m.name
			}
		}
		var missing, extra []string
		for v, n := range goVals {
			if _, ok := schemaVals[v]; !ok {
				missing = append(missing, n+"="+v)
			}
		}
		for v, n := range schemaVals {
			if _, ok := goVals[v]; !ok {
				extra = append(extra, n+"="+v)
			}
		}
		sort.Strings(missing)
		sort.Strings(extra)
		c.Decide(rule, e.schemaEnum, tn.Pos(), len(missing) == 0 && len(extra) == 0 && len(goVals) > 0,
			fmt.Sprintf("%d constants of graphsync.%s = %d members of schema enum %s", len(goVals), e.goType, len(mem), e.schemaEnum),
			fmt.Sprintf("graphsync.%s and the wire schema's %s disagree (defined in Go but not in the schema: %v; in the schema but not in Go: %v): a message carrying such a value cannot be encoded or decoded", e.goType, e.schemaEnum, missing, extra))
	}
}
