package rules

import (
	"fmt"
	"go/token"
	"go/types"

	"golang.org/x/tools/go/ssa"

	"gscheck/engine"
)

func init() {
	register(&Property{
		Meta: engine.PropMeta{
			ID:    "C18",
			Title: "Event publisher delivers each topic's events in order, then closes once",
			Explanation: "Decides: (R1) every public operation enqueues at the tail of the single command list under the command lock, the only dequeue takes the head under that lock, and the only consumer is the one goroutine started by Startup; " +
				"(R2) Subscriber.OnNext is called only from the registry's send over the topic's current subscriber set, and OnClose only from the registry's remove, dominated by the membership tests and after the subscription has been deleted; " +
				"(R3) the consumer loop is left only on the shutdown command, afterwards every remaining subscription is removed and nothing is dequeued again; public operations enqueue only when the publisher is not closed, holding the state lock that Shutdown takes exclusively while closing and enqueuing the shutdown command. " +
				"Not decided: per-history delivery sets (which events a particular subscriber sees).",
			Assumptions: commonTrust,
			Technique:   "ownership / who-may-call over static call edges, lock-set analysis, guard dominance, CFG reachability",
		},
		Run: runC18,
	})
}

func runC18(c *engine.Ctx) {
	r1 := c.Rule("R1", "single FIFO command list: tail append / head removal under the command lock; one consumer goroutine; all producers go through the enqueue function", 3)
	r2 := c.Rule("R2", "OnNext only from send over the topic's subscribers; OnClose only from remove, after membership tests and deletion", 2)
	r3 := c.Rule("R3", "loop left only on shutdown; remaining subscriptions removed; no dequeue afterwards; producers are no-ops once closed (state lock discipline)", 3)

	cmds := c.P.Field("notifications", "publisher", "cmds")
	closed := c.P.Field("notifications", "publisher", "closed")
	stateLk := c.P.Field("notifications", "publisher", "lk")
	if cmds == nil || closed == nil || stateLk == nil {
		c.AnchorMissing(r1, "notifications.publisher{cmds,closed,lk}")
		return
	}
	fns := c.P.FuncsIn("notifications")
	lc := engine.NewLockChecker(c.P)
	var enqueue, dequeue *ssa.Function
	condL := condLockerField(c)
	for _, f := range fns {
		for _, st := range engine.StoresTo([]*ssa.Function{f}, cmds) {
			key := engine.FuncName(f) + "|cmds-write"
			c.Analysed(engine.FuncName(f))
			held := false
			for l := range lc.Sets(f).HeldAt(st) {
				if l == condL {
					held = true
				}
			}
			switch v := st.Val.(type) {
			case *ssa.Call:
				b, isB := v.Call.Value.(*ssa.Builtin)
				if isB && b.Name() == "append" && isLoadOfField(v.Call.Args[0], cmds) {
					enqueue = f
					c.Decide(r1, key, st.Pos(), held, "appends at the tail under the command lock", "command appended without holding the command lock")
					continue
				}
			case *ssa.Slice:
				if k, ok := engine.ConstInt(v.Low); ok && v.Low != nil && k == 1 && isLoadOfField(v.X, cmds) {
					dequeue = f
					// the element returned is cmds[0]
					head := false
					engine.Instrs(f, func(in ssa.Instruction) {
						if ia, ok := in.(*ssa.IndexAddr); ok && isLoadOfField(ia.X, cmds) {
							if k, ok := engine.ConstInt(ia.Index); ok && k == 0 {
								head = true
							}
						}
					})
					c.Decide(r1, key, st.Pos(), held && head, "removes and returns the head under the command lock", fmt.Sprintf("dequeue does not take the head under the command lock (head: %v, lock: %v)", head, held))
					continue
				}
			}
			c.Violate(r1, key, st.Pos(), "the command list is written by something other than a tail append or a head removal: commands can be reordered or lost")
		}
	}
	if enqueue == nil || dequeue == nil {
		c.AnchorMissing(r1, "enqueue (append to cmds) / dequeue (cmds[1:]) functions")
		return
	}
	// producers: callers of enqueue
	callers := func(target *ssa.Function) []engine.CallInfo {
		var out []engine.CallInfo
		for _, f := range c.P.SrcFuncs() {
			for _, ci := range engine.Calls(f) {
				if ci.Static == target {
					out = append(out, ci)
				}
			}
		}
		return out
	}
	// consumer
	var root *ssa.Function
	goSites := 0
	for _, f := range fns {
		engine.Instrs(f, func(in ssa.Instruction) {
			if g, ok := in.(*ssa.Go); ok {
				if r := g.Call.StaticCallee(); r != nil && reachesStatic(r, dequeue, 2) {
					root = r
					goSites++
				}
			}
		})
	}
	if root == nil {
		c.AnchorMissing(r1, "the consumer goroutine (go statement reaching dequeue)")
		return
	}
	c.Analysed(engine.FuncName(root))
	dqCallers := callers(dequeue)
	only := len(dqCallers) > 0
	for _, ci := range dqCallers {
		if ci.Instr.Parent() != root {
			only = false
		}
	}
	c.Decide(r1, engine.FuncName(dequeue)+"|single-consumer", dequeue.Pos(), only && goSites == 1,
		"dequeue is called only from the goroutine "+engine.FuncName(root)+", started at one go statement",
		fmt.Sprintf("dequeue has a caller outside the consumer goroutine, or the goroutine is started at %d sites", goSites))

	// producers & R3 closed guard
	for _, ci := range callers(enqueue) {
		f := ci.Instr.Parent()
		c.Analysed(engine.FuncName(f))
		c.Hold(r1, engine.FuncName(f)+"|producer", ci.Instr.Pos(), "enqueues through the single enqueue function")
		key := engine.FuncName(f) + "|not-closed"
		guard := notClosedGuard(ci.Instr, closed)
		closes := closesField(f, closed)
		held := lc.Sets(f).HeldAt(ci.Instr)[stateLk]
		switch {
		case closes != nil:
			// Shutdown: closes `closed` before enqueueing, exactly once (guarded), holding the state lock exclusively
			excl := false
			for _, cj := range engine.Calls(f) {
				if cj.Is("sync.RWMutex.Lock") && engine.Before(cj.Instr, ci.Instr) {
					excl = true
				}
			}
			c.Decide(r3, key, ci.Instr.Pos(), guard && engine.Before(closes, ci.Instr) && notClosedGuard(closes, closed) && excl,
				"closes the publisher once (guarded), then enqueues the shutdown command, holding the state lock exclusively",
				"shutdown does not (guarded, exclusively locked) close the publisher before enqueueing the shutdown command: commands can be enqueued after it")
		default:
			c.Decide(r3, key, ci.Instr.Pos(), guard && held,
				"enqueues only when not closed, holding the state lock (shared)",
				fmt.Sprintf("operation enqueues without the closed test (%v) or without the state lock (%v): events can be delivered after shutdown", guard, held))
		}
	}

	// R2 OnNext / OnClose
	topicsF := c.P.Field("notifications", "subscriberRegistry", "topics")
	if topicsF == nil {
		c.AnchorMissing(r2, "notifications.subscriberRegistry.topics")
		return
	}
	for _, f := range fns {
		for _, ci := range engine.Calls(f) {
			if !ci.Common.IsInvoke() || !engine.IsNamed(ci.Common.Value.Type(), "~/notifications", "Subscriber") {
				continue
			}
			c.Analysed(engine.FuncName(f))
			switch ci.Common.Method.Name() {
			case "OnNext":
				// receiver ranges over reg.topics[topic]
				ok := false
				if ex, isEx := engine.Strip(ci.Common.Value).(*ssa.Extract); isEx {
					if nx, isNx := ex.Tuple.(*ssa.Next); isNx {
						if rg, isRg := nx.Iter.(*ssa.Range); isRg {
							if lk, isL := engine.Strip(rg.X).(*ssa.Lookup); isL && isLoadOfField(lk.X, topicsF) && engine.SameValue(lk.Index, ci.Common.Args[0]) {
								ok = true
							}
						}
					}
				}
				c.Decide(r2, engine.FuncName(f)+"|OnNext", ci.Instr.Pos(), ok, "delivers to exactly the current subscribers of the event's topic", "OnNext is not delivered over topics[topic] for the event's own topic")
			case "OnClose":
				// membership tests (two commaok lookups true) dominate; both deletes precede
				member := 0
				for _, cd := range engine.InstrConds(ci.Instr) {
					if ex, isEx := cd.V.(*ssa.Extract); isEx && ex.Index == 1 && cd.Pol {
						if lk, isL := ex.Tuple.(*ssa.Lookup); isL && lk.CommaOk {
							member++
						}
					}
				}
				dels := 0
				for _, d := range engine.BuiltinCalls(f, "delete") {
					if engine.Before(d, ci.Instr) {
						dels++
					}
				}
				if dels < 2 {
					// the deletion sits under conditions of its own and OnClose under a flag set there: follow every
					// way through the function and count the deletions passed before OnClose is reached
					reached, least := 0, 2
					target := ci.Instr
					ev := &engine.Evaluator{MaxVisits: 2}
					ev.CountEvent = func(in ssa.Instruction) int {
						if cc, ok := in.(*ssa.Call); ok {
							if b, isB := cc.Call.Value.(*ssa.Builtin); isB && b.Name() == "delete" {
								return 1
							}
						}
						return 0
					}
					ev.StopAt = func(in ssa.Instruction) bool { return in == target }
					ev.AtEnd = func(at ssa.Instruction, count int, get func(ssa.Value) engine.EVal) {
						if at == target {
							reached++
							if count < least {
								least = count
							}
						}
					}
					ev.Run(f)
					if !ev.Aborted && reached > 0 {
						dels = least
					}
				}
				c.Decide(r2, engine.FuncName(f)+"|OnClose", ci.Instr.Pos(), member >= 2 && dels >= 2,
					"OnClose only for an existing subscription, after it has been deleted (so it cannot be closed twice)",
					fmt.Sprintf("OnClose is not guarded by the membership tests (%d of 2) or does not follow the deletion of the subscription (%d of 2): a subscription can be closed twice or receive events after close", member, dels))
			}
		}
	}

	// R4 the forward (topic -> subscribers) and reverse (subscriber -> topics) indexes stay mirror images
	r4 := c.Rule("R4", "registry indexes stay mirror images: inner adds/removes come in pairs; an outer entry is dropped only when its own inner map is empty", 3)
	revF := c.P.Field("notifications", "subscriberRegistry", "revTopics")
	if revF == nil {
		c.AnchorMissing(r4, "notifications.subscriberRegistry.revTopics")
	} else {
		asLookup := func(v ssa.Value) *ssa.Lookup { // reg.F[key], also when bound to a local (plain or comma-ok form)
			v = engine.LocalValue(v)
			if ex, ok := v.(*ssa.Extract); ok && ex.Index == 0 {
				v = ex.Tuple
			}
			lk, _ := v.(*ssa.Lookup)
			return lk
		}
		innerOf := func(m ssa.Value) *types.Var { // m is reg.F[key]: returns F
			if lk := asLookup(m); lk != nil {
				if fl, _ := engine.LoadedField(lk.X); fl == topicsF || fl == revF {
					return fl
				}
			}
			return nil
		}
		for _, f := range fns {
			inner := map[*types.Var]int{}
			engine.Instrs(f, func(in ssa.Instruction) {
				switch x := in.(type) {
				case *ssa.MapUpdate:
					if fl := innerOf(x.Map); fl != nil {
						inner[fl]++
					}
				case *ssa.Call:
					b, ok := x.Call.Value.(*ssa.Builtin)
					if !ok || b.Name() != "delete" {
						return
					}
					if fl := innerOf(x.Call.Args[0]); fl != nil {
						inner[fl]++
						return
					}
					// outer delete
					fl, _ := engine.LoadedField(x.Call.Args[0])
					if fl != topicsF && fl != revF {
						return
					}
					okEmpty := false
					for _, cd := range engine.InstrConds(x) {
						bo, ok := cd.V.(*ssa.BinOp)
						if !ok {
							continue
						}
						lc, ok := bo.X.(*ssa.Call)
						if !ok {
							continue
						}
						lb, ok := lc.Call.Value.(*ssa.Builtin)
						if !ok || lb.Name() != "len" {
							continue
						}
						k, _ := engine.ConstInt(bo.Y)
						if !((bo.Op == token.EQL && cd.Pol && k == 0) || (bo.Op == token.LEQ && cd.Pol && k == 0) || (bo.Op == token.GTR && !cd.Pol && k == 0) || (bo.Op == token.NEQ && !cd.Pol && k == 0)) {
							continue
						}
						if lk := asLookup(lc.Call.Args[0]); lk != nil {
							if lf, _ := engine.LoadedField(lk.X); lf == fl && engine.SameValue(lk.Index, x.Call.Args[1]) {
								okEmpty = true
							}
						}
					}
					c.Decide(r4, fmt.Sprintf("%s|drop-outer %s", engine.FuncName(f), fl.Name()), x.Pos(), okEmpty,
						"an outer index entry is dropped only when its own inner map has become empty",
						"an entry of "+fl.Name()+" is dropped without checking that its own inner map is empty: the other index still references it, so a later unsubscribe/close no longer finds the subscription and events keep being delivered")
				}
			})
			if inner[topicsF] > 0 || inner[revF] > 0 {
				c.Decide(r4, engine.FuncName(f)+"|mirror-update", f.Pos(), inner[topicsF] == inner[revF],
					"every inner add/remove on one index has its mirror on the other",
					fmt.Sprintf("the two registry indexes are not updated together (%d on topics, %d on revTopics)", inner[topicsF], inner[revF]))
			}
		}
	}

	// R3 loop exit & drain
	shutdownOp, okC := constOf(c, "notifications", "shutdown")
	if !okC {
		c.AnchorMissing(r3, "notifications.shutdown operation constant")
		return
	}
	var dqCall *ssa.Call
	for _, ci := range engine.Calls(root) {
		if ci.Static == dequeue {
			dqCall = ci.Value()
		}
	}
	if dqCall == nil {
		c.AnchorMissing(r3, "dequeue call in the consumer goroutine")
		return
	}
	// blocks from which the dequeue call is no longer reachable = after the loop
	isDq := func(in ssa.Instruction) bool { return in == ssa.Instruction(dqCall) }
	var exitEdges []string
	okExit := true
	for _, b := range root.Blocks {
		reach, _ := engine.CanReachFromBlock(b, isDq, nil)
		if !reach {
			continue
		}
		for _, s := range b.Succs {
			if r2, _ := engine.CanReachFromBlock(s, isDq, nil); r2 {
				continue
			}
			// edge b->s leaves the loop: must be the op == shutdown edge
			ifi, isIf := b.Instrs[len(b.Instrs)-1].(*ssa.If)
			good := false
			if isIf {
				// the edge's own condition (looked through flags and helpers) must imply op == shutdown
				edge := []engine.Cond{{V: ifi.Cond, Pol: b.Succs[0] == s, If: ifi}}
				for _, cd := range engine.ExpandConds(engine.FlattenCond(edge[0]), 0) {
					if bo, isB := cd.V.(*ssa.BinOp); isB && bo.Op == token.EQL && cd.Pol {
						if k, isK := engine.ConstInt(bo.Y); isK && k == shutdownOp {
							good = true
						}
					}
				}
			}
			if !good {
				okExit = false
			}
			exitEdges = append(exitEdges, c.P.Pos(b.Instrs[len(b.Instrs)-1].Pos()))
		}
	}
	c.Decide(r3, engine.FuncName(root)+"|exit-only-on-shutdown", root.Pos(), okExit && len(exitEdges) > 0,
		"the consumer loop is left only when the dequeued command is the shutdown command",
		"the consumer loop can be left on something other than the shutdown command (pending commands would be dropped)")
	// after the loop: remove over all remaining topics
	drain := false
	for _, ci := range engine.Calls(root) {
		if ci.Static == nil || len(engine.CallsTo(ci.Static, false)) < 0 {
			continue
		}
		if r, _ := engine.CanReach(ci.Instr, isDq, nil); r {
			continue
		}
		// callee invokes OnClose
		for _, cj := range engine.Calls(ci.Static) {
			if cj.Common.IsInvoke() && cj.Common.Method.Name() == "OnClose" && inLoop(ci.Instr.Block()) {
				drain = true
			}
		}
	}
	c.Decide(r3, engine.FuncName(root)+"|close-remaining", root.Pos(), drain,
		"after the shutdown command every remaining subscription is removed (OnClose), and nothing is dequeued again",
		"after the shutdown command the remaining subscriptions are not closed")
}

func condLockerField(c *engine.Ctx) *types.Var {
	// sync.Cond.L
	for _, pk := range c.P.Prog.AllPackages() {
		if pk.Pkg.Path() == "sync" {
			if tn, ok := pk.Pkg.Scope().Lookup("Cond").(*types.TypeName); ok {
				st := tn.Type().Underlying().(*types.Struct)
				for i := 0; i < st.NumFields(); i++ {
					if st.Field(i).Name() == "L" {
						return st.Field(i)
					}
				}
			}
		}
	}
	return nil
}

// notClosedGuard: instruction dominated by the default branch of a non-blocking select receiving from the `closed` channel field.
func notClosedGuard(in ssa.Instruction, closed *types.Var) bool {
	for _, cd := range engine.InstrConds(in) {
		bo, ok := cd.V.(*ssa.BinOp)
		if !ok || bo.Op != token.EQL {
			continue
		}
		ex, ok := bo.X.(*ssa.Extract)
		if !ok || ex.Index != 0 {
			continue
		}
		sel, ok := ex.Tuple.(*ssa.Select)
		if !ok || sel.Blocking {
			continue
		}
		k, _ := engine.ConstInt(bo.Y)
		for i, st := range sel.States {
			if st.Dir == types.RecvOnly && isLoadOfField(st.Chan, closed) && int(k) == i && !cd.Pol {
				return true
			}
		}
	}
	return false
}

func closesField(f *ssa.Function, field *types.Var) ssa.Instruction {
	for _, cl := range engine.BuiltinCalls(f, "close") {
		if isLoadOfField(cl.Call.Args[0], field) {
			return cl
		}
	}
	return nil
}

func constOf(c *engine.Ctx, rel, name string) (int64, bool) {
	tp := c.P.TypesPkg(rel)
	if tp == nil {
		return 0, false
	}
	k, _ := tp.Scope().Lookup(name).(*types.Const)
	if k == nil {
		return 0, false
	}
	v, ok := engine.ConstInt(ssa.NewConst(k.Val(), k.Type()))
	return v, ok
}
