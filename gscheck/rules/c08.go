package rules

import (
	"fmt"
	"go/token"
	"go/types"
	"sort"
	"strings"

	"golang.org/x/tools/go/ssa"

	"gscheck/engine"
)

func init() {
	register(&Property{
		Meta: engine.PropMeta{
			ID:    "C08",
			Title: "Default validation rejects unbounded or too-deep recursive selectors",
			Explanation: "Decides: (R1) the validator's selector-walking selector covers every clause kind go-ipld-prime's ParseSelector accepts that can carry a nested selector, at every nested position " +
				"(both tables are extracted on each run: the clause kinds and nested positions from the dependency's parse functions, the validator's walk from the builder calls that initialise it), " +
				"and for the recursive clause also reaches its limit; (R2) the match callback accepts exactly depth limits <= the maximum (strict >) and rejects 'none' and anything else; " +
				"(R3) the hook validates only when validation returned nil, on the request's own selector; (R4) the validator is registered by default with depth 100, only RejectAllRequestsByDefault turns it off, " +
				"only ValidateRequest sets the validated flag, an unvalidated request makes prepareQuery fail and a failed prepareQuery is never queued. " +
				"Not decided: go-ipld-prime's walk semantics for the validator selector (trusted).",
			Assumptions: append([]string{"go-ipld-prime's traversal.WalkMatching visits exactly the nodes its selector describes; ParseSelector is the authority on well-formed selector specs"}, commonTrust...),
			Technique:   "table extraction from SSA of the dependency's parser vs. symbolic evaluation of the builder DSL; guard dominance on the callback and hook",
		},
		Run: runC08,
	})
}

const selPkg = "github.com/ipld/go-ipld-prime/traversal/selector"
const builderPkg = "github.com/ipld/go-ipld-prime/traversal/selector/builder"

// nested selector position inside a clause body
type selPos struct {
	kind  string // "direct", "allvalues", "allelems"
	field string
}

func (p selPos) String() string {
	switch p.kind {
	case "direct":
		return fmt.Sprintf("Direct(%q)", p.field)
	case "allvalues":
		return fmt.Sprintf("AllValuesOf(%q)", p.field)
	}
	return "AllElementsOfSelf"
}

// parserTable extracts clause key -> nested selector positions from ParseSelector and the parse functions it dispatches to.
func parserTable(c *engine.Ctx, rule string) (map[string][]selPos, map[string]string, bool) {
	sp := c.P.Pkg(selPkg)
	if sp == nil {
		c.AnchorMissing(rule, selPkg)
		return nil, nil, false
	}
	ps := c.P.Func(selPkg, "ParseContext", "ParseSelector")
	if ps == nil || ps.Blocks == nil {
		c.AnchorMissing(rule, "selector.ParseContext.ParseSelector (source)")
		return nil, nil, false
	}
	table := map[string][]selPos{}
	fnOf := map[string]string{}
	// compare-chain: If(kstr == const) -> block calling pc.ParseX(v)
	for _, b := range ps.Blocks {
		ifi, ok := b.Instrs[len(b.Instrs)-1].(*ssa.If)
		if !ok {
			continue
		}
		cmp, ok := ifi.Cond.(*ssa.BinOp)
		if !ok || cmp.Op != token.EQL {
			continue
		}
		key, ok := engine.ConstString(cmp.Y)
		if !ok {
			if key, ok = engine.ConstString(cmp.X); !ok {
				continue
			}
		}
		// callee in true successor
		var callee *ssa.Function
		for _, in := range b.Succs[0].Instrs {
			if call, ok := in.(*ssa.Call); ok {
				if sc := call.Call.StaticCallee(); sc != nil && strings.HasPrefix(sc.Name(), "Parse") {
					callee = sc
				}
			}
		}
		if callee == nil {
			c.Undecided(rule, "ParseSelector case "+key, ifi.Pos(), "cannot find the parse function dispatched for this clause key")
			continue
		}
		fnOf[key] = callee.Name()
		table[key] = nestedPositions(callee, ps)
	}
	return table, fnOf, len(table) > 0
}

// nestedPositions: where does parse function f take the argument of nested ParseSelector calls from?
func nestedPositions(f, parseSelector *ssa.Function) []selPos {
	var out []selPos
	if f.Blocks == nil || len(f.Params) < 2 {
		return nil
	}
	n := f.Params[1]
	for _, ci := range engine.Calls(f) {
		if ci.Static != parseSelector {
			continue
		}
		arg := ci.Common.Args[len(ci.Common.Args)-1]
		out = append(out, classifyPos(arg, n))
	}
	return out
}

func classifyPos(arg ssa.Value, n ssa.Value) selPos {
	arg = engine.Strip(arg)
	// Extract #k of a call
	if ex, ok := arg.(*ssa.Extract); ok {
		if call, ok := ex.Tuple.(*ssa.Call); ok && call.Call.IsInvoke() {
			switch call.Call.Method.Name() {
			case "LookupByString":
				if engine.Strip(call.Call.Value) == n {
					if k, ok := engine.ConstString(call.Call.Args[0]); ok {
						return selPos{"direct", k}
					}
				}
			case "Next":
				// iterator over what?
				it := iteratorSource(call.Call.Value)
				if it != nil && it.Call.IsInvoke() {
					base := engine.Strip(it.Call.Value)
					switch it.Call.Method.Name() {
					case "ListIterator":
						if base == n {
							return selPos{"allelems", ""}
						}
					case "MapIterator":
						if bex, ok := base.(*ssa.Extract); ok {
							if lc, ok := bex.Tuple.(*ssa.Call); ok && lc.Call.IsInvoke() && lc.Call.Method.Name() == "LookupByString" && engine.Strip(lc.Call.Value) == n {
								if k, ok := engine.ConstString(lc.Call.Args[0]); ok {
									return selPos{"allvalues", k}
								}
							}
						}
					}
				}
			}
		}
	}
	return selPos{"unknown", arg.String()}
}

func iteratorSource(v ssa.Value) *ssa.Call {
	v = engine.Strip(v)
	for i := 0; i < 4; i++ {
		switch x := v.(type) {
		case *ssa.Call:
			return x
		case *ssa.Phi:
			v = x.Edges[0]
		case *ssa.UnOp:
			v = engine.LocalValue(x)
			if v == x {
				return nil
			}
		default:
			return nil
		}
	}
	return nil
}

// ---- spec tree of the validator's selector

type spec struct {
	kind   string // recursive, fields, all, edge, matcher, other
	limit  string // for recursive: "none" / "depth"
	next   *spec
	fields map[string]*spec
	pos    token.Pos
	note   string
}

func (s *spec) String() string {
	if s == nil {
		return "<nil>"
	}
	switch s.kind {
	case "recursive":
		return fmt.Sprintf("Recursive(limit=%s, %s)", s.limit, s.next)
	case "fields":
		var ks []string
		for k := range s.fields {
			ks = append(ks, fmt.Sprintf("%q:%s", k, s.fields[k]))
		}
		sort.Strings(ks)
		return "Fields{" + strings.Join(ks, ", ") + "}"
	case "all":
		return "All(" + s.next.String() + ")"
	}
	return s.kind
}

func isBuilderInvoke(call *ssa.Call, iface string) bool {
	if !call.Call.IsInvoke() {
		return false
	}
	return engine.IsNamed(call.Call.Value.Type(), builderPkg, iface)
}

// resolveFuncValue finds the function a called value denotes: a function, a function literal, a local variable
// holding one (single assignment), or such a variable captured by an enclosing literal.
func resolveLocalFunc(v ssa.Value, depth int) *ssa.Function {
	if depth > 4 {
		return nil
	}
	v = engine.LocalValue(v)
	switch x := v.(type) {
	case *ssa.Function:
		return x
	case *ssa.MakeClosure:
		fn, _ := x.Fn.(*ssa.Function)
		return fn
	case *ssa.UnOp:
		if fv, ok := x.X.(*ssa.FreeVar); ok && x.Op == token.MUL {
			return resolveFreeVar(fv, depth)
		}
	case *ssa.FreeVar:
		return resolveFreeVar(x, depth)
	}
	return nil
}

func resolveFreeVar(fv *ssa.FreeVar, depth int) *ssa.Function {
	fn := fv.Parent()
	idx := -1
	for i, f := range fn.FreeVars {
		if f == fv {
			idx = i
		}
	}
	if idx < 0 || fn.Parent() == nil {
		return nil
	}
	var out *ssa.Function
	engine.Instrs(fn.Parent(), func(in ssa.Instruction) {
		mc, ok := in.(*ssa.MakeClosure)
		if !ok || mc.Fn != ssa.Value(fn) || idx >= len(mc.Bindings) {
			return
		}
		b := mc.Bindings[idx]
		if al, ok := b.(*ssa.Alloc); ok {
			var stores []*ssa.Store
			for _, r := range *al.Referrers() {
				if st, ok := r.(*ssa.Store); ok && st.Addr == ssa.Value(al) {
					stores = append(stores, st)
				}
			}
			if len(stores) == 1 {
				out = resolveLocalFunc(stores[0].Val, depth+1)
			}
			return
		}
		out = resolveLocalFunc(b, depth+1)
	})
	return out
}

func evalSpec(v ssa.Value, depth int) *spec {
	if depth > 12 {
		return &spec{kind: "other", note: "too deep"}
	}
	v = engine.LocalValue(v)
	call, ok := v.(*ssa.Call)
	if ok && !call.Call.IsInvoke() {
		// a spec produced by a local helper (function literal or module function) with a single return:
		// the helper's returned spec
		if fn := resolveLocalFunc(call.Call.Value, 0); fn != nil && fn.Blocks != nil {
			if rets := engine.Returns(fn); len(rets) == 1 && len(rets[0].Results) == 1 {
				return evalSpec(rets[0].Results[0], depth+1)
			}
		}
	}
	if !ok || !isBuilderInvoke(call, "SelectorSpecBuilder") {
		return &spec{kind: "other", note: "not a SelectorSpecBuilder call: " + v.String()}
	}
	args := call.Call.Args
	s := &spec{pos: call.Pos()}
	switch call.Call.Method.Name() {
	case "ExploreRecursive":
		s.kind = "recursive"
		s.limit = "unknown"
		if lc, ok := engine.LocalValue(args[0]).(*ssa.Call); ok {
			if sc := lc.Call.StaticCallee(); sc != nil && engine.FuncPkgPath(sc) == selPkg {
				switch sc.Name() {
				case "RecursionLimitNone":
					s.limit = "none"
				case "RecursionLimitDepth":
					s.limit = "depth"
				}
			}
		}
		s.next = evalSpec(args[1], depth+1)
	case "ExploreFields":
		s.kind = "fields"
		s.fields = map[string]*spec{}
		var fn *ssa.Function
		switch x := stripConv(args[0]).(type) {
		case *ssa.MakeClosure:
			fn, _ = x.Fn.(*ssa.Function)
		case *ssa.Function:
			fn = x
		}
		if fn == nil {
			return &spec{kind: "other", note: "ExploreFields argument is not a function literal"}
		}
		for _, ci := range engine.Calls(fn) {
			cc, ok := ci.Instr.(*ssa.Call)
			if !ok || !isBuilderInvoke(cc, "ExploreFieldsSpecBuilder") || cc.Call.Method.Name() != "Insert" {
				continue
			}
			k, ok := engine.ConstString(cc.Call.Args[0])
			if !ok {
				s.note = "non-constant key in Insert"
				continue
			}
			s.fields[k] = evalSpec(cc.Call.Args[1], depth+1)
		}
	case "ExploreAll":
		s.kind = "all"
		s.next = evalSpec(args[0], depth+1)
	case "ExploreRecursiveEdge":
		s.kind = "edge"
	case "Matcher":
		s.kind = "matcher"
	default:
		s.kind = "other"
		s.note = call.Call.Method.Name()
	}
	return s
}

func covers(s *spec, p selPos) bool {
	if s == nil {
		return false
	}
	isEdge := func(x *spec) bool { return x != nil && x.kind == "edge" }
	switch p.kind {
	case "direct":
		if s.kind == "fields" && isEdge(s.fields[p.field]) {
			return true
		}
		return s.kind == "all" && isEdge(s.next)
	case "allvalues":
		if s.kind == "fields" {
			if f := s.fields[p.field]; f != nil && f.kind == "all" && isEdge(f.next) {
				return true
			}
		}
		return s.kind == "all" && s.next != nil && s.next.kind == "all" && isEdge(s.next.next)
	case "allelems":
		return s.kind == "all" && isEdge(s.next)
	}
	return false
}

func runC08(c *engine.Ctx) {
	r1 := c.Rule("R1", "the validator's walk covers every clause kind ParseSelector accepts that carries a nested selector, at every nested position; recursive clauses also reach their limit", 4)
	r2 := c.Rule("R2", "the match callback returns nil only for key 'depth' with value <= max (strict >); everything else is an error", 1)
	r3 := c.Rule("R3", "the hook calls ValidateRequest only when ValidateMaxRecursionDepth(request.Selector(), max) returned nil", 1)
	r4 := c.Rule("R4", "validator registered by default with depth 100; only RejectAllRequestsByDefault disables it; only ValidateRequest sets the flag; unvalidated => prepareQuery fails => not queued", 4)

	table, fnOf, ok := parserTable(c, r1)
	if !ok {
		return
	}
	sv := c.P.Pkg("selectorvalidator")
	if sv == nil {
		c.AnchorMissing(r1, "selectorvalidator")
		return
	}
	// the validator function: ValidateMaxRecursionDepth is the API contract
	vf := c.P.Func("selectorvalidator", "", "ValidateMaxRecursionDepth")
	if vf == nil {
		c.AnchorMissing(r1, "selectorvalidator.ValidateMaxRecursionDepth")
		return
	}
	c.Analysed(engine.FuncName(vf))
	// the selector it walks with: argument 1 of traversal.WalkMatching
	var walk *engine.CallInfo
	for _, ci := range engine.Calls(vf) {
		if ci.Is("github.com/ipld/go-ipld-prime/traversal.WalkMatching", "github.com/ipld/go-ipld-prime/traversal.Progress.WalkMatching") {
			ci := ci
			walk = &ci
		}
	}
	if walk == nil {
		c.AnchorMissing(r1, "call of traversal.WalkMatching in ValidateMaxRecursionDepth")
		return
	}
	selArg := walk.Arg(1)
	var glob *ssa.Global
	if u, ok := selArg.(*ssa.UnOp); ok && u.Op == token.MUL {
		glob, _ = u.X.(*ssa.Global)
	}
	if glob == nil {
		c.Undecided(r1, "validator-selector", walk.Instr.Pos(), "the selector passed to WalkMatching is not a package-level variable; cannot evaluate its construction")
		return
	}
	// its (single) initialising store
	var root *spec
	nstores := 0
	for _, m := range sv.Members {
		f, ok := m.(*ssa.Function)
		if !ok {
			continue
		}
		for _, g := range engine.WithClosures(f) {
			engine.Instrs(g, func(in ssa.Instruction) {
				st, ok := in.(*ssa.Store)
				if !ok || st.Addr != glob {
					return
				}
				nstores++
				v := engine.Strip(st.Val)
				if ex, ok := v.(*ssa.Extract); ok {
					v = ex.Tuple
				}
				if call, ok := v.(*ssa.Call); ok && call.Call.IsInvoke() && call.Call.Method.Name() == "Selector" {
					root = evalSpec(call.Call.Value, 0)
				}
			})
		}
	}
	if root == nil || nstores != 1 {
		c.Undecided(r1, "validator-selector", glob.Pos(), fmt.Sprintf("cannot evaluate the construction of %s (%d stores)", glob.Name(), nstores))
		return
	}
	c.Note("validator selector = %s", root.String())
	c.Decide(r1, "root", root.pos, root.kind == "recursive" && root.limit == "none" && root.next != nil && root.next.kind == "fields",
		"root is ExploreRecursive(limit none) over an ExploreFields keyed by clause kind",
		"the validator's root is not an unlimited recursion over an ExploreFields: nesting beyond its limit escapes validation ("+root.String()+")")
	if root.next == nil || root.next.kind != "fields" {
		return
	}
	byClause := root.next.fields
	var keys []string
	for k := range table {
		keys = append(keys, k)
	}
	sort.Strings(keys)
	for _, k := range keys {
		for _, p := range table[k] {
			key := fmt.Sprintf("clause %q (%s) %s", k, fnOf[k], p)
			if p.kind == "unknown" {
				c.Undecided(r1, key, token.NoPos, "cannot classify where "+fnOf[k]+" takes its nested selector from: "+p.field)
				continue
			}
			c.Decide(r1, key, root.pos, covers(byClause[k], p),
				"walked: "+byClause[k].String(),
				fmt.Sprintf("go-ipld-prime parses a nested selector at %s of clause %q, but the validator's walk has %s there: a recursion hidden under this clause is never checked", p, k, byClause[k].String()))
		}
	}
	// recursive clause limit
	recKey := ""
	for k, f := range fnOf {
		if f == "ParseExploreRecursive" {
			recKey = k
		}
	}
	if recKey == "" {
		c.AnchorMissing(r1, "ParseExploreRecursive case in ParseSelector")
	} else {
		limitKey := "l"
		s := byClause[recKey]
		ok := s != nil && s.kind == "fields" && s.fields[limitKey] != nil && s.fields[limitKey].kind == "matcher"
		c.Decide(r1, fmt.Sprintf("clause %q limit", recKey), root.pos, ok, "the recursion limit field is matched", "the validator does not match the limit field of recursive clauses")
	}

	// R2: callback
	var cb *ssa.Function
	if mc, ok := stripConv(walk.Arg(2)).(*ssa.MakeClosure); ok {
		cb, _ = mc.Fn.(*ssa.Function)
	}
	if cb == nil {
		c.Undecided(r2, "match-callback", walk.Instr.Pos(), "WalkMatching callback is not a function literal")
	} else {
		c.Analysed(engine.FuncName(cb))
		checkDepthCallback(c, r2, cb, vf)
	}

	// R3: hook
	hk := c.P.Func("selectorvalidator", "", "SelectorValidator")
	if hk == nil || len(hk.AnonFuncs) == 0 {
		c.AnchorMissing(r3, "selectorvalidator.SelectorValidator closure")
	} else {
		for _, cl := range hk.AnonFuncs {
			for _, ci := range engine.Calls(cl) {
				if !ci.Common.IsInvoke() || ci.Common.Method.Name() != "ValidateRequest" {
					continue
				}
				okGuard := false
				why := "ValidateRequest is not dominated by err == nil of ValidateMaxRecursionDepth"
				for _, cond := range engine.InstrConds(ci.Instr) {
					e, ok := cond.AsEq()
					if !ok || !e.Equal {
						continue
					}
					var other ssa.Value
					if engine.IsNilConst(e.Y) {
						other = e.X
					} else if engine.IsNilConst(e.X) {
						other = e.Y
					} else {
						continue
					}
					call, ok := engine.LocalValue(other).(*ssa.Call)
					if !ok || call.Call.StaticCallee() != vf {
						continue
					}
					// arg0 = request.Selector(), arg1 = the hook factory's parameter
					a0, _ := engine.LocalValue(call.Call.Args[0]).(*ssa.Call)
					selOK := a0 != nil && a0.Call.IsInvoke() && a0.Call.Method.Name() == "Selector" && len(cl.Params) >= 2 && engine.Strip(a0.Call.Value) == cl.Params[1]
					a1 := engine.LocalValue(call.Call.Args[1])
					maxOK := false
					if fv := freeVarOf(a1); fv != nil && len(hk.Params) > 0 && fv.Name() == hk.Params[0].Name() {
						maxOK = true
					}
					if selOK && maxOK {
						okGuard = true
					} else {
						why = fmt.Sprintf("validation is not applied to the request's own selector with the configured maximum (selector arg ok: %v, max arg ok: %v)", selOK, maxOK)
					}
				}
				c.Decide(r3, engine.FuncName(cl), ci.Instr.Pos(), okGuard, "ValidateRequest dominated by nil result of ValidateMaxRecursionDepth(request.Selector(), max)", why)
			}
		}
	}

	runC08R4(c, r4)
}

// checkDepthCallback: every `return nil` is under key=="depth" and value<=max (strict comparison against the max parameter).
func checkDepthCallback(c *engine.Ctx, rule string, cb, vf *ssa.Function) {
	key := engine.FuncName(cb)
	nilReturns := 0
	type retOutcome struct {
		r *ssa.Return
		o engine.Outcome
	}
	var outcomes []retOutcome
	for _, r := range engine.Returns(cb) {
		if len(r.Results) != 1 {
			continue
		}
		// a result assembled in a variable (phi) is looked at one assignment at a time
		for _, o := range engine.ValueOutcomes(engine.LocalValue(r.Results[0]), r.Block()) {
			outcomes = append(outcomes, retOutcome{r, o})
		}
	}
	for _, ro := range outcomes {
		r := ro.r
		rv := engine.LocalValue(ro.o.V)
		if !engine.IsNilConst(rv) {
			// must be provably non-nil: a load of a package-level error variable, a MakeInterface, or under err != nil
			if !provablyNonNilError(rv, ro.o.Conds) {
				c.Undecided(rule, key, r.Pos(), "a return value of the match callback is neither nil nor provably non-nil: "+rv.String())
				return
			}
			continue
		}
		nilReturns++
		conds := ro.o.Conds
		isDepth, leMax := false, false
		badCmp := ""
		for _, cond := range conds {
			if e, ok := cond.AsEq(); ok && e.Equal {
				if s, ok := engine.ConstString(e.Y); ok && s == "depth" {
					isDepth = true
				}
				if s, ok := engine.ConstString(e.X); ok && s == "depth" {
					isDepth = true
				}
			}
			if b, ok := cond.V.(*ssa.BinOp); ok {
				x, y := engine.LocalValue(b.X), engine.LocalValue(b.Y)
				xIsVal, yIsVal := isAsIntResult(x), isAsIntResult(y)
				xIsMax, yIsMax := isMaxParam(x, vf), isMaxParam(y, vf)
				switch {
				case xIsVal && yIsMax:
					// value OP max
					if (b.Op == token.GTR && !cond.Pol) || (b.Op == token.LEQ && cond.Pol) {
						leMax = true
					} else if b.Op == token.GTR || b.Op == token.LEQ || b.Op == token.GEQ || b.Op == token.LSS {
						badCmp = fmt.Sprintf("value %s max with polarity %v", b.Op, cond.Pol)
					}
				case xIsMax && yIsVal:
					if (b.Op == token.LSS && !cond.Pol) || (b.Op == token.GEQ && cond.Pol) {
						leMax = true
					} else if b.Op == token.GTR || b.Op == token.LEQ || b.Op == token.GEQ || b.Op == token.LSS {
						badCmp = fmt.Sprintf("max %s value with polarity %v", b.Op, cond.Pol)
					}
				}
			}
		}
		if !isDepth || !leMax {
			why := "the callback accepts (returns nil) on a path "
			if !isDepth {
				why += "not restricted to the 'depth' limit kind"
			} else if badCmp != "" {
				why += "whose depth comparison is not 'value <= max' (" + badCmp + "): a depth equal to the maximum must pass and anything above must fail"
			} else {
				why += "without comparing the depth value with the maximum"
			}
			c.Violate(rule, key, r.Pos(), why)
			return
		}
	}
	if nilReturns == 0 {
		c.Violate(rule, key, cb.Pos(), "the callback never accepts: bounded recursions would be rejected too")
		return
	}
	c.Hold(rule, key, cb.Pos(), fmt.Sprintf("%d accepting return(s), each under key == \"depth\" and value <= max; all other returns are non-nil errors", nilReturns))
}

func isAsIntResult(v ssa.Value) bool {
	ex, ok := v.(*ssa.Extract)
	if !ok || ex.Index != 0 {
		return false
	}
	call, ok := ex.Tuple.(*ssa.Call)
	return ok && call.Call.IsInvoke() && call.Call.Method.Name() == "AsInt"
}

// freeVarOf returns the captured variable v denotes (directly, or loaded through a by-reference capture).
func freeVarOf(v ssa.Value) *ssa.FreeVar {
	v = stripConv(v)
	if fv, ok := v.(*ssa.FreeVar); ok {
		return fv
	}
	if u, ok := v.(*ssa.UnOp); ok && u.Op == token.MUL {
		if fv, ok := u.X.(*ssa.FreeVar); ok {
			return fv
		}
	}
	return nil
}

func isMaxParam(v ssa.Value, vf *ssa.Function) bool {
	if fv := freeVarOf(v); fv != nil && len(vf.Params) >= 2 {
		return fv.Name() == vf.Params[1].Name()
	}
	if p, ok := v.(*ssa.Parameter); ok && len(vf.Params) >= 2 {
		return p == vf.Params[1]
	}
	return false
}

func provablyNonNilError(v ssa.Value, conds []engine.Cond) bool {
	v = engine.LocalValue(v)
	switch x := v.(type) {
	case *ssa.MakeInterface:
		return true
	case *ssa.UnOp:
		if x.Op == token.MUL {
			if _, ok := x.X.(*ssa.Global); ok {
				return true // package-level error value (errors.New at init)
			}
		}
	case *ssa.Const:
		return x.Value != nil
	}
	return engine.KnownNonNil(conds, v)
}

func runC08R4(c *engine.Ctx, r4 string) {
	implNew := c.P.Func("impl", "", "New")
	cfgF := c.P.Field("impl", "graphsyncConfigOptions", "registerDefaultValidator")
	if implNew == nil || cfgF == nil {
		c.AnchorMissing(r4, "impl.New / graphsyncConfigOptions.registerDefaultValidator")
		return
	}
	c.Analysed(engine.FuncName(implNew))
	// (a) default true in New; every other store is `false` and lives in RejectAllRequestsByDefault
	implFns := c.P.FuncsIn("impl")
	defTrue := false
	for _, st := range engine.StoresTo(implFns, cfgF) {
		b, isConst := engine.ConstBool(st.Val)
		fn := st.Parent()
		switch {
		case fn == implNew && isConst && b:
			defTrue = true
		case isConst && !b && fn.Parent() != nil && fn.Parent().Name() == "RejectAllRequestsByDefault":
			c.Hold(r4, "disable:"+engine.FuncName(fn), st.Pos(), "the only way to switch the default validator off")
		default:
			c.Violate(r4, "writer:"+engine.FuncName(fn), st.Pos(), "registerDefaultValidator is written outside impl.New's default and RejectAllRequestsByDefault")
		}
	}
	c.Decide(r4, "default-true", implNew.Pos(), defTrue, "registerDefaultValidator defaults to true", "registerDefaultValidator does not default to true in impl.New")
	// (b) Register(SelectorValidator(100)) dominated by the flag
	regOK := false
	var regPos token.Pos
	for _, ci := range engine.Calls(implNew) {
		if !ci.Is("~/responsemanager/hooks.IncomingRequestHooks.Register") {
			continue
		}
		hookArg, _ := engine.LocalValue(ci.Arg(0)).(*ssa.Call)
		if hookArg == nil || hookArg.Call.StaticCallee() == nil || !(engine.CallInfo{Static: hookArg.Call.StaticCallee()}).Is("~/selectorvalidator.SelectorValidator") {
			continue
		}
		regPos = ci.Instr.Pos()
		depth, isC := engine.ConstInt(hookArg.Call.Args[0])
		guarded := false
		for _, cond := range engine.InstrConds(ci.Instr) {
			if cond.Pol && isLoadOfField(cond.V, cfgF) {
				guarded = true
			}
		}
		// registered on the hooks object handed to responsemanager.New
		if isC && depth == 100 && guarded {
			regOK = true
		} else {
			c.Violate(r4, "register-default-validator", regPos, fmt.Sprintf("default validator registration: depth constant %d (want 100), guarded by registerDefaultValidator: %v", depth, guarded))
			return
		}
	}
	c.Decide(r4, "register-default-validator", regPos, regOK, "SelectorValidator(100) registered on the incoming-request hooks when registerDefaultValidator is set", "impl.New never registers selectorvalidator.SelectorValidator on the incoming-request hooks")

	// (c) only ValidateRequest sets isValidated, with `true`; result() copies it
	isVal := c.P.Field("responsemanager/hooks", "requestHookActions", "isValidated")
	resVal := c.P.Field("responsemanager/hooks", "RequestResult", "IsValidated")
	if isVal == nil || resVal == nil {
		c.AnchorMissing(r4, "responsemanager/hooks requestHookActions.isValidated / RequestResult.IsValidated")
		return
	}
	hookFns := c.P.FuncsIn("responsemanager/hooks")
	nw := 0
	for _, st := range engine.StoresTo(hookFns, isVal) {
		nw++
		c.Decide(r4, "isValidated-writer:"+engine.FuncName(st.Parent()), st.Pos(), st.Parent().Name() == "ValidateRequest",
			"set by the ValidateRequest hook action only", "the validated flag is set outside the ValidateRequest hook action: requests can pass without any validator approving them")
	}
	if nw == 0 {
		c.Violate(r4, "isValidated-writer", token.NoPos, "nothing ever sets the validated flag")
	}
	copied := false
	for _, st := range engine.StoresTo(hookFns, resVal) {
		if isLoadOfField(st.Val, isVal) {
			copied = true
		} else {
			c.Violate(r4, "IsValidated-source:"+engine.FuncName(st.Parent()), st.Pos(), "RequestResult.IsValidated is not taken from the hook actions' validated flag")
		}
	}
	c.Decide(r4, "IsValidated-source", token.NoPos, copied, "RequestResult.IsValidated = actions.isValidated", "RequestResult.IsValidated is never derived from the validated flag")

	// (d) prepareQuery's first transaction returns nil only under IsValidated && Err == nil
	pq := c.P.Func("responsemanager", "", "prepareQuery")
	if pq == nil {
		c.AnchorMissing(r4, "responsemanager.prepareQuery")
		return
	}
	c.Analysed(engine.FuncName(pq))
	var gate *ssa.Function
	for _, cl := range pq.AnonFuncs {
		uses := false
		engine.Instrs(cl, func(in ssa.Instruction) {
			if fa, ok := in.(*ssa.FieldAddr); ok && engine.FieldOf(fa) == resVal {
				uses = true
			}
			if f, ok := in.(*ssa.Field); ok && engine.FieldOf(f) == resVal {
				uses = true
			}
		})
		if uses {
			gate = cl
		}
	}
	if gate == nil {
		c.Violate(r4, "prepareQuery-gate", pq.Pos(), "prepareQuery no longer consults RequestResult.IsValidated")
		return
	}
	gateOK := true
	why := ""
	for _, r := range engine.Returns(gate) {
		rv := engine.LocalValue(r.Results[0])
		if !engine.IsNilConst(rv) {
			continue
		}
		validated := false
		for _, cond := range engine.InstrConds(r) {
			if cond.Pol && fieldReadOf(cond.V) == resVal {
				validated = true
			}
		}
		if !validated {
			gateOK = false
			why = "the request-gate transaction returns nil on a path not dominated by result.IsValidated"
		}
	}
	// the closure's result is what prepareQuery tests: err of Transaction(gate) != nil => return err
	gateErrChecked := false
	for _, ci := range engine.Calls(pq) {
		if !ci.Common.IsInvoke() || ci.Common.Method.Name() != "Transaction" {
			continue
		}
		mc, ok := stripConv(ci.Common.Args[0]).(*ssa.MakeClosure)
		if !ok || mc.Fn != gate {
			continue
		}
		call := ci.Value()
		if call == nil {
			continue
		}
		// every nil return of prepareQuery is dominated by err == nil of this call
		all := true
		for _, r := range engine.Returns(pq) {
			rv := engine.LocalValue(r.Results[0])
			if !engine.IsNilConst(rv) {
				continue
			}
			if !engine.KnownNil(engine.InstrConds(r), call) {
				all = false
			}
		}
		gateErrChecked = all
	}
	if gateOK && !gateErrChecked {
		gateOK = false
		why = "prepareQuery can return nil without the request-gate transaction having returned nil"
	}
	c.Decide(r4, "prepareQuery-gate", gate.Pos(), gateOK, "prepareQuery returns nil only if the gate transaction returned nil, which requires result.IsValidated", why)

	// (e) PushTask in the new-request handler dominated by prepareQuery err == nil
	queued := false
	for _, f := range c.P.FuncsIn("responsemanager") {
		var pqCall *ssa.Call
		for _, ci := range engine.Calls(f) {
			if ci.Static == pq {
				pqCall = ci.Value()
			}
		}
		if pqCall == nil {
			continue
		}
		for _, ci := range engine.Calls(f) {
			if !ci.Common.IsInvoke() || ci.Common.Method.Name() != "PushTask" {
				continue
			}
			queued = true
			c.Decide(r4, "queue-after-valid:"+engine.FuncName(f), ci.Instr.Pos(), engine.KnownNil(engine.InstrConds(ci.Instr), pqCall),
				"PushTask dominated by prepareQuery(...) == nil", "a new request is queued for execution on a path where prepareQuery failed (rejected / unvalidated request would still run)")
		}
	}
	if !queued {
		c.AnchorMissing(r4, "PushTask in the function calling prepareQuery")
	}
}

// fieldReadOf returns the field read by v (load of FieldAddr, or Field extraction), following one local spill.
func fieldReadOf(v ssa.Value) *types.Var {
	v = engine.LocalValue(v)
	f, _ := engine.LoadedField(v)
	return f
}
