// gscheck: repository-specific static checker for go-graphsync's semantic properties.
//
//	gscheck check -prop C09 -tier quick [-repo /repo] [-verif /verif]
//	gscheck list
package main

import (
	"flag"
	"fmt"
	"os"
	"path/filepath"
	"strconv"
	"strings"
	"time"

	"gscheck/engine"
	"gscheck/normalize"
	"gscheck/rules"
)

func main() {
	if len(os.Args) < 2 {
		usage()
	}
	switch os.Args[1] {
	case "list":
		for _, id := range rules.IDs() {
			fmt.Println(id, rules.Get(id).Meta.Title)
		}
	case "manifest":
		os.Stdout.Write(rules.Manifest())
	case "anchors":
		// gscheck anchors [DIR]: functions and struct fields of the pinned tree with their types (rename baseline)
		dir := "/repo"
		if len(os.Args) > 2 {
			dir = os.Args[2]
		}
		prog, err := engine.Load(dir, false)
		if err != nil {
			fmt.Fprintln(os.Stderr, "gscheck:", err)
			os.Exit(2)
		}
		for _, l := range prog.AnchorLines() {
			fmt.Println(l)
		}
	case "normalize":
		// gscheck normalize DIR: run the normalisation pass only and keep the scratch copy (debugging aid)
		os.Setenv("GS_NORM_KEEP", "1")
		norm, err := normalize.Run(os.Args[2], "/verif/baseline/funcs.txt", os.TempDir())
		fmt.Println(norm, err)
		if norm != nil {
			fmt.Println("dir:", norm.Dir, norm.Inlined, norm.Kept, norm.Notes)
		}
	case "names":
		// gscheck names [DIR]: the function list used as the normalisation baseline
		dir := "/repo"
		if len(os.Args) > 2 {
			dir = os.Args[2]
		}
		keys, err := normalize.FuncKeys(dir)
		if err != nil {
			fmt.Fprintln(os.Stderr, "gscheck:", err)
			os.Exit(2)
		}
		fmt.Println("# functions of the pinned tree (<package>|<receiver>|<name>); unexported functions not listed here are dissolved into their callers before analysis")
		for _, k := range keys {
			fmt.Println(k)
		}
	case "check":
		os.Exit(check(os.Args[2:]))
	default:
		usage()
	}
}

func usage() {
	fmt.Fprintln(os.Stderr, "usage: gscheck check -prop CNN[,CNN...] -tier quick|thorough [-repo DIR] [-verif DIR] | gscheck list")
	os.Exit(2)
}

func check(args []string) int {
	fs := flag.NewFlagSet("check", flag.ExitOnError)
	prop := fs.String("prop", "", "property id(s), comma separated, or 'all'")
	tier := fs.String("tier", "quick", "quick|thorough")
	repo := fs.String("repo", "/repo", "tree to analyse")
	verif := fs.String("verif", "/verif", "verif directory (known_findings.json, evidence/)")
	evdir := fs.String("evidence", "", "evidence directory (default <verif>/evidence)")
	verbose := fs.Bool("v", false, "print every instance")
	_ = fs.Parse(args)
	if *tier != "quick" && *tier != "thorough" {
		usage()
	}
	var ids []string
	if *prop == "all" {
		ids = rules.IDs()
	} else {
		for _, p := range strings.Split(*prop, ",") {
			if p = strings.TrimSpace(p); p != "" {
				ids = append(ids, p)
			}
		}
	}
	if len(ids) == 0 {
		usage()
	}
	for _, id := range ids {
		if rules.Get(id) == nil {
			fmt.Fprintf(os.Stderr, "gscheck: no rule table for %s\n", id)
			return 2
		}
	}
	seed := int64(0)
	if s := os.Getenv("VERIF_SEED"); s != "" {
		if n, err := strconv.ParseInt(s, 10, 64); err == nil {
			seed = n
		}
	}
	if *evdir == "" {
		*evdir = filepath.Join(*verif, "evidence")
	}
	known, err := engine.LoadKnown(filepath.Join(*verif, "known_findings.json"))
	if err != nil {
		fmt.Fprintln(os.Stderr, "gscheck:", err)
		return 2
	}
	thorough := *tier == "thorough"
	t0 := time.Now()
	// dissolve helper functions the rule tables have never seen into their callers (scratch copy, removed afterwards)
	norm, err := normalize.Run(*repo, filepath.Join(*verif, "baseline", "funcs.txt"), os.TempDir())
	if err != nil {
		fmt.Fprintln(os.Stderr, "gscheck: INFRASTRUCTURE ERROR:", err)
		return 2
	}
	defer norm.Cleanup()
	for _, l := range norm.Inlined {
		fmt.Println("gscheck: normalised: dissolved new helper", l)
	}
	for _, l := range norm.Kept {
		fmt.Println("gscheck: normalised: new helper left in place:", l)
	}
	for _, l := range norm.Notes {
		fmt.Println("gscheck: normalised:", l)
	}
	if err := engine.LoadBaseline(filepath.Join(*verif, "baseline", "anchors.txt")); err != nil {
		fmt.Fprintln(os.Stderr, "gscheck: INFRASTRUCTURE ERROR:", err)
		return 2
	}
	prog, err := engine.Load(norm.Dir, thorough)
	if err != nil {
		// infrastructure error: no VIOLATION line
		fmt.Fprintln(os.Stderr, "gscheck: INFRASTRUCTURE ERROR:", err)
		return 2
	}
	fmt.Printf("gscheck: loaded %d packages with syntax from %s in %.1fs (tier=%s, whole-program=%v), %d module functions\n",
		len(prog.Pkgs), *repo, prog.LoadSecs, *tier, thorough, len(prog.SrcFuncs()))
	exit := 0
	for _, id := range ids {
		t1 := time.Now()
		p := rules.Get(id)
		ctx := engine.NewCtx(prog, id, thorough)
		for _, l := range norm.Inlined {
			ctx.Note("normalisation: new helper %s dissolved into its callers before analysis", l)
		}
		for _, l := range norm.Kept {
			ctx.Note("normalisation: new helper left in place: %s", l)
		}
		func() {
			defer func() {
				if r := recover(); r != nil {
					ctx.Rule("R0", "the rule table runs to completion", 0)
					ctx.Undecided("R0", "checker-panic", 0, fmt.Sprintf("checker panicked: %v", r))
				}
			}()
			p.Run(ctx)
		}()
		wall := time.Since(t1).Seconds() + prog.LoadSecs
		if len(ids) == 1 {
			wall = time.Since(t0).Seconds()
		}
		for _, l := range engine.RenameNotes {
			ctx.Note("renamed anchor: %s", l)
		}
		res, err := ctx.Finish(p.Meta, known, *evdir, *tier, seed, wall)
		if err != nil {
			fmt.Fprintln(os.Stderr, "gscheck:", err)
			return 2
		}
		fmt.Printf("== %s %s\n", id, p.Meta.Title)
		for _, l := range ctx.Table() {
			fmt.Println(l)
		}
		if *verbose {
			for _, in := range ctx.Instances() {
				fmt.Printf("    %-9s %s at %s: %s\n", in.Verdict, in.Key, in.Pos, in.Reason)
			}
		}
		for _, l := range res.Lines {
			fmt.Println(l)
		}
		if res.Violations > 0 {
			exit = 1
			fmt.Printf("== %s: %d unlisted violation(s), %d known finding(s)\n", id, res.Violations, res.Known)
		} else {
			fmt.Printf("== %s: holds on all %d instances (%d known finding(s))\n", id, len(ctx.Instances())-res.Known, res.Known)
		}
	}
	return exit
}
