// Package normalize dissolves helper functions that the rule tables have never
// seen into their callers before the analysis runs.
//
// The rule tables are anchored on the functions of the pinned tree (their
// names are listed in /verif/baseline/funcs.txt).  A change that moves part of
// such a function into a new private helper ("extract method") leaves the
// behaviour alone but splits the shape the rules look at across two
// functions.  Normalisation undoes exactly that: every *unexported* function
// or method of a shipped module package that is not in the baseline list, is
// not recursive, has no defer/recover/goto/labels/type parameters/variadics
// and is only called in plain statement positions is inlined at its call
// sites (source-to-source, in a scratch copy of the tree) and deleted.  The
// transformation is the textbook one and preserves behaviour:
//
//	x, err := rl.helper(a, b)      =>   __a0, __a1 := a, b            (arguments evaluated once, in order)
//	                                     var __r0 T0; var __r1 error
//	                                     { var rl *RL = rl0; var p A = __a0; var q B = __a1
//	                                       L: for { <body with `return e, f` => `{ __r0, __r1 = e, f; break L }`> ; break L } }
//	                                     x, err := __r0, __r1
//
// Anything it cannot do safely it leaves alone (the helper then simply stays a
// helper).  When nothing is new the tree is analysed in place.
package normalize

import (
	"bufio"
	"fmt"
	"go/ast"
	"go/parser"
	"go/token"
	"go/types"
	"os"
	"os/exec"
	"path/filepath"
	"sort"
	"strings"

	"golang.org/x/tools/go/packages"
)

const Module = "github.com/ipfs/go-graphsync"

type Result struct {
	Dir     string   // directory to analyse
	Temp    bool     // Dir is a scratch copy (remove it after the analysis)
	Inlined []string // helpers dissolved
	Kept    []string // new helpers left in place, with the reason
	Notes   []string
}

func (r *Result) Cleanup() {
	if r != nil && r.Temp && r.Dir != "" {
		os.RemoveAll(r.Dir)
	}
}

// shipped mirrors engine.IsShipped.
func shipped(rel string) bool {
	for _, ex := range []string{"testutil", "benchmarks", "testplans", "tools", "message/bench", "scripts"} {
		if rel == ex || strings.HasPrefix(rel, ex+"/") {
			return false
		}
	}
	return true
}

func recvName(fd *ast.FuncDecl) string {
	if fd.Recv == nil || len(fd.Recv.List) == 0 {
		return ""
	}
	t := fd.Recv.List[0].Type
	for {
		switch x := t.(type) {
		case *ast.StarExpr:
			t = x.X
			continue
		case *ast.ParenExpr:
			t = x.X
			continue
		case *ast.IndexExpr:
			t = x.X
			continue
		case *ast.IndexListExpr:
			t = x.X
			continue
		case *ast.Ident:
			return x.Name
		}
		return "?"
	}
}

// FuncKeys lists "<pkgrel>|<recv>|<name>" for every function declared in non-test files of shipped packages of dir.
func FuncKeys(dir string) ([]string, error) {
	var keys []string
	fset := token.NewFileSet()
	err := filepath.Walk(dir, func(path string, info os.FileInfo, err error) error {
		if err != nil {
			return err
		}
		if info.IsDir() {
			n := info.Name()
			if path != dir && (strings.HasPrefix(n, ".") || n == "testdata" || n == "vendor") {
				return filepath.SkipDir
			}
			rel, _ := filepath.Rel(dir, path)
			if rel != "." && !shipped(filepath.ToSlash(rel)) {
				return filepath.SkipDir
			}
			return nil
		}
		if !strings.HasSuffix(path, ".go") || strings.HasSuffix(path, "_test.go") {
			return nil
		}
		f, perr := parser.ParseFile(fset, path, nil, parser.SkipObjectResolution)
		if perr != nil {
			return nil // the type-checked load reports syntax errors
		}
		rel, _ := filepath.Rel(dir, filepath.Dir(path))
		rel = filepath.ToSlash(rel)
		if rel == "." {
			rel = ""
		}
		for _, d := range f.Decls {
			if fd, ok := d.(*ast.FuncDecl); ok {
				keys = append(keys, rel+"|"+recvName(fd)+"|"+fd.Name.Name)
			}
		}
		return nil
	})
	sort.Strings(keys)
	return keys, err
}

var goneSigs map[string][]string
var siteCounter int

// readSigs reads "F|rel|recv|name|sig" lines of anchors.txt.
func readSigs(file string) (map[string]string, error) {
	f, err := os.Open(file)
	if err != nil {
		return nil, err
	}
	defer f.Close()
	m := map[string]string{}
	sc := bufio.NewScanner(f)
	sc.Buffer(make([]byte, 1<<20), 1<<20)
	for sc.Scan() {
		parts := strings.SplitN(sc.Text(), "|", 5)
		if len(parts) == 5 && parts[0] == "F" {
			m[parts[1]+"|"+parts[2]+"|"+parts[3]] = parts[4]
		}
	}
	return m, sc.Err()
}

func readBaseline(file string) (map[string]bool, error) {
	f, err := os.Open(file)
	if err != nil {
		return nil, err
	}
	defer f.Close()
	m := map[string]bool{}
	sc := bufio.NewScanner(f)
	for sc.Scan() {
		if l := strings.TrimSpace(sc.Text()); l != "" && !strings.HasPrefix(l, "#") {
			m[l] = true
		}
	}
	return m, sc.Err()
}

// Run normalises repo (see package comment).  tmpRoot is where the scratch copy is made.
func Run(repo, baselineFile, tmpRoot string) (*Result, error) {
	res := &Result{Dir: repo}
	base, err := readBaseline(baselineFile)
	if err != nil {
		return nil, fmt.Errorf("normalize: %w", err)
	}
	if len(base) < 100 {
		return nil, fmt.Errorf("normalize: baseline %s lists only %d functions", baselineFile, len(base))
	}
	keys, err := FuncKeys(repo)
	if err != nil {
		return nil, fmt.Errorf("normalize: %w", err)
	}
	// a baseline function that has disappeared from a (package, receiver) means the new names there may be
	// renames of it: those are left alone (the rule tables resolve renamed anchors themselves)
	have := map[string]bool{}
	for _, k := range keys {
		have[k] = true
	}
	renamedIn := map[string]bool{}
	for k := range base {
		if !have[k] {
			parts := strings.Split(k, "|")
			renamedIn[parts[0]+"|"+parts[1]] = true
		}
	}
	// signatures of the baseline functions that are gone, per (package, receiver): a new function with the very same
	// signature there may be a rename and is left alone
	goneSigs = map[string][]string{}
	if sigs, err := readSigs(filepath.Join(filepath.Dir(baselineFile), "anchors.txt")); err == nil {
		for k := range base {
			if !have[k] {
				parts := strings.Split(k, "|")
				goneSigs[parts[0]+"|"+parts[1]] = append(goneSigs[parts[0]+"|"+parts[1]], sigs[k])
			}
		}
	} else {
		for pr := range renamedIn {
			goneSigs[pr] = []string{"*"}
		}
	}
	newKeys := map[string]bool{}
	for _, k := range keys {
		if !base[k] {
			parts := strings.Split(k, "|")
			if !ast.IsExported(parts[2]) && parts[2] != "init" && parts[2] != "_" {
				newKeys[k] = true
			}
		}
	}
	if len(newKeys) == 0 {
		return res, nil
	}
	// scratch copy
	tmp, err := os.MkdirTemp(tmpRoot, "gs-norm-")
	if err != nil {
		return nil, fmt.Errorf("normalize: %w", err)
	}
	cp := exec.Command("rsync", "-a", "--exclude", ".git", "--exclude", "testplans", repo+"/", tmp+"/")
	if out, err := cp.CombinedOutput(); err != nil {
		os.RemoveAll(tmp)
		return nil, fmt.Errorf("normalize: copying the tree: %v: %s", err, out)
	}
	res.Dir, res.Temp = tmp, true
	changedAny := false
	for round := 0; round < 6; round++ {
		n, err := inlineRound(tmp, newKeys, res)
		if err != nil {
			// leave the copy as the previous round left it if it still type-checks; otherwise fall back
			res.Notes = append(res.Notes, "normalisation stopped: "+err.Error())
			break
		}
		if n == 0 {
			break
		}
		changedAny = true
	}
	if !changedAny {
		res.Cleanup()
		res.Dir, res.Temp = repo, false
		return res, nil
	}
	// the result must type-check; otherwise analyse the original tree
	if err := typeChecks(tmp); err != nil {
		res.Notes = append(res.Notes, "normalised copy does not type-check ("+firstLine(err.Error())+"): analysing the tree as it is")
		if os.Getenv("GS_NORM_KEEP") != "" {
			fmt.Fprintln(os.Stderr, "normalize: kept", tmp, "error:", err)
			res.Temp = false
			return res, nil
		}
		res.Cleanup()
		res.Dir, res.Temp = repo, false
		res.Inlined = nil
	}
	return res, nil
}

func firstLine(s string) string {
	if i := strings.IndexByte(s, '\n'); i >= 0 {
		return s[:i]
	}
	return s
}

func loadTyped(dir string) ([]*packages.Package, error) {
	cfg := &packages.Config{
		Mode: packages.NeedName | packages.NeedFiles | packages.NeedCompiledGoFiles | packages.NeedImports |
			packages.NeedTypes | packages.NeedSyntax | packages.NeedTypesInfo,
		Dir:   dir,
		Tests: false,
		Env:   append(os.Environ(), "GOWORK=off"),
	}
	pkgs, err := packages.Load(cfg, "./...")
	if err != nil {
		return nil, err
	}
	return pkgs, nil
}

func typeChecks(dir string) error {
	pkgs, err := loadTyped(dir)
	if err != nil {
		return err
	}
	for _, p := range pkgs {
		for _, e := range p.Errors {
			return fmt.Errorf("%s: %s", p.PkgPath, e.Error())
		}
	}
	return nil
}

type edit struct {
	start, end int // byte offsets in the file
	text       string
}

type helper struct {
	key  string
	pkg  *packages.Package
	file *ast.File
	decl *ast.FuncDecl
	obj  *types.Func
	why  string // reason it cannot be dissolved ("" = can)
}

// inlineRound performs one leaf-first round; returns the number of call sites inlined.
func inlineRound(dir string, newKeys map[string]bool, res *Result) (int, error) {
	pkgs, err := loadTyped(dir)
	if err != nil {
		return 0, err
	}
	var helpers []*helper
	byObj := map[*types.Func]*helper{}
	for _, p := range pkgs {
		if !(p.PkgPath == Module || strings.HasPrefix(p.PkgPath, Module+"/")) {
			continue
		}
		rel := strings.TrimPrefix(strings.TrimPrefix(p.PkgPath, Module), "/")
		if !shipped(rel) {
			continue
		}
		if len(p.Errors) > 0 {
			return 0, fmt.Errorf("%s: %s", p.PkgPath, p.Errors[0].Error())
		}
		for _, f := range p.Syntax {
			name := p.Fset.Position(f.Pos()).Filename
			if strings.HasSuffix(name, "_test.go") {
				continue
			}
			for _, d := range f.Decls {
				fd, ok := d.(*ast.FuncDecl)
				if !ok || !newKeys[rel+"|"+recvName(fd)+"|"+fd.Name.Name] {
					continue
				}
				obj, _ := p.TypesInfo.Defs[fd.Name].(*types.Func)
				if obj == nil {
					continue
				}
				h := &helper{key: rel + "|" + recvName(fd) + "|" + fd.Name.Name, pkg: p, file: f, decl: fd, obj: obj}
				h.why = unsuitable(h)
				if h.why == "" {
					mine := types.TypeString(obj.Type(), func(p *types.Package) string { return p.Path() })
					for _, g := range goneSigs[rel+"|"+recvName(fd)] {
						if g == "*" || g == mine {
							h.why = "a baseline function of the same receiver and signature is gone (possible rename)"
						}
					}
				}
				helpers = append(helpers, h)
				byObj[obj] = h
			}
		}
	}
	if len(helpers) == 0 {
		return 0, nil
	}
	// leaf-first: a helper whose body calls another suitable new helper waits for a later round
	callsNew := func(h *helper) bool {
		found := false
		ast.Inspect(h.decl.Body, func(n ast.Node) bool {
			if id, ok := n.(*ast.Ident); ok {
				if fn, ok := h.pkg.TypesInfo.Uses[id].(*types.Func); ok {
					if o := byObj[fn]; o != nil && o != h && o.why == "" {
						found = true
					}
				}
			}
			return !found
		})
		return found
	}
	edits := map[string][]edit{}
	total := 0
	for _, h := range helpers {
		if h.why != "" {
			addOnce(&res.Kept, h.key+": "+h.why)
			continue
		}
		if callsNew(h) {
			continue
		}
		sites, bad := findSites(h)
		if bad != "" {
			addOnce(&res.Kept, h.key+": "+bad)
			continue
		}
		if len(sites) == 0 {
			continue // unused: harmless
		}
		ok := true
		var es []struct {
			file string
			e    edit
		}
		for _, s := range sites {
			siteCounter++
			e, why := s.rewrite(h, siteCounter)
			if why != "" {
				addOnce(&res.Kept, h.key+": "+why)
				ok = false
				break
			}
			es = append(es, struct {
				file string
				e    edit
			}{s.filename, e})
		}
		if !ok {
			continue
		}
		// no overlapping edits with what is already planned this round
		overlap := false
		for _, x := range es {
			for _, y := range edits[x.file] {
				if x.e.start < y.end && y.start < x.e.end {
					overlap = true
				}
			}
		}
		if overlap {
			continue // next round
		}
		for _, x := range es {
			edits[x.file] = append(edits[x.file], x.e)
		}
		// delete the helper
		fn := h.pkg.Fset.Position(h.decl.Pos()).Filename
		start := h.decl.Pos()
		if h.decl.Doc != nil {
			start = h.decl.Doc.Pos()
		}
		endPos := h.pkg.Fset.Position(h.decl.End())
		edits[fn] = append(edits[fn], edit{h.pkg.Fset.Position(start).Offset, endPos.Offset,
			fmt.Sprintf("\n//line %s:%d\n", fn, endPos.Line)})
		total += len(sites)
		addOnce(&res.Inlined, fmt.Sprintf("%s (%d call site(s))", h.key, len(sites)))
	}
	for fn, es := range edits {
		src, err := os.ReadFile(fn)
		if err != nil {
			return 0, err
		}
		sort.Slice(es, func(i, j int) bool { return es[i].start > es[j].start })
		for i := 1; i < len(es); i++ {
			if es[i].end > es[i-1].start {
				return 0, fmt.Errorf("overlapping edits in %s", fn)
			}
		}
		out := string(src)
		for _, e := range es {
			out = out[:e.start] + e.text + out[e.end:]
		}
		if err := os.WriteFile(fn, []byte(out), 0o644); err != nil {
			return 0, err
		}
	}
	return total, nil
}

func addOnce(l *[]string, s string) {
	for _, x := range *l {
		if x == s {
			return
		}
	}
	*l = append(*l, s)
}

// unsuitable reports why h cannot be dissolved ("" if it can).
func unsuitable(h *helper) string {
	fd := h.decl
	if fd.Body == nil {
		return "no body"
	}
	if fd.Type.TypeParams != nil && len(fd.Type.TypeParams.List) > 0 {
		return "generic"
	}
	sig := h.obj.Type().(*types.Signature)
	if sig.Variadic() {
		return "variadic"
	}
	if sig.Recv() != nil {
		if _, isIface := sig.Recv().Type().Underlying().(*types.Interface); isIface {
			return "interface method"
		}
	}
	why := ""
	var walk func(n ast.Node, inLit bool)
	ast.Inspect(fd.Body, func(n ast.Node) bool {
		switch x := n.(type) {
		case *ast.DeferStmt:
			// a deferred End() of a tracing span may move to the caller's exit (an observer; nothing analysed depends on
			// when it runs); any other defer (unlocks, closes, recovers) pins the helper's extent and is not moved
			okDefer := false
			if se, isSel := x.Call.Fun.(*ast.SelectorExpr); isSel && se.Sel.Name == "End" && len(x.Call.Args) == 0 {
				if t := h.pkg.TypesInfo.TypeOf(se.X); t != nil && strings.HasSuffix(t.String(), "otel/trace.Span") {
					okDefer = true
				}
			}
			if !okDefer {
				why = "uses defer"
			}
		case *ast.BranchStmt:
			if x.Tok == token.GOTO {
				why = "uses goto"
			}
		case *ast.CallExpr:
			if id, ok := x.Fun.(*ast.Ident); ok && id.Name == "recover" {
				why = "uses recover"
			}
			// recursion
			var id *ast.Ident
			switch f := x.Fun.(type) {
			case *ast.Ident:
				id = f
			case *ast.SelectorExpr:
				id = f.Sel
			}
			if id != nil && h.pkg.TypesInfo.Uses[id] == types.Object(h.obj) {
				why = "recursive"
			}
		}
		return why == ""
	})
	_ = walk
	if why != "" {
		return why
	}
	// parameters must be named (or absent) so they can be bound
	for _, f := range fd.Type.Params.List {
		if len(f.Names) == 0 {
			return "unnamed parameter"
		}
	}
	if fd.Recv != nil && len(fd.Recv.List) == 1 && len(fd.Recv.List[0].Names) == 0 {
		// unnamed receiver: fine, nothing to bind
	}
	if fd.Type.Results != nil {
		named, unnamed := 0, 0
		for _, f := range fd.Type.Results.List {
			if len(f.Names) == 0 {
				unnamed++
			} else {
				named += len(f.Names)
			}
		}
		if named > 0 && unnamed > 0 {
			return "mixed named/unnamed results"
		}
	}
	return ""
}

type site struct {
	h        *helper
	pkg      *packages.Package
	file     *ast.File
	filename string
	call     *ast.CallExpr
	stmt     ast.Stmt // the statement to replace (ExprStmt, AssignStmt, ReturnStmt, IfStmt)
	kind     string   // "expr", "assign", "return", "if-init", "if-cond", "hoist", "hoist-if"
	pre      []*ast.CallExpr // calls of the same statement that Go evaluates before this one: hoisted ahead of it, in order
}

// findSites finds every use of h; a use that is not a call in a supported statement position makes h unsuitable.
func findSites(h *helper) ([]*site, string) {
	var sites []*site
	bad := ""
	for _, f := range h.pkg.Syntax {
		filename := h.pkg.Fset.Position(f.Pos()).Filename
		var stack []ast.Node
		ast.Inspect(f, func(n ast.Node) bool {
			if n == nil {
				stack = stack[:len(stack)-1]
				return true
			}
			stack = append(stack, n)
			id, ok := n.(*ast.Ident)
			if !ok || h.pkg.TypesInfo.Uses[id] != types.Object(h.obj) {
				return true
			}
			if strings.HasSuffix(filename, "_test.go") {
				bad = "used from a test file"
				return true
			}
			// the identifier must be the function of a call
			var call *ast.CallExpr
			ci := -1
			for i := len(stack) - 2; i >= 0 && i >= len(stack)-3; i-- {
				if c, ok := stack[i].(*ast.CallExpr); ok {
					fun := ast.Unparen(c.Fun)
					if fun == ast.Expr(id) {
						call, ci = c, i
					} else if se, ok := fun.(*ast.SelectorExpr); ok && se.Sel == id {
						call, ci = c, i
					}
					break
				}
			}
			if call == nil {
				bad = "used as a value"
				return true
			}
			if ci == 0 {
				bad = "call in an unsupported position"
				return true
			}
			s := &site{h: h, pkg: h.pkg, file: f, filename: filename, call: call}
			parent := stack[ci-1]
			var grand ast.Node
			if ci >= 2 {
				grand = stack[ci-2]
			}
			isElseIf := func(ifs *ast.IfStmt, idx int) bool {
				if idx >= 1 {
					if p, ok := stack[idx-1].(*ast.IfStmt); ok && p.Else == ast.Stmt(ifs) {
						return true
					}
				}
				return false
			}
			inBlock := func(idx int) bool { // the statement at stack[idx] sits directly in a block / case body
				if idx < 1 {
					return false
				}
				switch stack[idx-1].(type) {
				case *ast.BlockStmt, *ast.CaseClause, *ast.CommClause:
					return true
				}
				return false
			}
			switch p := parent.(type) {
			case *ast.ExprStmt:
				if inBlock(ci - 1) {
					s.stmt, s.kind = p, "expr"
				}
			case *ast.AssignStmt:
				if len(p.Rhs) == 1 && p.Rhs[0] == ast.Expr(call) && (p.Tok == token.ASSIGN || p.Tok == token.DEFINE) {
					if inBlock(ci - 1) {
						s.stmt, s.kind = p, "assign"
					} else if ifs, ok := grand.(*ast.IfStmt); ok && ifs.Init == ast.Stmt(p) && !isElseIf(ifs, ci-2) && inBlock(ci-2) {
						s.stmt, s.kind = ifs, "if-init"
					}
				}
			case *ast.ReturnStmt:
				if len(p.Results) == 1 && inBlock(ci-1) {
					s.stmt, s.kind = p, "return"
				}
			case *ast.IfStmt:
				if p.Cond == ast.Expr(call) && p.Init == nil && !isElseIf(p, ci-1) && inBlock(ci-1) {
					s.stmt, s.kind = p, "if-cond"
				}
			case *ast.UnaryExpr:
				if ifs, ok := grand.(*ast.IfStmt); ok && p.Op == token.NOT && ifs.Cond == ast.Expr(p) && ifs.Init == nil && !isElseIf(ifs, ci-2) && inBlock(ci-2) {
					s.stmt, s.kind = ifs, "if-cond"
				}
			case *ast.BinaryExpr:
				// leftmost operand of a && / || chain that is an if condition: evaluated first, unconditionally
				idx := ci - 1
				cur := ast.Expr(call)
				for idx >= 0 {
					be, ok := stack[idx].(*ast.BinaryExpr)
					if !ok || (be.Op != token.LAND && be.Op != token.LOR) || be.X != cur {
						break
					}
					cur = be
					idx--
				}
				if idx >= 0 {
					if ifs, ok := stack[idx].(*ast.IfStmt); ok && ifs.Cond == cur && ifs.Init == nil && !isElseIf(ifs, idx) && inBlock(idx) {
						s.stmt, s.kind = ifs, "if-cond"
					}
				}
			}
			if s.stmt == nil {
				// general case: a single-value call somewhere inside a simple statement.  Go fixes the order of calls
				// and receives only; if nothing of that kind precedes the call in its statement (and it is not in a
				// conditionally evaluated operand or a function literal), evaluating it first is a legal order.
				if st, kind, pre := hoistable(h.pkg.TypesInfo, stack, ci, call); st != nil {
					s.stmt, s.kind, s.pre = st, kind, pre
				}
			}
			if s.stmt == nil {
				bad = "call in an unsupported position"
				return true
			}
			sites = append(sites, s)
			return true
		})
	}
	return sites, bad
}

// hoistable: see findSites.  Returns the statement to put the inlined body in front of and the site kind.
func hoistable(info *types.Info, stack []ast.Node, ci int, call *ast.CallExpr) (ast.Stmt, string, []*ast.CallExpr) {
	// the enclosing statement: nearest ancestor statement sitting directly in a block / case body
	si := -1
	for i := ci - 1; i >= 1; i-- {
		switch stack[i].(type) {
		case *ast.FuncLit:
			return nil, "", nil
		}
		if _, isStmt := stack[i].(ast.Stmt); isStmt {
			switch stack[i-1].(type) {
			case *ast.BlockStmt, *ast.CaseClause, *ast.CommClause:
				si = i
			}
			if si >= 0 {
				break
			}
			// a statement nested in another statement's header (if-init): keep climbing
		}
	}
	if si < 0 {
		return nil, "", nil
	}
	var region ast.Node // the part of the statement evaluated when the statement starts
	kind := ""
	switch st := stack[si].(type) {
	case *ast.ExprStmt, *ast.AssignStmt, *ast.ReturnStmt, *ast.DeclStmt, *ast.SendStmt, *ast.IncDecStmt:
		region, kind = st, "hoist"
	case *ast.IfStmt:
		// only init / cond, and not an else-if
		if p, ok := stack[si-1].(*ast.IfStmt); ok && p.Else == ast.Stmt(st) {
			return nil, "", nil
		}
		inHeader := false
		for i := si + 1; i <= ci; i++ {
			if stack[i] == ast.Node(st.Cond) || (st.Init != nil && stack[i] == ast.Node(st.Init)) {
				inHeader = true
			}
		}
		if !inHeader {
			return nil, "", nil
		}
		if st.Init != nil {
			// call in the condition while an init statement runs first: the init may affect it
			for i := si + 1; i <= ci; i++ {
				if stack[i] == ast.Node(st.Cond) {
					return nil, "", nil
				}
			}
			region = st.Init
		} else {
			region = st.Cond
		}
		kind = "hoist-if"
	case *ast.RangeStmt:
		// the range expression is evaluated once, before the loop
		inX := false
		for i := si + 1; i <= ci; i++ {
			if stack[i] == ast.Node(st.X) {
				inX = true
			}
		}
		if !inX {
			return nil, "", nil
		}
		region, kind = st.X, "hoist-range"
	case *ast.SwitchStmt:
		// the tag (no init statement) is evaluated once, before the cases
		if st.Init != nil || st.Tag == nil {
			return nil, "", nil
		}
		inTag := false
		for i := si + 1; i <= ci; i++ {
			if stack[i] == ast.Node(st.Tag) {
				inTag = true
			}
		}
		if !inTag {
			return nil, "", nil
		}
		region, kind = st.Tag, "hoist-switch"
	default:
		return nil, "", nil
	}
	// on the way from the statement down to the call: no conditionally evaluated operand
	for i := si + 1; i < ci; i++ {
		if be, ok := stack[i].(*ast.BinaryExpr); ok && (be.Op == token.LAND || be.Op == token.LOR) {
			if stack[i+1] != ast.Node(be.X) {
				return nil, "", nil
			}
		}
	}
	// what Go evaluates before the call inside the region: calls that end before it (hoisted ahead of it, outermost
	// ones, in order) — a receive there, or a call that cannot be bound to one variable, makes the site unsupported
	ok := true
	var pre []*ast.CallExpr
	ast.Inspect(region, func(n ast.Node) bool {
		if n == nil || !ok {
			return false
		}
		if n == ast.Node(call) {
			return false
		}
		if _, isLit := n.(*ast.FuncLit); isLit {
			return false
		}
		switch x := n.(type) {
		case *ast.CallExpr:
			if x.End() <= call.Pos() {
				if tv, found := info.Types[x.Fun]; found && tv.IsType() {
					return true // conversion: look inside
				}
				if id, isId := ast.Unparen(x.Fun).(*ast.Ident); isId {
					if _, isBuiltin := info.Uses[id].(*types.Builtin); isBuiltin {
						switch id.Name {
						case "len", "cap", "make", "new", "min", "max", "complex", "real", "imag":
							return true // no effect: look inside for real calls
						}
					}
				}
				t := info.TypeOf(x)
				if t == nil {
					ok = false
					return false
				}
				if tup, isTup := t.(*types.Tuple); isTup && tup.Len() != 1 {
					ok = false
					return false
				}
				pre = append(pre, x)
				return false // hoisted whole, inner calls with it
			}
		case *ast.UnaryExpr:
			if x.Op == token.ARROW && x.End() <= call.Pos() {
				ok = false
			}
		case *ast.BinaryExpr:
			// a preceding call inside a conditionally evaluated operand cannot be hoisted
			if (x.Op == token.LAND || x.Op == token.LOR) && x.Y.End() <= call.Pos() {
				hasCall := false
				ast.Inspect(x.Y, func(m ast.Node) bool {
					if _, isC := m.(*ast.CallExpr); isC {
						hasCall = true
					}
					return !hasCall
				})
				if hasCall {
					ok = false
				}
			}
		}
		return true
	})
	if !ok {
		return nil, "", nil
	}
	return stack[si].(ast.Stmt), kind, pre
}

func (s *site) src(n ast.Node, text []byte) string {
	return string(text[s.pkg.Fset.Position(n.Pos()).Offset:s.pkg.Fset.Position(n.End()).Offset])
}

// rewrite produces the edit replacing the site's statement.
func (s *site) rewrite(h *helper, n int) (edit, string) {
	fset := s.pkg.Fset
	siteText, err := os.ReadFile(s.filename)
	if err != nil {
		return edit{}, err.Error()
	}
	hfile := fset.Position(h.decl.Pos()).Filename
	helperText := siteText
	if hfile != s.filename {
		helperText, err = os.ReadFile(hfile)
		if err != nil {
			return edit{}, err.Error()
		}
		// package names used by the helper must mean the same thing in the call site's file
		if why := importsCompatible(h, s.file); why != "" {
			return edit{}, why
		}
	}
	hsrc := func(nd ast.Node) string {
		return string(helperText[fset.Position(nd.Pos()).Offset:fset.Position(nd.End()).Offset])
	}
	pre := fmt.Sprintf("__gs%d", n)
	label := pre + "L"
	var b strings.Builder
	sig := h.obj.Type().(*types.Signature)

	// 1. arguments, evaluated once in order (receiver first)
	type bind struct{ name, typ, val string }
	var binds []bind
	var temps, tempVals []string
	addArg := func(pname, ptyp string, arg ast.Expr, argText string) {
		if pname == "_" {
			// still evaluate the argument
			temps = append(temps, "_")
			tempVals = append(tempVals, argText)
			return
		}
		tv, ok := s.pkg.TypesInfo.Types[arg]
		if ok && (tv.Value != nil || tv.IsNil()) {
			binds = append(binds, bind{pname, ptyp, argText}) // constants / nil: no evaluation order, typed by the declaration
			return
		}
		t := fmt.Sprintf("%sa%d", pre, len(temps))
		temps = append(temps, t)
		tempVals = append(tempVals, argText)
		binds = append(binds, bind{pname, ptyp, t})
	}
	if h.decl.Recv != nil && len(h.decl.Recv.List) == 1 {
		se, ok := ast.Unparen(s.call.Fun).(*ast.SelectorExpr)
		if !ok {
			return edit{}, "method helper called without a receiver expression"
		}
		sel := s.pkg.TypesInfo.Selections[se]
		if sel == nil || len(sel.Index()) != 1 {
			return edit{}, "method helper reached through an embedded field"
		}
		recvText := s.src(se.X, siteText)
		rt := sig.Recv().Type()
		xt := s.pkg.TypesInfo.TypeOf(se.X)
		_, recvIsPtr := rt.(*types.Pointer)
		_, xIsPtr := xt.Underlying().(*types.Pointer)
		if _, isNamedPtr := xt.(*types.Pointer); isNamedPtr {
			xIsPtr = true
		}
		switch {
		case recvIsPtr && !xIsPtr:
			recvText = "&(" + recvText + ")"
		case !recvIsPtr && xIsPtr:
			recvText = "*(" + recvText + ")"
		}
		rf := h.decl.Recv.List[0]
		if len(rf.Names) == 1 && rf.Names[0].Name != "_" {
			t := fmt.Sprintf("%sa%d", pre, len(temps))
			temps = append(temps, t)
			tempVals = append(tempVals, recvText)
			binds = append(binds, bind{rf.Names[0].Name, hsrc(rf.Type), t})
		} else {
			temps = append(temps, "_")
			tempVals = append(tempVals, recvText)
		}
	}
	ai := 0
	for _, f := range h.decl.Type.Params.List {
		for _, nm := range f.Names {
			if ai >= len(s.call.Args) {
				return edit{}, "argument count mismatch (multi-value argument)"
			}
			addArg(nm.Name, hsrc(f.Type), s.call.Args[ai], s.src(s.call.Args[ai], siteText))
			ai++
		}
	}
	if ai != len(s.call.Args) {
		return edit{}, "argument count mismatch (multi-value argument)"
	}
	// 2. results
	var rnames, rtyps []string
	var namedResults []string
	if h.decl.Type.Results != nil {
		for _, f := range h.decl.Type.Results.List {
			k := len(f.Names)
			if k == 0 {
				k = 1
			}
			for i := 0; i < k; i++ {
				rnames = append(rnames, fmt.Sprintf("%sr%d", pre, len(rnames)))
				rtyps = append(rtyps, hsrc(f.Type))
				if len(f.Names) > 0 {
					namedResults = append(namedResults, f.Names[i].Name)
				}
			}
		}
	}
	hpos := fset.Position(h.decl.Pos())
	fmt.Fprintf(&b, "\n//line %s:%d\n", hpos.Filename, hpos.Line)
	// calls of the same statement that are evaluated before this one keep their place in the order
	type repl struct {
		start, end int
		text       string
	}
	var stmtRepls []repl
	for i, pc := range s.pre {
		t := fmt.Sprintf("%sp%d", pre, i)
		fmt.Fprintf(&b, "%s := %s; ", t, s.src(pc, siteText))
		stmtRepls = append(stmtRepls, repl{fset.Position(pc.Pos()).Offset, fset.Position(pc.End()).Offset, t})
	}
	if s.kind == "return" && s.tailCallOK(h) {
		// `return h(args)`: the helper's returns are the caller's returns
		if len(temps) > 0 {
			allBlank := true
			for _, t := range temps {
				if t != "_" {
					allBlank = false
				}
			}
			op := ":="
			if allBlank {
				op = "="
			}
			fmt.Fprintf(&b, "%s %s %s; ", strings.Join(temps, ", "), op, strings.Join(tempVals, ", "))
		}
		b.WriteString("{ ")
		for _, bd := range binds {
			fmt.Fprintf(&b, "var %s %s = %s; _ = %s; ", bd.name, bd.typ, bd.val, bd.name)
		}
		body := h.decl.Body
		bstart := fset.Position(body.Lbrace).Offset + 1
		bend := fset.Position(body.Rbrace).Offset
		b.WriteString(string(helperText[bstart:bend]))
		b.WriteString("\n}\n")
		stmtStart := fset.Position(s.stmt.Pos())
		stmtEnd := fset.Position(s.stmt.End())
		fmt.Fprintf(&b, "//line %s:%d\n", s.filename, stmtEnd.Line)
		return edit{stmtStart.Offset, stmtEnd.Offset, b.String()}, ""
	}
	if len(temps) > 0 {
		allBlank := true
		for _, t := range temps {
			if t != "_" {
				allBlank = false
			}
		}
		op := ":="
		if allBlank {
			op = "="
		}
		fmt.Fprintf(&b, "%s %s %s; ", strings.Join(temps, ", "), op, strings.Join(tempVals, ", "))
	}
	for i := range rnames {
		fmt.Fprintf(&b, "var %s %s; ", rnames[i], rtyps[i])
	}
	b.WriteString("{ ")
	for _, bd := range binds {
		fmt.Fprintf(&b, "var %s %s = %s; _ = %s; ", bd.name, bd.typ, bd.val, bd.name)
	}
	for i, nr := range namedResults {
		if nr != "_" {
			fmt.Fprintf(&b, "var %s %s; _ = %s; ", nr, rtyps[i], nr)
		}
	}
	// 3. body with returns rewritten
	body := h.decl.Body
	bstart := fset.Position(body.Lbrace).Offset + 1
	bend := fset.Position(body.Rbrace).Offset
	type ret struct {
		start, end int
		text       string
	}
	var rets []ret
	bad := ""
	// the body's own labels get a per-site suffix (the body may be spliced in more than once per function)
	ast.Inspect(body, func(n ast.Node) bool {
		switch x := n.(type) {
		case *ast.LabeledStmt:
			rets = append(rets, ret{fset.Position(x.Label.Pos()).Offset, fset.Position(x.Label.End()).Offset, x.Label.Name + "_" + pre})
		case *ast.BranchStmt:
			if x.Label != nil {
				rets = append(rets, ret{fset.Position(x.Label.Pos()).Offset, fset.Position(x.Label.End()).Offset, x.Label.Name + "_" + pre})
			}
		}
		return true
	})
	var inspect func(n ast.Node) bool
	inspect = func(n ast.Node) bool {
		switch x := n.(type) {
		case *ast.FuncLit:
			return false
		case *ast.ReturnStmt:
			var t string
			switch {
			case len(rnames) == 0:
				t = "{ break " + label + " }"
			case len(x.Results) == 0:
				if len(namedResults) != len(rnames) {
					bad = "bare return without named results"
					return false
				}
				var ns []string
				for _, nr := range namedResults {
					if nr == "_" {
						bad = "bare return with blank named result"
						return false
					}
					ns = append(ns, nr)
				}
				t = "{ " + strings.Join(rnames, ", ") + " = " + strings.Join(ns, ", ") + "; break " + label + " }"
			default:
				var es []string
				for _, e := range x.Results {
					es = append(es, hsrc(e))
				}
				t = "{ " + strings.Join(rnames, ", ") + " = " + strings.Join(es, ", ") + "; break " + label + " }"
			}
			rets = append(rets, ret{fset.Position(x.Pos()).Offset, fset.Position(x.End()).Offset, t})
			return false
		}
		return true
	}
	ast.Inspect(body, inspect)
	if bad != "" {
		return edit{}, bad
	}
	bodyText := string(helperText[bstart:bend])
	sort.Slice(rets, func(i, j int) bool { return rets[i].start > rets[j].start })
	for _, r := range rets {
		bodyText = bodyText[:r.start-bstart] + r.text + bodyText[r.end-bstart:]
	}
	fmt.Fprintf(&b, "%s: for { %s\n break %s } }\n", label, bodyText, label)
	// 4. the statement itself, with the call replaced by the results
	stmtStart := fset.Position(s.stmt.Pos())
	stmtEnd := fset.Position(s.stmt.End())
	isIf := false
	switch hs := s.stmt.(type) {
	case *ast.IfStmt:
		// only the header is replaced; the body stays where it is
		stmtEnd = fset.Position(hs.Body.Lbrace)
		isIf = true
	case *ast.RangeStmt:
		stmtEnd = fset.Position(hs.Body.Lbrace)
		isIf = true
	case *ast.SwitchStmt:
		stmtEnd = fset.Position(hs.Body.Lbrace)
		isIf = true
	}
	fmt.Fprintf(&b, "//line %s:%d\n", s.filename, stmtStart.Line)
	resultExpr := strings.Join(rnames, ", ")
	cs, ce := fset.Position(s.call.Pos()).Offset, fset.Position(s.call.End()).Offset
	stmtText := string(siteText[stmtStart.Offset:stmtEnd.Offset])
	switch s.kind {
	case "expr":
		for _, r := range rnames {
			fmt.Fprintf(&b, "_ = %s; ", r)
		}
	default:
		if len(rnames) == 0 {
			return edit{}, "result of a helper without results used"
		}
		if (s.kind == "if-cond" || strings.HasPrefix(s.kind, "hoist")) && len(rnames) != 1 {
			return edit{}, "multi-value helper inside an expression"
		}
		stmtRepls = append(stmtRepls, repl{cs, ce, resultExpr})
		sort.Slice(stmtRepls, func(i, j int) bool { return stmtRepls[i].start > stmtRepls[j].start })
		out := stmtText
		for _, r := range stmtRepls {
			if r.start < stmtStart.Offset || r.end > stmtEnd.Offset {
				return edit{}, "a hoisted call lies outside the statement header"
			}
			out = out[:r.start-stmtStart.Offset] + r.text + out[r.end-stmtStart.Offset:]
		}
		b.WriteString(out)
	}
	if !isIf {
		fmt.Fprintf(&b, "\n//line %s:%d\n", s.filename, stmtEnd.Line)
	}
	return edit{stmtStart.Offset, stmtEnd.Offset, b.String()}, ""
}

// tailCallOK: the site is `return h(...)`, h has unnamed results whose types are identical to the enclosing
// function's, and h's body ends in a return (so nothing falls out of the spliced block).
func (s *site) tailCallOK(h *helper) bool {
	sig := h.obj.Type().(*types.Signature)
	if sig.Results().Len() == 0 {
		return false
	}
	if h.decl.Type.Results != nil {
		for _, f := range h.decl.Type.Results.List {
			if len(f.Names) > 0 {
				return false
			}
		}
	}
	// enclosing function of the site
	var encl *types.Signature
	var enclNamed bool
	ast.Inspect(s.file, func(n ast.Node) bool {
		switch x := n.(type) {
		case *ast.FuncDecl:
			if x.Body != nil && x.Body.Pos() <= s.stmt.Pos() && s.stmt.End() <= x.Body.End() {
				if fn, ok := s.pkg.TypesInfo.Defs[x.Name].(*types.Func); ok {
					encl = fn.Type().(*types.Signature)
					enclNamed = false
					if x.Type.Results != nil {
						for _, f := range x.Type.Results.List {
							if len(f.Names) > 0 {
								enclNamed = true
							}
						}
					}
				}
			}
		case *ast.FuncLit:
			if x.Body.Pos() <= s.stmt.Pos() && s.stmt.End() <= x.Body.End() {
				if t, ok := s.pkg.TypesInfo.TypeOf(x).(*types.Signature); ok {
					encl = t
					enclNamed = false
					if x.Type.Results != nil {
						for _, f := range x.Type.Results.List {
							if len(f.Names) > 0 {
								enclNamed = true
							}
						}
					}
				}
			}
		}
		return true
	})
	if encl == nil || enclNamed || encl.Results().Len() != sig.Results().Len() {
		return false
	}
	for i := 0; i < sig.Results().Len(); i++ {
		if !types.Identical(encl.Results().At(i).Type(), sig.Results().At(i).Type()) {
			return false
		}
	}
	// body must end in a return statement
	l := h.decl.Body.List
	if len(l) == 0 {
		return false
	}
	if _, ok := l[len(l)-1].(*ast.ReturnStmt); !ok {
		return false
	}
	// a nested function literal's returns are its own; nothing else to check
	return true
}

// importsCompatible: every package name the helper's source uses resolves to the same import in file f under the same name.
func importsCompatible(h *helper, f *ast.File) string {
	imports := map[string]string{} // name -> path in f
	for _, im := range f.Imports {
		path := strings.Trim(im.Path.Value, "\"")
		name := ""
		if im.Name != nil {
			name = im.Name.Name
		} else if pk := h.pkg.Imports[path]; pk != nil {
			name = pk.Name
		} else {
			name = path[strings.LastIndex(path, "/")+1:]
		}
		imports[name] = path
	}
	why := ""
	ast.Inspect(h.decl, func(n ast.Node) bool {
		id, ok := n.(*ast.Ident)
		if !ok {
			return true
		}
		if pn, ok := h.pkg.TypesInfo.Uses[id].(*types.PkgName); ok {
			if imports[id.Name] != pn.Imported().Path() {
				why = "call site in another file that does not import " + pn.Imported().Path() + " as " + id.Name
			}
		}
		return why == ""
	})
	return why
}
